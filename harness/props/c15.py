"""C15 Stored job specs and region sets round-trip — correspondence of SpecFormat.dbSpec / get* / regionsToBits / bitsToRegions
with the real batch.batch_format_version.BatchFormatVersion and batch.utils.regions_to_bits_rep / regions_bits_rep_to_regions."""
import asyncio
import itertools
import json
import logging
import os
import random

from .. import loader
from ..framework import MachineryError, Prop


def canon(x):
    """canonical text shared with lean/Driver/C15.lean"""
    if x is None:
        return 'n'
    if x is True:
        return 't'
    if x is False:
        return 'f'
    if isinstance(x, int):
        return str(x)
    if isinstance(x, str):
        return 's:' + '.'.join('%x' % ord(c) for c in x)
    if isinstance(x, (list, tuple)):
        return '[' + ','.join(canon(y) for y in x) + ']'
    if isinstance(x, dict):
        return '{' + ','.join('.'.join('%x' % ord(c) for c in k) + '=' + canon(v) for k, v in sorted(x.items())) + '}'
    return 'bad:' + type(x).__name__


def wire(x):
    return json.dumps(x, separators=(',', ':'), ensure_ascii=True).replace(' ', '\\u0020')


K8S = ['default', 'a', 'ns-1', 'hail.is', 'batch-pods', 'x0', 'gsa-key', 'test-gsa-key', 'ssl-config', 'a.b-c.d', '0']
PATHS = ['/gsa-key', '/a b', '', '/', '/é中', '/q"uote', '/back\\slash', 'rel/path', '/n\nl', '/sa']
MACHINE_TYPES = ['n1-standard-1', 'n1-highmem-8', 'Standard_D2ds_v4', 'g2-standard-4', '', 'x']


class C15(Prop):
    id = 'C15'
    title = 'Stored job specs and region sets round-trip'
    lean_props = ['HailVerif.Props.C15']
    driver = 'Driver/C15.lean'
    engine = 'E3-pure'
    design_ref = 'DESIGN.md §4 C15'
    technique = ('Lean 4 proof about an executable model of db_spec / get_spec_* over a JSON-like value type (Python exceptions are explicit '
                 '`none` outcomes) and of the region bitset functions on Nat + differential correspondence with the real code')
    level_text = ('Theorems for EVERY format version (any Nat, so 1..7), every typed spec (each of secrets / service_account / input_files / '
                  'output_files / machine_type present or absent, any strings, any number of secrets, mount_in_copy present or absent) and any '
                  'other keys: each getter applied to db_spec(spec) returns the spec field, with the conventions explicit in the statements '
                  '(formats >= 2: empty or absent secrets -> None, mount_in_copy absent -> False; machine spec only for formats >= 5 and a '
                  'non-empty machine_type; format 1 stores the spec itself); db_spec never raises on such specs. bits_roundtrip: for any mapping '
                  'with distinct regions, distinct indices in 1..63 and any selection (any order, repetitions) the bitset is < 2^63 and decodes to '
                  'exactly the selected regions in mapping order. The models are tied to the real BatchFormatVersion / batch.utils functions by '
                  'generated validator-accepted specs x all versions and all subsets of up to 10 regions + random subsets of up to 63.')
    level_note = ('Trusted: Lean kernel; the hand-written model agrees with the Python code only as far as the generated specs show; Python dict '
                  '= association list with unique keys; JSON round trip of the stored form (json.dumps/loads) is performed on the real side. The '
                  'proof is about the model, not the Python text.')
    budget = {'quick': 2500, 'thorough': 60000}
    search_budget = {'quick': 6000, 'thorough': 60000}
    rule = ('spec case = one job spec (validated by the real job_validator in its user form, then extended the way front_end.create_jobs does: '
            'resources.storage_gib/preemptible/cores_mcpu, system secrets with mount_in_copy) run under every format version 1..current: '
            'db_spec -> json.dumps/loads -> five getters; also raw variants with keys absent, empty lists, empty machine_type. bits case = (mapping, '
            'selection): all subsets of a 10-region mapping and of every smaller mapping size, random subsets (random order, repetitions) of '
            'mappings of up to 63 regions, plus a few out-of-contract mappings (index 0, 64, unknown region, shared index) where only the '
            'correspondence with the model is checked. non-trivial = spec with a secret, service account, files or machine type / non-empty '
            'selection; distinct by case. bunch case = 1-6 client job specs of mixed shapes (with / without `regions`, secrets, service account, '
            'mount_tokens, input / output files, machine types, preemptible) submitted as ONE bunch through the real validate_and_clean_jobs + '
            'front_end._create_jobs over minisql into a batch of format version 1..current; observed per job: the jobs row (n_regions, '
            'regions_bits_rep decoded with the real decoder, compact spec through the real getters) and the full spec the front end stored; '
            'oracle: every stored job is checked against ITS OWN submitted spec (a job without `regions` is stored NULL whatever precedes it)')
    trusted = ['strings in generated specs are restricted to the Basic Multilingual Plane (the Lean JSON reader of the driver does not join '
               'surrogate pairs)']
    assumptions = ['specs reaching db_spec have the shape the job validator and front_end.create_jobs produce (resources is a dict with '
                   'preemptible/storage_gib whenever machine_type is set; secrets carry namespace/name/mount_path)',
                   'app["regions"] maps each region to a distinct index in 1..63 (MySQL AUTO_INCREMENT ids of the regions table)']

    def setup(self, repo):
        loader.install(repo)
        from batch.batch_format_version import BatchFormatVersion
        import batch.utils as utils
        import batch.globals as g
        import batch.front_end.validate as validate
        from hailtop.utils.validate import ValidationError
        self.BFV = BatchFormatVersion
        self.utils = utils
        self.current = int(g.BATCH_FORMAT_VERSION)
        self.validate = validate
        self.ValidationError = ValidationError
        self.n_user_validated = 0
        self.repo = repo
        self._w = None

    # ---- spec generation ------------------------------------------------------------------------------
    def _user_spec(self, rng):
        """a job spec as a client submits it (must pass the real job_validator)"""
        spec = {
            'always_run': rng.random() < 0.2,
            'job_id': rng.randint(1, 1000),
            'parent_ids': [],
            'process': {'type': 'docker', 'image': 'ubuntu:22.04', 'command': ['true'], 'mount_docker_socket': False},
        }
        r = rng.random()
        if r < 0.6:
            n = rng.choice([0, 1, 1, 2, 3, 6])
            spec['secrets'] = [{'namespace': rng.choice(K8S), 'name': rng.choice(K8S), 'mount_path': rng.choice(PATHS)} for _ in range(n)]
        if rng.random() < 0.5:
            spec['service_account'] = {'namespace': rng.choice(K8S), 'name': rng.choice(K8S)}
        for key in ('input_files', 'output_files'):
            r = rng.random()
            if r < 0.5:
                spec[key] = [{'from': 'gs://b/' + rng.choice(K8S), 'to': '/io/' + rng.choice(K8S)} for _ in range(rng.choice([0, 1, 2, 5]))]
        res = {}
        if rng.random() < 0.6:
            res['cpu'] = rng.choice(['1', '0.25', '500m'])
        if rng.random() < 0.4:
            res['memory'] = rng.choice(['standard', '3.75Gi', 'highmem'])
        if rng.random() < 0.4:
            res['storage'] = rng.choice(['10Gi', '0', '375G'])
        if rng.random() < 0.45:
            res['machine_type'] = rng.choice(MACHINE_TYPES)
        if rng.random() < 0.5:
            res['preemptible'] = rng.random() < 0.5
        if res or rng.random() < 0.5:
            spec['resources'] = res
        return spec

    def _front_end(self, rng, user):
        """what front_end.create_jobs adds before calling db_spec"""
        spec = json.loads(json.dumps(user))
        res = spec.setdefault('resources', {})
        preemptible = res.get('preemptible', True)
        res['req_cpu'] = res.pop('cpu', '1')
        res['req_memory'] = res.pop('memory', 'standard')
        res['req_storage'] = res.pop('storage', '0')
        res['cores_mcpu'] = rng.choice([250, 1000, 16000])
        res['memory_bytes'] = rng.choice([10 ** 9, 3_750_000_000])
        res['storage_gib'] = rng.choice([0, 5, 10, 375, 10 ** 12])
        res['preemptible'] = preemptible
        secrets = spec.get('secrets') or []
        if rng.random() < 0.6:
            secrets.append({'namespace': 'default', 'name': 'user-gsa-key', 'mount_path': '/gsa-key', 'mount_in_copy': True})
        if rng.random() < 0.4:
            secrets.append({'namespace': 'default', 'name': 'worker-deploy-config', 'mount_path': '/deploy-config', 'mount_in_copy': False})
        spec['secrets'] = secrets
        spec['env'] = [{'name': 'HAIL_X', 'value': 'y'}]
        return spec

    def _raw_variant(self, rng):
        """directly built specs: every presence/absence combination, empty lists, empty machine type"""
        spec = {'job_id': 1}
        r = rng.random()
        if r < 0.3:
            spec['secrets'] = []
        elif r < 0.75:
            spec['secrets'] = []
            for _ in range(rng.choice([1, 1, 2, 4])):
                s = {'namespace': rng.choice(K8S), 'name': rng.choice(K8S), 'mount_path': rng.choice(PATHS)}
                m = rng.random()
                if m < 0.33:
                    s['mount_in_copy'] = True
                elif m < 0.66:
                    s['mount_in_copy'] = False
                spec['secrets'].append(s)
        if rng.random() < 0.5:
            spec['service_account'] = {'namespace': rng.choice(K8S), 'name': rng.choice(K8S)}
        for key in ('input_files', 'output_files'):
            r = rng.random()
            if r < 0.3:
                spec[key] = []
            elif r < 0.6:
                spec[key] = [{'from': 'a', 'to': 'b'}] * rng.choice([1, 3])
        res = {'preemptible': rng.random() < 0.5, 'storage_gib': rng.choice([0, 1, 10, 375])}
        r = rng.random()
        if r < 0.5:
            res['machine_type'] = rng.choice(MACHINE_TYPES)
        spec['resources'] = res
        return spec

    def _spec_case(self, rng):
        if rng.random() < 0.5:
            user = self._user_spec(rng)
            try:
                self.validate.job_validator.validate('job', user)
            except self.ValidationError as e:
                raise MachineryError(f'generated user spec rejected by the real job validator: {e.reason}: {user}')
            self.n_user_validated += 1
            spec = self._front_end(rng, user)
        else:
            spec = self._raw_variant(rng)
        return {'k': 'spec', 'versions': list(range(1, self.current + 1)), 'spec': spec}

    # ---- bits generation ------------------------------------------------------------------------------
    @staticmethod
    def _regions(n):
        return [f'r{i}' if i % 3 else f'us-central{i}' for i in range(n)]

    def _bits_cases(self, rng, n_random, tier):
        # all subsets of mappings with 0..10 regions (indices a random injective choice from 1..63)
        for n in range(0, 11):
            names = self._regions(n)
            idxs = rng.sample(range(1, 64), n)
            if n == 10:
                idxs = [1, 63] + rng.sample(range(2, 63), 8)
            mapping = [[a, b] for a, b in zip(names, idxs)]
            for k in range(n + 1):
                for sub in itertools.combinations(names, k):
                    sel = list(sub)
                    if rng.random() < 0.3:
                        rng.shuffle(sel)
                    yield {'k': 'bits', 'mapping': mapping, 'selected': sel}
        for _ in range(n_random):
            n = rng.choice([1, 2, 5, 20, 40, 63, 63])
            names = self._regions(n)
            idxs = rng.sample(range(1, 64), n)
            mapping = [[a, b] for a, b in zip(names, idxs)]
            sel = [x for x in names if rng.random() < rng.choice([0.1, 0.5, 0.9, 1.0])]
            rng.shuffle(sel)
            if sel and rng.random() < 0.2:
                sel.append(rng.choice(sel))
            r = rng.random()
            if r < 0.03:
                mapping[rng.randrange(n)][1] = rng.choice([0, 64, 65, 100])          # out of contract: assertion / negative shift
            elif r < 0.05:
                sel.append('nowhere')                                                 # out of contract: KeyError
            elif r < 0.07 and n >= 2:
                mapping[0][1] = mapping[1][1]                                         # out of contract: shared index
            yield {'k': 'bits', 'mapping': mapping, 'selected': sel}
        yield {'k': 'bitsnone', 'mapping': [['a', 1], ['b', 2]]}

    def cases(self, rng, n, tier):
        yield from self._bits_cases(rng, 600 if tier == 'quick' else 20000, tier)
        for _ in range(n):
            yield self._spec_case(rng)
        for _ in range(400 if tier == 'quick' else 6000):
            yield self._bunch_case(rng)

    # ---- bunches through the real front end (_create_jobs over minisql) -----------------------------------------------
    REGIONS = [['us-central1', 1], ['us-east1', 2], ['europe-west1', 3], ['asia-east1', 4], ['us-west4', 9], ['me-central2', 32],
               ['au-south1', 62], ['far-away9', 63]]
    GCP_MACHINES = ['n1-standard-1', 'n1-standard-8', 'n1-highmem-2', 'n1-highcpu-4']

    def _bunch_job(self, rng, i, user, shape):
        """one client job spec (relative job id i); `shape` biases the region preference of the whole bunch"""
        s = {'job_id': i, 'in_update_parent_ids': [], 'absolute_parent_ids': [], 'always_run': rng.random() < 0.1,
             'process': {'type': 'docker', 'image': 'ubuntu:22.04', 'command': ['true'], 'mount_docker_socket': False},
             'absolute_job_group_id': 0}
        names = [r for r, _ in self.REGIONS]
        p_regions = {'none': 0.0, 'all': 1.0, 'mixed': 0.5}[shape]
        if rng.random() < p_regions:
            k = rng.choice([1, 1, 2, 3, len(names)])
            sel = rng.sample(names, k)
            if rng.random() < 0.1:
                sel.append(sel[0])
            s['regions'] = sel
        res = {}
        if rng.random() < 0.25:
            res['machine_type'] = rng.choice(self.GCP_MACHINES)
            if rng.random() < 0.5:
                res['preemptible'] = rng.random() < 0.5
            if rng.random() < 0.5:
                res['storage'] = rng.choice(['10Gi', '375Gi', '20G'])
        else:
            res['cpu'] = rng.choice(['1', '0.25', '2', '500m'])
            res['memory'] = rng.choice(['standard', 'highmem', 'lowmem'])     # a worker type: pool chosen without the price tables
            res['storage'] = rng.choice(['0', '5Gi', '1Gi'])
            if rng.random() < 0.2:
                res['preemptible'] = True                                     # the seeded pools are preemptible
        s['resources'] = res
        for key in ('input_files', 'output_files'):
            r = rng.random()
            if r < 0.25:
                s[key] = [{'from': 'gs://b/' + rng.choice(K8S), 'to': '/io/' + rng.choice(K8S)} for _ in range(rng.choice([1, 2]))]
            elif r < 0.35:
                s[key] = []
        if user == 'ci':
            if rng.random() < 0.4:
                s['secrets'] = [{'namespace': rng.choice(K8S), 'name': rng.choice(K8S), 'mount_path': rng.choice(PATHS)}
                                for _ in range(rng.choice([1, 1, 2]))]
            if rng.random() < 0.3:
                s['service_account'] = {'namespace': 'default', 'name': rng.choice(['ci-agent', 'admin'])}
            if rng.random() < 0.15:
                s['mount_tokens'] = True
        if rng.random() < 0.3:
            s['attributes'] = {'name': f'job{i}'}
        return s

    def _bunch_case(self, rng):
        user = rng.choice(['u1', 'ci', 'ci'])
        shape = rng.choice(['mixed', 'mixed', 'mixed', 'none', 'all'])
        n = rng.choice([1, 2, 2, 3, 4, 6])
        jobs = [self._bunch_job(rng, i, user, shape) for i in range(1, n + 1)]
        r = rng.random()
        if r < 0.04:
            jobs[rng.randrange(n)]['regions'] = []                           # rejected: empty list
        elif r < 0.08:
            jobs[rng.randrange(n)]['regions'] = ['us-east1', 'nowhere-1']    # rejected: unknown region
        v = self.current if rng.random() < 0.6 else rng.randint(1, self.current)
        return {'k': 'bunch', 'user': user, 'v': v, 'jobs': jobs}

    def _world(self):
        if getattr(self, '_w', None) is not None:
            return self._w
        os.environ['HAIL_VERIF_REPO'] = self.repo
        from harness.minisql import batchapp
        loop = asyncio.new_event_loop()
        logging.disable(logging.CRITICAL)
        try:
            db = batchapp.seeded_db(random.Random(0), clock=lambda: 1700000000.0, repo=self.repo, users=('u1', 'ci'))
            have = {r['region'] for r in db.tables['regions']}
            db.load_rows('regions', [{'region': r, 'region_id': i} for r, i in self.REGIONS if r not in have])
            app = loop.run_until_complete(batchapp.make_app(db))
            from harness import svcenv
            svcenv.prepare()          # the global-config secret read by possible_cloud_locations (pool selection by price)
        finally:
            logging.disable(logging.NOTSET)
        import batch.front_end.front_end as fe
        mapping = sorted(([r, i] for r, i in app['regions'].items()), key=lambda p: p[1])
        if mapping != sorted(self.REGIONS, key=lambda p: p[1]):
            raise MachineryError(f'seeded regions table differs from the plan: {mapping}')
        self._w = {'loop': loop, 'db': db, 'app': app, 'fe': fe, 'batchapp': batchapp, 'snap': db.snapshot(),
                   'mapping': [[r, i] for r, i in app['regions'].items()]}
        return self._w

    def _play(self, c):
        """validate_and_clean_jobs + _create_jobs on one bunch in a fresh batch of format version c['v'];
        -> {'rejected': reason} | {'rows': [jobs rows], 'fulls': [the full spec the front end stored for each job]}"""
        key = json.dumps(c, sort_keys=True)
        if getattr(self, '_play_key', None) == key:
            return self._play_val
        w = self._world()
        db, app, fe, ba = w['db'], w['app'], w['fe'], w['batchapp']
        db.restore(w['snap'])
        app['file_store'].specs.clear()
        userdata = dict(ba.USERDATA)
        userdata['username'] = c['user']
        specs = json.loads(json.dumps(c['jobs']))

        async def go():
            from aiohttp import web
            bid = await fe._create_batch({'billing_project': ba.BILLING_PROJECT, 'token': 'tok', 'n_jobs': len(specs)}, userdata, app['db'])
            for r in db.tables['batches']:
                if r['id'] == bid:
                    r['format_version'] = c['v']
            upd = await fe._create_batch_update(bid, 'utok', len(specs), 0, c['user'], app['db'])
            try:
                self.validate.validate_and_clean_jobs(specs)
                await fe._create_jobs(userdata, specs, bid, upd[0], app)
            except self.ValidationError as e:
                return {'rejected': 'validator: ' + str(e.reason)}
            except web.HTTPBadRequest as e:
                return {'rejected': str(e.reason or e.text)}
            rows = sorted((dict(r) for r in db.tables['jobs'] if r['batch_id'] == bid), key=lambda r: r['job_id'])
            fulls = []
            stored = [v for (b, _tok), v in app['file_store'].specs.items() if b == bid]
            if stored:
                data, offsets = stored[0]
                offs = [int.from_bytes(offsets[8 * k:8 * k + 8], 'little') for k in range(len(offsets) // 8)]
                fulls = [json.loads(data[a:b].decode()) for a, b in zip(offs, offs[1:])]
            return {'rows': rows, 'fulls': fulls}

        logging.disable(logging.CRITICAL)
        try:
            val = w['loop'].run_until_complete(go())
        finally:
            logging.disable(logging.NOTSET)
        self._play_key, self._play_val = key, val
        return val

    def _bunch_fulls(self, c, played):
        """the full spec of every job: the spec file (formats >= 2) or the row itself (format 1)"""
        if c['v'] == 1:
            return [json.loads(r['spec']) for r in played['rows']]
        return played['fulls']

    # ---- model / implementation ---------------------------------------------------------------------------
    def model_lines(self, c):
        if c['k'] == 'bunch':
            played = self._play(c)
            lines = [f'bunch {wire(self._world()["mapping"])} {wire([j.get("regions") for j in c["jobs"]])}']
            if 'rejected' not in played:
                lines += [f'spec {c["v"]} {wire(full)}' for full in self._bunch_fulls(c, played)]
            return lines
        if c['k'] == 'spec':
            js = wire(c['spec'])
            return [f'spec {v} {js}' for v in c['versions']]
        if c['k'] == 'bits':
            return [f'bits {wire(c["mapping"])} {wire(c["selected"])}']
        return [f'bitsnone {wire(c["mapping"])}']

    ERRS = (KeyError, IndexError, TypeError, AttributeError, AssertionError, ValueError)

    def _getters(self, v, spec, canon=canon):
        """db_spec -> JSON round trip (the DB column) -> the five getters; each may raise"""
        bfv = self.BFV(v)
        out = {}
        try:
            db = json.loads(json.dumps(bfv.db_spec(spec)))
        except self.ERRS:
            return {k: 'err' for k in ('db', 'secrets', 'sa', 'in', 'out', 'ms')}
        out['db'] = canon(db)
        for key, fn in (('secrets', bfv.get_spec_secrets), ('sa', bfv.get_spec_service_account), ('in', bfv.get_spec_has_input_files),
                        ('out', bfv.get_spec_has_output_files), ('ms', bfv.get_spec_machine_spec)):
            try:
                out[key] = canon(fn(db))
            except self.ERRS:
                out[key] = 'err'
        return out

    def impl(self, c):
        if c['k'] == 'bunch':
            played = self._play(c)
            if 'rejected' in played:
                return ['rejected']
            w = self._world()
            bfv = self.BFV(c['v'])
            parts = []
            lines = []
            for row in played['rows']:
                try:
                    dec = canon(self.utils.regions_bits_rep_to_regions(row['regions_bits_rep'], w['app']['regions']))
                except self.ERRS:
                    dec = 'err'

                def o(x):
                    return '-' if x is None else str(x)
                parts.append(f"{o(row['n_regions'])}/{o(row['regions_bits_rep'])}/{dec}")
                db = json.loads(row['spec'])
                out = {'db': canon(db)}
                for key, fn in (('secrets', bfv.get_spec_secrets), ('sa', bfv.get_spec_service_account), ('in', bfv.get_spec_has_input_files),
                                ('out', bfv.get_spec_has_output_files), ('ms', bfv.get_spec_machine_spec)):
                    try:
                        out[key] = canon(fn(db))
                    except self.ERRS:
                        out[key] = 'err'
                lines.append(' '.join(f'{k}={out[k]}' for k in ('db', 'secrets', 'sa', 'in', 'out', 'ms')))
            return [';'.join(parts)] + lines
        if c['k'] == 'spec':
            lines = []
            for v in c['versions']:
                o = self._getters(v, json.loads(json.dumps(c['spec'])))
                lines.append(' '.join(f'{k}={o[k]}' for k in ('db', 'secrets', 'sa', 'in', 'out', 'ms')))
            return lines
        mapping = {a: b for a, b in c['mapping']}
        if c['k'] == 'bitsnone':
            return ['regions=' + canon(self.utils.regions_bits_rep_to_regions(None, mapping))]
        try:
            bits = self.utils.regions_to_bits_rep(c['selected'], mapping)
        except self.ERRS:
            return ['bits=err']
        try:
            regions = canon(self.utils.regions_bits_rep_to_regions(bits, mapping))
        except self.ERRS:
            regions = 'err'
        return [f'bits={bits} regions={regions}']

    # ---- the property, executed on the real output -----------------------------------------------------------
    @staticmethod
    def expected(v, spec, canon=canon):
        secrets = spec.get('secrets')
        if v == 1:
            e_sec = secrets
        elif not secrets:
            e_sec = None
        else:
            e_sec = [{'namespace': s['namespace'], 'name': s['name'], 'mount_path': s['mount_path'],
                      'mount_in_copy': bool(s.get('mount_in_copy', False))} for s in secrets]
        res = spec.get('resources') or {}
        mt = res.get('machine_type')
        e_ms = None
        if v >= 5 and mt:
            e_ms = {'machine_type': mt, 'preemptible': bool(res['preemptible']), 'storage_gib': res['storage_gib']}
        return {'secrets': canon(e_sec), 'sa': canon(spec.get('service_account')),
                'in': canon(len(spec.get('input_files', [])) > 0), 'out': canon(len(spec.get('output_files', [])) > 0), 'ms': canon(e_ms)}

    NAMES = {'secrets': 'get_spec_secrets', 'sa': 'get_spec_service_account', 'in': 'get_spec_has_input_files',
             'out': 'get_spec_has_output_files', 'ms': 'get_spec_machine_spec'}

    def _oracle_bunch(self, c, out):
        """every stored job is checked against ITS OWN submitted spec"""
        jobs = c['jobs']
        names = [r for r, _ in self.REGIONS]
        must_reject = any(j.get('regions') is not None and (len(j['regions']) == 0 or any(r not in names for r in j['regions']))
                          for j in jobs)
        played = self._play(c)
        if out[0] == 'rejected':
            return None if must_reject else f'a valid bunch was rejected: {played.get("rejected")}'
        if must_reject:
            return 'a bunch with an empty or unknown region selection was accepted'
        rows = played['rows']
        if len(rows) != len(jobs):
            return f'{len(jobs)} jobs submitted, {len(rows)} rows stored'
        fulls = self._bunch_fulls(c, played)
        if len(fulls) != len(jobs):
            return f'{len(jobs)} jobs submitted, {len(fulls)} full specs stored'
        v = c['v']
        sys_names = {'u1-gsa-key', 'u1-tokens', 'ssl-config-batch-user-code'}
        for i, (job, row, full, reg, line) in enumerate(zip(jobs, rows, fulls, out[0].split(';'), out[1:]), start=1):
            who = f'job {i} of the bunch (format version {v})'
            # (a) the region set is recovered exactly from the stored bitset; NULL = no preference
            n_reg, _bits, dec = reg.split('/', 2)
            want = job.get('regions')
            if want is None:
                if reg != '-/-/n':
                    return (f'{who} has no `regions` key but is stored with n_regions={n_reg}, regions_bits_rep={_bits}, which decodes to '
                            f'{self._uncanon_list(dec)} — regions it never selected (submitted regions of the bunch: '
                            f'{[j.get("regions") for j in jobs]})')
            else:
                exp = canon([r for r in sorted(set(want), key=lambda r: dict(self.REGIONS)[r])])
                if dec != exp or n_reg != str(len(want)):
                    return f'{who} selected regions {want} but its row (n_regions={n_reg}, bits={_bits}) decodes to {self._uncanon_list(dec)}'
            # (b) the compact form in the row yields back the fields of the job's full spec
            got = dict(kv.split('=', 1) for kv in line.split(' '))
            exp = self.expected(v, full)
            for key in ('secrets', 'sa', 'in', 'out', 'ms'):
                if got[key] != exp[key]:
                    return f'{who}: {self.NAMES[key]}(stored spec) differs from the full spec of that job (field {key})'
            # (c) the full spec carries this job's own submitted fields
            sub_secrets = job.get('secrets') or []
            fsec = full.get('secrets') or []
            if fsec[:len(sub_secrets)] != sub_secrets or any(x.get('name') not in sys_names for x in fsec[len(sub_secrets):]) \
                    or len(fsec) != len(sub_secrets) + 1 + (2 if job.get('mount_tokens') else 0):
                return f'{who} submitted secrets {sub_secrets} but is stored with {fsec}'
            for key in ('service_account', 'input_files', 'output_files', 'regions'):
                if full.get(key) != job.get(key):
                    return f'{who} submitted {key}={job.get(key)!r} but is stored with {full.get(key)!r}'
            fres, jres = full.get('resources') or {}, job.get('resources') or {}
            if fres.get('machine_type') != jres.get('machine_type') or fres.get('preemptible') != jres.get('preemptible', True):
                return (f'{who} submitted machine_type={jres.get("machine_type")!r}, preemptible={jres.get("preemptible", True)} but is stored '
                        f'with {fres.get("machine_type")!r}, {fres.get("preemptible")!r}')
        return None

    @staticmethod
    def _uncanon_list(dec):
        if dec in ('n', 'err'):
            return {'n': None, 'err': '<error>'}[dec]
        return [''.join(chr(int(h, 16)) for h in x[2:].split('.')) for x in dec[1:-1].split(',') if x]

    def oracle(self, c, out):
        if out and out[0].startswith('IMPL-EXC'):
            return out[0]
        if c['k'] == 'bunch':
            return self._oracle_bunch(c, out)
        if c['k'] == 'spec':
            for v, line in zip(c['versions'], out):
                got = dict(kv.split('=', 1) for kv in line.split(' '))
                want = self.expected(v, c['spec'])
                for key in ('secrets', 'sa', 'in', 'out', 'ms'):
                    if got[key] != want[key]:
                        def plain(x):
                            return x
                        try:
                            g = self._getters(v, json.loads(json.dumps(c['spec'])), canon=plain)[key]
                        except Exception as e:      # noqa: BLE001 (message only)
                            g = f'<{type(e).__name__}>'
                        w = self.expected(v, c['spec'], canon=plain)[key]
                        return (f'format version {v}: {self.NAMES[key]}(db_spec(spec)) = {json.dumps(g)} but the spec holds {json.dumps(w)} '
                                f'(spec {json.dumps(c["spec"])[:300]})')
            return None
        if c['k'] == 'bitsnone':
            return None if out[0] == 'regions=n' else f'regions_bits_rep_to_regions(None, …) = {out[0]}'
        names = [a for a, _ in c['mapping']]
        idxs = [b for _, b in c['mapping']]
        in_contract = (len(set(names)) == len(names) and len(set(idxs)) == len(idxs) and all(1 <= i <= 63 for i in idxs)
                       and all(s in names for s in c['selected']))
        if not in_contract:
            return None
        if out[0] == 'bits=err' or out[0].endswith('regions=err'):
            return f'region bitset functions raised for a valid mapping: {out[0]}'
        got = dict(kv.split('=', 1) for kv in out[0].split(' '))
        if not (0 <= int(got['bits']) < 2 ** 63):
            return f'bitset {got["bits"]} does not fit a non-negative BIGINT'
        want = canon([r for r in names if r in set(c['selected'])])
        if got['regions'] != want:
            return f'selected regions {sorted(set(c["selected"]))} stored as {got["bits"]} decode to {got["regions"]}, expected {want}'
        return None

    def classify(self, c, out):
        if c['k'] == 'bunch':
            regs = [j.get('regions') is not None for j in c['jobs']]
            tags = [f'bunch-jobs={min(len(regs), 4)}{"+" if len(regs) > 4 else ""}', 'bunch=' + ('rejected' if out[0] == 'rejected' else 'stored'),
                    'bunch-regions=' + ('none' if not any(regs) else 'all' if all(regs) else 'mixed'), f'bunch-format={c["v"]}',
                    'bunch-user=' + c['user']]
            if any(a and not b for a, b in zip(regs, regs[1:])) or any(regs[i] and not regs[k] for i in range(len(regs)) for k in range(i + 1, len(regs))):
                tags.append('bunch:regions-then-no-regions')
            if any(j.get('secrets') for j in c['jobs']) and any(not j.get('secrets') for j in c['jobs']):
                tags.append('bunch:secrets-mixed')
            if any((j.get('resources') or {}).get('machine_type') for j in c['jobs']) and len(c['jobs']) > 1:
                tags.append('bunch:machine-type')
            return (json.dumps(c, sort_keys=True) if len(c['jobs']) > 1 and out[0] != 'rejected' else None, tags)
        if c['k'] == 'spec':
            s = c['spec']
            sec = s.get('secrets')
            res = s.get('resources') or {}
            tags = ['secrets=' + ('absent' if sec is None else 'empty' if not sec else '1' if len(sec) == 1 else '2+'),
                    'sa=' + ('yes' if s.get('service_account') else 'no'),
                    'in=' + ('absent' if 'input_files' not in s else 'empty' if not s['input_files'] else 'yes'),
                    'out=' + ('absent' if 'output_files' not in s else 'empty' if not s['output_files'] else 'yes'),
                    'machine_type=' + ('absent' if 'machine_type' not in res else 'empty' if not res['machine_type'] else 'yes')]
            if sec and any('mount_in_copy' not in x for x in sec):
                tags.append('mount_in_copy-absent')
            if any('err' in line for line in out):
                tags.append('raises')
            trivial = not sec and not s.get('service_account') and not s.get('input_files') and not s.get('output_files') \
                and not res.get('machine_type')
            return (None if trivial else json.dumps(c, sort_keys=True), tags)
        if c['k'] == 'bitsnone':
            return ('bitsnone', ['bits=None'])
        n, k = len(c['mapping']), len(set(c['selected']))
        tags = ['regions=' + ('0-3' if n <= 3 else '4-10' if n <= 10 else '11-63'),
                'selected=' + ('none' if k == 0 else 'all' if k == n else 'some'), 'bits-' + ('err' if 'err' in out[0] else 'ok')]
        return (None if k == 0 else json.dumps(c, sort_keys=True), tags)

    def finding_key(self, c, msg):
        return json.dumps(c, sort_keys=True)

    def shrink(self, c, fails):
        cur = json.loads(json.dumps(c))
        if cur['k'] == 'bunch':
            def renumber(jobs):
                return [{**j, 'job_id': k} for k, j in enumerate(jobs, start=1)]
            changed = True
            while changed and len(cur['jobs']) > 1:
                changed = False
                for i in range(len(cur['jobs'])):
                    cand = {**cur, 'jobs': renumber(cur['jobs'][:i] + cur['jobs'][i + 1:])}
                    if fails(cand):
                        cur, changed = cand, True
                        break
            for i in range(len(cur['jobs'])):
                for key in ('secrets', 'service_account', 'mount_tokens', 'input_files', 'output_files', 'attributes', 'regions'):
                    if key in cur['jobs'][i]:
                        cand = json.loads(json.dumps(cur))
                        del cand['jobs'][i][key]
                        if fails(cand):
                            cur = cand
                if 'regions' in cur['jobs'][i] and len(cur['jobs'][i]['regions']) > 1:
                    cand = json.loads(json.dumps(cur))
                    cand['jobs'][i]['regions'] = cand['jobs'][i]['regions'][:1]
                    if fails(cand):
                        cur = cand
                cand = json.loads(json.dumps(cur))
                cand['jobs'][i]['resources'] = {'cpu': '1', 'memory': 'standard', 'storage': '0'}
                if fails(cand):
                    cur = cand
            for alt in ({'user': 'u1'}, {'v': self.current}):
                cand = {**cur, **alt}
                if fails(cand):
                    cur = cand
            return cur
        if cur['k'] == 'spec':
            for v in list(cur['versions']):
                if len(cur['versions']) > 1 and fails({**cur, 'versions': [v]}):
                    cur['versions'] = [v]
                    break
            spec = cur['spec']
            for key in list(spec):
                if key == 'resources':
                    continue
                cand = {k: x for k, x in spec.items() if k != key}
                if fails({**cur, 'spec': cand}):
                    spec = cand
            for key in list(spec.get('resources', {})):
                cand = json.loads(json.dumps(spec))
                del cand['resources'][key]
                if fails({**cur, 'spec': cand}):
                    spec = cand
            while len(spec.get('secrets') or []) > 1:
                for i in range(len(spec['secrets'])):
                    cand = json.loads(json.dumps(spec))
                    del cand['secrets'][i]
                    if fails({**cur, 'spec': cand}):
                        spec = cand
                        break
                else:
                    break
            cur['spec'] = spec
            return cur
        if cur['k'] == 'bits':
            changed = True
            while changed:
                changed = False
                for i in range(len(cur['selected'])):
                    cand = {**cur, 'selected': cur['selected'][:i] + cur['selected'][i + 1:]}
                    if fails(cand):
                        cur, changed = cand, True
                        break
                for i in range(len(cur['mapping'])):
                    cand = {**cur, 'mapping': cur['mapping'][:i] + cur['mapping'][i + 1:]}
                    if fails(cand):
                        cur, changed = cand, True
                        break
        return cur

    def extra_coverage(self):
        return {'current_format_version': getattr(self, 'current', None), 'user_specs_accepted_by_real_job_validator': getattr(self, 'n_user_validated', 0)}


PROP = C15()

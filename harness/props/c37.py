"""C37 Statistical tests return correct values (Fisher exact, chi-squared, contingency table, Hardy-Weinberg).

Tie = TRANSLATOR ONLY. There is no Scala toolchain and no hail jar in this sandbox: the engine code cannot be run.
`harness/extract/scala_stats.py` re-emits, from the Scala text of the working tree, every arithmetic / decision function of
`stats/LeveneHaldane.scala` and of the four tests in `stats/package.scala` twice — over `Rat` (exact model, tolerance literals
scaled by τ) and over `Float` — into `Generated/ScalaStats.lean`. `Props/C37.lean` proves the properties of the exact model at τ = 0.

What the exact model cannot carry (the 1e-16 / 1e-12 / 1e-7 cut-offs, rounding) is TESTED, not proved: the "implementation" of
this module is the translated Float model run by `lean/Driver/C37.lean`; the oracle is the property itself evaluated with
independent Python closed forms (`math.comb`, big integers): |float − exact| within tolerance, p ∈ [0, 1]; the Lean closed-form
specification and the Lean exact model printed by the driver on small inputs are cross-checked against the same Python values.
The doctest outputs recorded in `hail/python/hail/expr/functions.py` (produced by the real JVM) are used as golden values.
"""
import json
import math
import os
import re
import struct
from fractions import Fraction

from ..framework import MachineryError, Prop, run_driver

DRIVER = 'Driver/C37.lean'
REL = Fraction(1, 10 ** 9)
FLOOR = Fraction(1, 10 ** 300)
TIE = Fraction(2, 10 ** 12)        # D_== tolerance 1e-12 (exactMidP): near-ties inside 2e-12 may be counted either way
FTIE = Fraction(2, 10 ** 7)        # relErr 1e-7 (Fisher two-sided)
FUNCTIONS_PY = 'hail/python/hail/expr/functions.py'


def bits_to_float(b):
    return struct.unpack('<d', struct.pack('<Q', int(b)))[0]


def frac_str(fr):
    return f'{fr.numerator}/{fr.denominator}'


# ---------------------------------------------------------------------------------------------------------------------
# independent closed forms (big integers)


class LHTable:
    """Levene–Haldane: integer weights W(k) = n!/(a! k! b!) 2^k, a = (nA-k)/2, b = (nB-k)/2; P(k) = W(k) / C(2n, nA)"""
    _cache = {}

    def __init__(self, n, nA):
        self.n, self.nA, self.nB = n, nA, 2 * n - nA
        par = nA % 2
        self.ks = list(range(par, nA + 1, 2))
        if n <= 400:
            self.W = [math.comb(n, (nA - k) // 2) * math.comb(n - (nA - k) // 2, k) * 2 ** k for k in self.ks]
        else:
            k = par
            w = math.comb(n, (nA - k) // 2) * math.comb(n - (nA - k) // 2, k) * 2 ** k
            W = [w]
            while k + 2 <= nA:
                num = w * (nA - k) * (self.nB - k)
                den = (k + 2) * (k + 1)
                assert num % den == 0
                w = num // den
                k += 2
                W.append(w)
            # the end of the recurrence against the closed form
            assert w == math.comb(n, 0) * math.comb(n, nA) * 2 ** nA, 'oracle self-check: LH recurrence end'
            self.W = W
        self.total = sum(self.W)
        assert self.total == math.comb(2 * n, nA), 'oracle self-check: sum of LH weights is C(2n, nA)'
        self.prefix = [0]
        for w in self.W:
            self.prefix.append(self.prefix[-1] + w)

    @classmethod
    def get(cls, n, nA):
        key = (n, nA)
        if key not in cls._cache:
            if len(cls._cache) > 6:
                cls._cache.clear()
            cls._cache[key] = cls(n, nA)
        return cls._cache[key]

    def idx(self, k):
        """index of k in ks or None"""
        if k < 0 or k > self.nA or (k - self.nA) % 2:
            return None
        return (k - self.ks[0]) // 2

    def w(self, k):
        i = self.idx(k)
        return 0 if i is None else self.W[i]

    def cdf_w(self, k):     # sum W(j), j <= k
        if k < self.ks[0]:
            return 0
        if k >= self.nA:
            return self.total
        return self.prefix[(k - self.ks[0]) // 2 + 1]

    def six(self, k):
        """[pmf, cdf, sf, rightMidP, leftMidP, (exactMidP lo, hi)] as numerators over 2*total"""
        T = self.total
        w = self.w(k)
        c = self.cdf_w(k)
        s = T - c
        lo = hi = 0
        for wj in self.W:
            if wj == w:
                lo += wj
                hi += wj
            elif abs(wj - w) * TIE.denominator <= TIE.numerator * max(wj, w):
                true = 2 * wj if wj < w else 0
                lo += min(true, wj)
                hi += max(true, wj)
            elif wj < w:
                lo += 2 * wj
                hi += 2 * wj
        if w == 0:
            lo = hi = 0   # D_==(p0U, 0) => 0.0
        return [(2 * w, 2 * w), (2 * c, 2 * c), (2 * s, 2 * s), (2 * s + w, 2 * s + w), (2 * c - w, 2 * c - w), (lo, hi)], 2 * T


class HyperTable:
    """hypergeometric: W(k) = C(m,k) C(N-m, n-k), P(k) = W(k) / C(N, n), lo..hi = max(0, n+m-N)..min(n, m)"""
    _cache = {}

    def __init__(self, N, m, n):
        self.lo, self.hi = max(0, n + m - N), min(n, m)
        if N <= 600:
            self.W = [math.comb(m, k) * math.comb(N - m, n - k) for k in range(self.lo, self.hi + 1)]
        else:
            k = self.lo
            w = math.comb(m, k) * math.comb(N - m, n - k)
            W = [w]
            while k < self.hi:
                num = w * (m - k) * (n - k)
                den = (k + 1) * (N - m - n + k + 1)
                assert num % den == 0
                w = num // den
                k += 1
                W.append(w)
            assert w == math.comb(m, self.hi) * math.comb(N - m, n - self.hi), 'oracle self-check: hypergeometric recurrence end'
            self.W = W
        self.total = sum(self.W)
        assert self.total == math.comb(N, n), 'oracle self-check: Vandermonde'

    @classmethod
    def get(cls, N, m, n):
        key = (N, m, n)
        if key not in cls._cache:
            if len(cls._cache) > 6:
                cls._cache.clear()
            cls._cache[key] = cls(N, m, n)
        return cls._cache[key]

    def pvalue(self, x, alt):
        """(lo, hi) numerators over total"""
        i = x - self.lo
        if alt == 'less':
            v = sum(self.W[:i + 1])
            return v, v
        if alt == 'greater':
            v = sum(self.W[i:])
            return v, v
        w = self.W[i]
        lo = hi = 0
        for wj in self.W:
            if wj <= w:
                lo += wj
                hi += wj
            elif (wj - w) * FTIE.denominator <= FTIE.numerator * wj:
                hi += wj
        return lo, hi


def within(f, lo_num, hi_num, den, rel=REL):
    """float f agrees with some exact value in [lo_num/den, hi_num/den] up to the relative tolerance (floor 1e-300)"""
    if f != f or f in (float('inf'), float('-inf')):
        return False
    fr = Fraction(f)
    a, b = fr.numerator, fr.denominator
    # lo*(1-rel) - floor <= f <= hi*(1+rel) + floor   (all terms multiplied by den*b*rel.den*floor.den)
    rn, rd = rel.numerator, rel.denominator
    fn, fd = FLOOR.numerator, FLOOR.denominator
    lhs = a * den * rd * fd
    lo = lo_num * (rd - rn) * b * fd - fn * den * b * rd
    hi = hi_num * (rd + rn) * b * fd + fn * den * b * rd
    return lo <= lhs <= hi


# ---------------------------------------------------------------------------------------------------------------------


class C37(Prop):
    id = 'C37'
    title = 'Statistical tests return correct values'
    lean_props = ['HailVerif.Props.C37']
    driver = None            # the Lean driver is the "implementation" here (translated Float model), see impl()
    engine = 'E3-pure'
    design_ref = 'DESIGN.md §9.0 (C37)'
    technique = ('T tie only + partial: Lean 4 theorems (induction, all inputs) about the exact rational model that a translator re-emits from the '
                 'Scala text of stats/LeveneHaldane.scala and stats/package.scala on every run; the same parsed expressions are also emitted over '
                 'IEEE Float and that Float model is TESTED against independent closed forms. Not exhibited: the JVM itself (no differential run), '
                 'rounding of library functions (commons-math3 / jdistlib), and the 1e-16 / 1e-12 / 1e-7 cut-offs, which are covered by test only')
    level_text = ('Proved in Lean 4 (29 theorems, induction, no bounds on the counts beyond the stated no-overflow side condition int32Safe for the Int-carrying tests) about the exact rational model that is re-translated from the Scala text on '
                  'every run, at tolerance scale 0: LeveneHaldane.apply accepts exactly 0 <= nA <= n; the mode formula returns a point of the support with '
                  'maximal probability; the pRUfrom/pLUfrom recurrences generate the closed-form weights 2^k/(((nA-k)/2)! k! ((nB-k)/2)!) relative to the mode '
                  'and are non-increasing; probability(k) = n! nA! nB! 2^k/(((nA-k)/2)! k! ((nB-k)/2)! (2n)!) for every integer k (normaliser identified via '
                  'sum_k trinomial * 2^k = C(2n, nA)) and sums to 1; cumulativeProbability(n0, n1) = P(n0 < X <= n1) for ALL integers n0, n1; survivalFunction, '
                  'rightMidP, leftMidP, exactMidP equal their definitions; every one of them lies in [0, 1]; hardyWeinbergTest returns (nA nB/(2n-1))/n and the '
                  'one-sided / two-sided exact mid-p of the genotype counts; chiSquaredTest computes N(ad-bc)^2/((a+b)(c+d)(b+d)(a+c)) = sum (O-E)^2/E when no '
                  'margin is zero and the odds ratio ad/bc, with no Int arithmetic at all (cells are widened to Double first); contingencyTableTest uses Fisher iff some observed cell < minCellCount; fisherExactTest rejects '
                  'negative cells, answers NaN iff a margin is zero, and (library instantiated by the closed-form hypergeometric pmf) its two-sided p-value is '
                  'the total probability of the outcomes at most as probable as the observed one over max(0,a-d)..min(a+b,a+c), its one-sided p-values are '
                  'P(X <= a) / P(X >= a); all lie in [0, 1] (Vandermonde).')
    level_note = ('Partial, T tie only: the engine is never run (no Scala toolchain, no jar) and there is no differential run against the JVM; the tie to /repo is '
                  'the translator (Scala text -> Lean, regenerated and re-proved on every run) plus the doctest outputs recorded in functions.py. NOT proved, '
                  'only TESTED on the translated Float model against independent big-integer closed forms (relative 1e-9; exhaustive small ranges + random '
                  'counts to 2*10^4 quick / 2*10^5 thorough): the effect of the cut-offs 1e-16 (takeWhile truncation), 1e-12 (D_== in exactMidP), 1e-7 (relErr) and '
                  'of double rounding. Not exhibited at all: commons-math3 HypergeometricDistribution and jdistlib ChiSquare (parameters; the Float test uses a '
                  'stand-in pmf for the hypergeometric distribution; erfc-based stand-ins for the chi-squared (1 d.f.) and normal tails, accurate to 1e-13 relative down to 1e-300), math.log/exp of dnhyper (pinned text, algebraic meaning), the '
                  'confidence interval / odds-ratio MLE of fisherExactTest (uniroot; sliced away). 32-bit overflow is TESTED (Float model with wrapping Int '
                  'arithmetic on cohort-sized inputs); chiSquaredTest / contingencyTableTest are proved to perform no Int arithmetic. Two open findings: one-sided HWE '
                  'mid-p and Fisher p-values exceed 1 by a few ulp.')
    budget = {'quick': 1500, 'thorough': 25000}
    search_budget = {'quick': 1500, 'thorough': 6000}
    rule = ('case = one driver line evaluated on the translated Float model (hwe r h v oneSided | lh n nA k | fet a b c d alternative | chi a b c d | '
            'ctt a b c d minCellCount [+ the chi and fet lines of the same table]) or a doctest recorded in functions.py. Streams: exhaustive small '
            'ranges (all genotype triples with n <= 12, all LH (n, nA, k) with n <= 9, all 2x2 tables with cells <= 4), boundary shapes (nA = 0, '
            'all-het, nA = n, zero margins, huge imbalance, negative arguments), random counts up to 2*10^4 (quick) / 2*10^5 (thorough), '
            'cohort-sized inputs (2x2 cells up to 10^6 with margin products >> 2^31, genotype counts up to 2^30 with a rare allele). '
            'Non-trivial = accepted, non-degenerate input; distinct by line')
    trusted = [
        'harness/extract/scala_parse.py + scala_stats.py (Scala subset -> Lean translator): the ONLY tie to /repo; nothing Scala is executed, there is '
        'no differential run against the JVM',
        'lean/HailVerif/Model/StatsLib.lean: meaning given to JVM/Scala-library constructs (Int/Long: unbounded in the exact model, wrapping 32/64-bit in the '
        'Float model, truncating / and % by non-zero literals, d.toInt = saturating truncation; LazyList as a '
        'fuel-truncated List, slice/takeWhile/dropWhile/span/filter/map/zipWithIndex/sum (left fold), math.round = floor(x + 1/2), math.max with NaN)',
        'library code that is not in the repository is a parameter (Lib): HypergeometricDistribution.{logProbability, cumulativeProbability, '
        'upperCumulativeProbability}, ChiSquare.cumulative; theorems instantiate it with the closed-form hypergeometric pmf; the Float test uses a '
        'stand-in (hypergeometric pmf: ratio recurrence from the mode; ChiSquare.cumulative(x, 1) = erfc(sqrt(x/2)) and Normal.cumulative(x) = erfc(-x/sqrt 2)/2 '
        'with an erfc that is accurate in the tails — positive series below 2, continued fraction above — so the chi-squared P-VALUE is compared with '
        'math.erfc for tables with X^2 up to 2000); math.sqrt = IEEE Float.sqrt',
        'the log/exp block logdc/dnhyper of fisherExactTest is pinned textually; the exact model reads exp(log p + i log ncp - M) / sum as p ncp^i / sum',
        'Lean Float + - * / and comparisons are IEEE-754 double operations as on the JVM (Float.ofInt, Float.floor, Float.log/exp from libm for the stand-in)',
        'doctest outputs recorded in hail/python/hail/expr/functions.py are outputs of the real engine',
    ]
    assumptions = [
        'the theorems about the exact (unbounded Int) model carry the side condition int32Safe: 2 * (sum of the counts) + 3 < 2^31; the Float model '
        'that is tested uses wrapping 32-bit Int / 64-bit Long arithmetic with Int -> Double widening where the Scala puts it',
        'Scala assert/require are enabled',
        'commons-math3 HypergeometricDistribution and jdistlib ChiSquare are accurate (relative 1e-12) and ChiSquare.cumulative maps into [0, 1]',
        'valid input for the chi-squared statistic = no zero margin (the documentation says fields may be NaN otherwise)',
    ]

    cache = {}
    chi_uses_tail = True
    driver_error = ''
    golden = []
    n_ops = 0

    # ------------------------------------------------------------------------------------------
    def generate(self, repo):
        from ..extract import scala_stats
        notes = scala_stats.generate(repo)
        self.chi_uses_tail = 'chisqTail' in scala_stats.LAST_LIB_USE.get('stats_chiSquaredTest', [])
        return notes

    def setup(self, repo):
        """read the doctests of the four functions (outputs of the real engine)"""
        self.golden = []
        try:
            src = open(os.path.join(repo, FUNCTIONS_PY), encoding='utf-8').read()
        except OSError:
            return
        pat = re.compile(r'>>> hl\.eval\(hl\.(hardy_weinberg_test|fisher_exact_test|chi_squared_test|contingency_table_test)\(([^)]*)\)\)\s*\n\s*Struct\(([^)]*)\)', re.S)
        for fn, args, fields in pat.findall(src):
            try:
                a = [x.strip() for x in args.split(',')]
                kw = {x.split('=')[0].strip(): x.split('=')[1].strip() for x in a if '=' in x}
                pos = [int(x) for x in a if '=' not in x]
                vals = {k.strip(): float(v) for k, v in (f.split('=') for f in re.sub(r'\s+', '', fields).split(','))}
            except Exception:
                continue
            if fn == 'hardy_weinberg_test':
                line = f'hwe {pos[0]} {pos[1]} {pos[2]} {1 if kw.get("one_sided") == "True" else 0}'
                want = [vals.get('het_freq_hwe'), vals.get('p_value')]
            elif fn == 'fisher_exact_test':
                line = 'fet ' + ' '.join(map(str, pos)) + ' two.sided'
                want = [vals.get('p_value')]
            elif fn == 'chi_squared_test':
                line = 'chi ' + ' '.join(map(str, pos))
                want = [vals.get('p_value'), vals.get('odds_ratio')]
            else:
                line = 'ctt ' + ' '.join(map(str, pos)) + ' ' + kw.get('min_cell_count', '0')
                want = [vals.get('p_value')]
            self.golden.append({'kind': 'golden', 'fn': fn, 'ops': [line], 'doc': vals, 'want': want})

    def extra_coverage(self):
        return {'ops_evaluated': self.n_ops, 'driver': DRIVER + ' (translated Float model = the implementation side; exact model and closed-form '
                'spec printed for small inputs)', 'golden_doctests': len(self.golden), 'driver_error': self.driver_error or None}

    # ---- driver ------------------------------------------------------------------------------
    def _prefetch(self, cases):
        need = sorted({ln for c in cases for ln in c['ops']} - set(self.cache))
        if need and not self.driver_error:
            try:
                out = run_driver(DRIVER, need)
                if len(out) != len(need):
                    raise MachineryError(f'driver answered {len(out)} lines for {len(need)}')
                self.cache.update(zip(need, out))
            except MachineryError as e:
                self.driver_error = str(e)[:400]
        return cases

    def corpus(self):
        return self._prefetch(list(super().corpus()) + list(self.golden))

    def impl(self, c):
        self.n_ops += len(c['ops'])
        if any(ln not in self.cache for ln in c['ops']):
            self._prefetch([c])
        return [self.cache.get(ln, 'driver-unavailable') for ln in c['ops']]

    # ---- generators --------------------------------------------------------------------------
    @staticmethod
    def _case(kind, *ops):
        return {'kind': kind, 'ops': list(ops)}

    def _small(self, tri=12, lh=9, cell=4):
        cs = []
        for n in range(0, tri + 1):
            for r in range(0, n + 1):
                for h in range(0, n - r + 1):
                    v = n - r - h
                    for os_ in (0, 1):
                        cs.append(self._case('small-hwe', f'hwe {r} {h} {v} {os_}'))
        for n in range(0, lh + 1):
            for nA in range(-1, n + 2):
                for k in range(-2, max(nA, 0) + 3):
                    cs.append(self._case('small-lh', f'lh {n} {nA} {k}'))
        rng_ = range(0, cell + 1)
        for a in rng_:
            for b in rng_:
                for c in rng_:
                    for d in rng_:
                        t = f'{a} {b} {c} {d}'
                        for alt in ('two.sided', 'less', 'greater'):
                            cs.append(self._case('small-fet', f'fet {t} {alt}'))
                        cs.append(self._case('small-chi', f'chi {t}'))
                        for m in (0, 1, 2, 3, 5):
                            cs.append(self._case('small-ctt', f'ctt {t} {m}', f'chi {t}', f'fet {t} two.sided'))
        return cs

    def _boundary(self):
        cs = []
        for t in ['-1 2 3', '1 -2 3', '1 2 -3']:
            cs.append(self._case('neg', f'hwe {t} 0'))
        for t in ['-1 1 1 1', '1 -1 1 1', '1 1 -1 1', '1 1 1 -1']:
            cs += [self._case('neg', f'fet {t} two.sided'), self._case('neg', f'chi {t}'), self._case('neg', f'ctt {t} 1', f'chi {t}', f'fet {t} two.sided')]
        cs.append(self._case('neg', 'ctt 3 4 5 6 -1', 'chi 3 4 5 6', 'fet 3 4 5 6 two.sided'))
        cs.append(self._case('bad-alt', 'fet 3 4 5 6 both'))
        for n in (1, 2, 50, 51, 1000, 1001, 20000):
            for os_ in (0, 1):
                cs += [self._case('nA=0', f'hwe {n} 0 0 {os_}'), self._case('nA=0', f'hwe 0 0 {n} {os_}'),
                       self._case('all-het', f'hwe 0 {n} 0 {os_}'), self._case('nA=n', f'hwe {n // 2} 0 {n - n // 2} {os_}'),
                       self._case('no-het', f'hwe {n} 0 {n} {os_}'), self._case('imbalance', f'hwe {n * 5} 1 0 {os_}'),
                       self._case('imbalance', f'hwe {n * 5} 0 1 {os_}'), self._case('imbalance', f'hwe {n * 5} 2 1 {os_}')]
        for n, nA in ((221, 20), (223, 21), (300, 40), (2000, 60), (20000, 500)):
            minor = nA // 2
            cs += [self._case('few-het', f'hwe {n - nA % 2 - minor} {nA % 2} {minor} 1'), self._case('few-het', f'hwe {n - nA % 2 - minor} {nA % 2} {minor} 0'),
                   self._case('few-het', f'lh {n} {nA} {nA % 2}')]
        for t in ['30000 20000 25000 25000', '120 19880 1500 798500', '1000000 1000000 1000000 1000000', '46341 46341 46341 46341',
                  '65536 32768 32768 65536', '1 999999 999999 1']:
            cs += [self._case('cohort-chi', f'chi {t}'), self._case('cohort-ctt', f'ctt {t} 1', f'chi {t}')]
        for trip in ['1000000 0 1000', '999000 2000 0', '46340 2 46341', '500000000 1000 0', '1073741000 10 100']:
            cs += [self._case('cohort-hwe', f'hwe {trip} 0'), self._case('cohort-hwe', f'hwe {trip} 1')]
        cs += [self._case('cohort-fet', 'fet 12 1488 3000 795500 two.sided'), self._case('cohort-lh', 'lh 1000000 3000 1000')]
        # strongly associated tables: X^2 from 30 to 2000, p-values down to 1e-300 (the tail of the chi-squared distribution)
        for t in ['40 0 0 40', '45 5 10 40', '30 2 3 25', '100 1 2 90', '300 10 12 280', '500 3 2 700', '900 40 30 1000', '20 1 1 20', '60 10 8 70',
                  '5 40 45 10', '700 0 1 650']:
            cs += [self._case('assoc-chi', f'chi {t}'), self._case('assoc-ctt', f'ctt {t} 0', f'chi {t}')]
        for n in (1, 7, 100, 1000):
            for t in [f'0 0 {n} {n}', f'{n} {n} 0 0', f'0 {n} 0 {n}', f'{n} 0 {n} 0', f'{n} 0 0 {n}', f'0 {n} {n} 0', f'{n} 1 1 {n}',
                      f'{n * 50} 1 {n * 50} 0', f'1 {n * 100} {n * 100} 1', f'{n} {n} {n} {n}']:
                cs += [self._case('margin', f'fet {t} two.sided'), self._case('margin', f'fet {t} less'), self._case('margin', f'fet {t} greater'),
                       self._case('margin', f'chi {t}'), self._case('margin', f'ctt {t} {n}', f'chi {t}', f'fet {t} two.sided'),
                       self._case('margin', f'ctt {t} {n + 1}', f'chi {t}', f'fet {t} two.sided')]
        return cs

    def _cohort(self, rng):
        """cohort-sized inputs: cells up to 10^6 (margin products far beyond 2^31), genotype counts up to 5*10^8 — where a 32-bit
        intermediate would wrap; the oracle stays cheap (closed-form chi-squared; rare allele / one small row for the exact tests)"""
        r = rng.random()
        cell = lambda: rng.choice([rng.randint(0, 10 ** 6), rng.randint(10 ** 4, 10 ** 5), rng.randint(40000, 60000), rng.randint(0, 2000)])
        if r < 0.45:
            a, b, c, d = cell(), cell(), cell(), cell()
            t = f'{a} {b} {c} {d}'
            if rng.random() < 0.6:
                return self._case('cohort-chi', f'chi {t}')
            return self._case('cohort-ctt', f'ctt {t} {rng.choice([0, 1, 5, min(a, b, c, d)])}', f'chi {t}')
        if r < 0.75:
            n = rng.choice([rng.randint(10 ** 5, 10 ** 6), rng.randint(10 ** 6, 5 * 10 ** 8), rng.randint(46000, 47000), 2 ** 30 - 2 - rng.randint(0, 1000)])
            nA = rng.randint(0, 3000)
            het = rng.randrange(nA % 2, nA + 1, 2) if rng.random() < 0.5 else min(nA, nA % 2 + 2 * rng.randint(0, 3))
            minor = (nA - het) // 2
            major = n - het - minor
            trip = (major, het, minor) if rng.random() < 0.5 else (minor, het, major)
            if rng.random() < 0.7:
                return self._case('cohort-hwe', f'hwe {trip[0]} {trip[1]} {trip[2]} {rng.randint(0, 1)}')
            return self._case('cohort-lh', f'lh {n} {nA} {het}')
        a, b = rng.randint(0, 1500), rng.randint(0, 1500)
        c, d = rng.randint(0, 10 ** 6), rng.randint(0, 10 ** 6)
        return self._case('cohort-fet', f'fet {a} {b} {c} {d} {rng.choice(["two.sided", "less", "greater"])}')

    BIG = 20000      # above this size one margin / the minor-allele count is kept <= 4000 (cost of the big-integer oracle)

    def _random(self, rng, top):
        if rng.random() < 0.08:
            return self._cohort(rng)
        r = rng.random()
        size = rng.choice([30, 120, 121, 400, 400, 2000, 2000, 2000, min(top, self.BIG) // 4, min(top, self.BIG)])
        if top > self.BIG and rng.random() < 0.03:
            size = rng.choice([top // 4, top])
        big = size > self.BIG
        if r < 0.3:
            n = rng.randint(1, size)
            shape = rng.random()
            cap = 4000 if big else n
            if shape < 0.4:                      # near equilibrium for a random allele frequency
                p = rng.random() * 0.5
                nA = max(0, min(n, cap, round(2 * n * p)))
                p = nA / (2 * n)
                het = max(nA % 2, min(nA, round(2 * n * p * (1 - p)) // 2 * 2 + nA % 2))
                het = max(nA % 2, min(nA, het + 2 * rng.randint(-3, 3)))
            elif shape < 0.7:                    # anywhere on the support
                nA = rng.randint(0, min(n, cap))
                het = rng.randrange(nA % 2, nA + 1, 2)
            elif shape < 0.85:                   # rare allele
                nA = rng.randint(0, min(n, 12))
                het = rng.randrange(nA % 2, nA + 1, 2)
            else:                                # far fewer heterozygotes than expected (lower end of the support)
                nA = rng.randint(0, min(n, 400))
                het = nA % 2 + 2 * rng.randint(0, 2)
                het = min(het, nA)
            minor = (nA - het) // 2
            major = n - het - minor
            if major < minor:
                return self._case('rand-hwe', f'hwe {minor} {het} {max(minor, major)} {rng.randint(0, 1)}')
            trip = (major, het, minor) if rng.random() < 0.5 else (minor, het, major)
            return self._case('rand-hwe', f'hwe {trip[0]} {trip[1]} {trip[2]} {rng.randint(0, 1)}')
        if r < 0.5:
            n = rng.randint(1, size)
            cap = 4000 if big else n
            nA = rng.choice([rng.randint(0, min(n, cap)), rng.randint(0, min(n, 20)), min(n, cap), min(n, cap) - rng.randint(0, min(n, 3))])
            k = rng.choice([rng.randint(-2, nA + 2), rng.randrange(nA % 2, nA + 1, 2)])
            return self._case('rand-lh', f'lh {n} {nA} {k}')
        sz = max(2, min(size, top // 2))
        shape = rng.random()
        if big:
            a, b = rng.randint(0, 2000), rng.randint(0, 2000)       # small first row, huge second row
            c, d = rng.randint(0, sz), rng.randint(0, sz)
        elif shape < 0.5:
            a, b, c, d = (rng.randint(0, sz) for _ in range(4))
        elif shape < 0.8:
            a, b, c, d = rng.randint(0, 12), rng.randint(0, sz), rng.randint(0, 12), rng.randint(0, sz)
        else:
            a, d = rng.randint(0, sz), rng.randint(0, sz)
            b, c = rng.randint(0, 5), rng.randint(0, 5)
        t = f'{a} {b} {c} {d}'
        if r < 0.75:
            return self._case('rand-fet', f'fet {t} {rng.choice(["two.sided", "two.sided", "less", "greater"])}')
        if r < 0.87:
            if rng.random() < 0.5:      # strongly associated: small off-diagonal (or diagonal) cells
                big1, big2 = rng.randint(15, 1200), rng.randint(15, 1200)
                s1, s2 = rng.randint(0, max(1, big1 // rng.choice([3, 10, 40]))), rng.randint(0, max(1, big2 // rng.choice([3, 10, 40])))
                t = f'{big1} {s1} {s2} {big2}' if rng.random() < 0.7 else f'{s1} {big1} {big2} {s2}'
                return self._case('assoc-chi', f'chi {t}')
            return self._case('rand-chi', f'chi {t}')
        m = rng.choice([0, 1, 5, min(a, b, c, d), min(a, b, c, d) + 1, rng.randint(0, sz)])
        return self._case('rand-ctt', f'ctt {t} {m}', f'chi {t}', f'fet {t} two.sided')

    def cases(self, rng, n, tier):
        top = 20000 if tier == 'quick' else 200000
        cs = self._small(10, 8, 3) if tier == 'quick' else self._small(14, 11, 5)
        cs += self._boundary()
        cs += [self._random(rng, top) for _ in range(n)]
        return self._prefetch(cs)

    def search_cases(self, rng, n, hint):
        cs = self._small(14, 11, 5) + self._boundary() + [self._random(rng, 3000) for _ in range(n)]
        return self._prefetch(cs)

    # ---- oracle ------------------------------------------------------------------------------
    @staticmethod
    def _parse(out):
        d = {}
        for tok in out.split():
            if '=' in tok:
                k, v = tok.split('=', 1)
                d[k] = v
        return d

    @staticmethod
    def _floats(field):
        if not field.startswith('val:'):
            return None
        return [bits_to_float(x) for x in field[4:].split(',') if x]

    def _check_exact(self, d, want):
        """X (exact model, τ = 0) and S (closed-form spec) printed by Lean against the Python values `want` (list of Fractions)"""
        for key, name in (('X', 'the exact model translated from the Scala text (τ = 0)'), ('S', 'the Lean closed-form specification')):
            v = d.get(key, '-')
            if v == '-':
                continue
            if not v.startswith('val:'):
                return f'{name} answers {v}, the closed forms give values'
            got = v[4:].split(',')
            exp = [frac_str(x) if x is not None else g for x, g in zip(want, got)]
            if len(got) != len(want):
                return f'{name} answers {len(got)} values, expected {len(want)}'
            if got != exp:
                i = next((i for i, (g, e) in enumerate(zip(got, exp)) if g != e), 0)
                return f'{name}: value #{i} is {got[i][:60]}, the independent closed form gives {exp[i][:60]}'
        return None

    def _check_op(self, line, out):
        if out == 'driver-unavailable':
            return None
        w = line.split()
        kind = w[0]
        d = self._parse(out)
        F = d.get('F', '')
        if out == 'bad-op' or not F:
            return f'driver: {out[:80]}'
        if kind == 'hwe':
            r, h, v, os_ = map(int, w[1:])
            if min(r, h, v) < 0:
                return None if F == 'fatal' else f'negative genotype count accepted: {F[:40]}'
            fl = self._floats(F)
            if fl is None or len(fl) != 2:
                return f'hardyWeinbergTest({r}, {h}, {v}) does not return two values: {F[:40]}'
            n = r + h + v
            nA = h + 2 * min(r, v)
            tab = LHTable.get(n, nA)
            six, den = tab.six(h)
            p_lo, p_hi = six[3] if os_ else six[5]
            what = f'hardyWeinbergTest({r}, {h}, {v}, oneSided={bool(os_)})'
            if not (0.0 <= fl[1] <= 1.0):
                return f'{what}: p_value = {fl[1]!r} is not in [0, 1]'
            if not within(fl[1], p_lo, p_hi, den):
                return f'{what}: p_value = {fl[1]!r}, the Levene-Haldane definition gives {p_lo / den!r}'
            if n > 0:
                mean_n = Fraction(nA * (2 * n - nA), (2 * n - 1) * n) if 2 * n - 1 else None
                if not within(fl[0], mean_n.numerator, mean_n.numerator, mean_n.denominator):
                    return f'{what}: het_freq_hwe = {fl[0]!r}, nA nB / ((2n-1) n) = {float(mean_n)!r}'
                if p_lo == p_hi:
                    return self._check_exact(d, [mean_n, Fraction(p_lo, den)])
            return None
        if kind == 'lh':
            n, nA, k = map(int, w[1:])
            if nA < 0 or nA > n:
                return None if F == 'fatal' else f'LeveneHaldane({n}, {nA}) accepted'
            fl = self._floats(F)
            if fl is None or len(fl) != 6:
                return f'LeveneHaldane({n}, {nA}): {F[:40]}'
            tab = LHTable.get(n, nA)
            six, den = tab.six(k)
            names = ['probability', 'cumulativeProbability', 'survivalFunction', 'rightMidP', 'leftMidP', 'exactMidP']
            for nm, f, (lo, hi) in zip(names, fl, six):
                # the mid-p values ARE p-values of the exact tests: [0, 1] strictly; pmf / cdf / sf are probabilities used to build them
                top = 1.0 if nm.endswith('MidP') else 1.0 + 1e-12
                if not (0.0 <= f <= top):
                    return f'LeveneHaldane({n}, {nA}).{nm}({k}) = {f!r} is not in [0, 1]'
                if not within(f, lo, hi, den):
                    return f'LeveneHaldane({n}, {nA}).{nm}({k}) = {f!r}, the closed form gives {lo / den!r}'
            # the mode: a point of the support with maximal probability
            mode = d.get('mode', '-,-').split(',')[0]
            if mode != '-':
                m = int(mode)
                if tab.idx(m) is None or tab.w(m) != max(tab.W):
                    return f'LeveneHaldane({n}, {nA}): mode = {m} is not a most probable point of the support'
            if all(lo == hi for lo, hi in six):
                return self._check_exact(d, [Fraction(lo, den) for lo, _hi in six])
            return None
        if kind in ('fet', 'chi', 'ctt'):
            a, b, c, dd = map(int, w[1:5])
            neg = min(a, b, c, dd) < 0
        if kind == 'fet':
            alt = w[5]
            if neg or alt not in ('two.sided', 'less', 'greater'):
                return None if F == 'fatal' else f'fisherExactTest({a}, {b}, {c}, {dd}, alternative={alt}) accepted: {F[:40]}'
            degenerate = (a + b == 0 or c + dd == 0 or a + c == 0 or b + dd == 0)
            if degenerate:
                return None if F == 'nan' else f'fisherExactTest({a}, {b}, {c}, {dd}): a table with a zero margin must answer NaN, got {F[:40]}'
            fl = self._floats(F)
            if fl is None or len(fl) != 1:
                return f'fisherExactTest({a}, {b}, {c}, {dd}, {alt}): {F[:40]}'
            tab = HyperTable.get(a + b + c + dd, a + c, a + b)
            lo, hi = tab.pvalue(a, alt)
            what = f'fisherExactTest({a}, {b}, {c}, {dd}, alternative={alt})'
            if not (0.0 <= fl[0] <= 1.0):
                return f'{what}: p_value = {fl[0]!r} is not in [0, 1]'
            if not within(fl[0], lo, hi, tab.total):
                return f'{what}: p_value = {fl[0]!r}, the hypergeometric definition gives {lo / tab.total!r}'
            if lo == hi:
                return self._check_exact(d, [Fraction(lo, tab.total)])
            return None
        if kind == 'chi':
            if neg:
                return None if F == 'fatal' else f'chiSquaredTest({a}, {b}, {c}, {dd}) accepted: {F[:40]}'
            fl = self._floats(F)
            if fl is None or len(fl) != 2:
                return f'chiSquaredTest({a}, {b}, {c}, {dd}): {F[:40]}'
            N = a + b + c + dd
            if a + b == 0 or c + dd == 0 or a + c == 0 or b + dd == 0:
                return None       # statistic undefined; documented: fields may be NaN
            stat = sum(Fraction((o * N - rr * cc) ** 2, N * rr * cc) for o, rr, cc in
                       ((a, a + b, a + c), (b, a + b, b + dd), (c, c + dd, a + c), (dd, c + dd, b + dd)))
            what = f'chiSquaredTest({a}, {b}, {c}, {dd})'
            # the p-value: upper tail of chi-squared with 1 d.f. at Pearson's statistic = erfc(sqrt(X^2 / 2))
            x2 = stat.numerator / stat.denominator
            p_exp = Fraction(math.erfc(math.sqrt(x2 / 2)))
            if not (0.0 <= fl[0] <= 1.0):
                return f'{what}: p_value = {fl[0]!r} is not in [0, 1]'
            if not within(fl[0], p_exp.numerator, p_exp.numerator, p_exp.denominator):
                return (f'{what}: p_value = {fl[0]!r}, the chi-squared tail (1 d.f.) of sum (O-E)^2/E = {x2!r} is erfc(sqrt(X^2/2)) = {float(p_exp)!r}')
            if b * c != 0:
                o = Fraction(a * dd, b * c)
                if not within(fl[1], o.numerator, o.numerator, o.denominator):
                    return f'{what}: odds_ratio = {fl[1]!r}, ad/bc = {float(o)!r}'
                # X / S slot 0 carry the statistic only while the code hands it to pchisqtail (exact side: tail function = identity)
                return self._check_exact(d, [stat if self.chi_uses_tail else None, o])
            return None
        return None

    def _check_ctt(self, c, outs):
        w = c['ops'][0].split()
        a, b, cc, dd, m = map(int, w[1:])
        F = self._parse(outs[0]).get('F', '')
        if outs[0] == 'driver-unavailable':
            return None
        if m < 0:
            return None if F == 'fatal' else f'contingencyTableTest(min_cell_count={m}) accepted'
        want_chi = min(a, b, cc, dd) >= m
        if not want_chi and len(outs) < 3:
            return None if len(F.split(',')) == 1 or not F.startswith('val:') else (
                f'contingencyTableTest({a}, {b}, {cc}, {dd}, min_cell_count={m}) must be fisherExactTest (a cell is below min_cell_count); got the chi-squared answer')
        other = self._parse(outs[1 if want_chi else 2]).get('F', '')
        if F != other:
            return (f'contingencyTableTest({a}, {b}, {cc}, {dd}, min_cell_count={m}) must be '
                    f'{"chiSquaredTest" if want_chi else "fisherExactTest"} of the table (every cell >= min_cell_count: {want_chi}); got {F[:60]} instead of {other[:60]}')
        return None

    def _check_golden(self, c, outs):
        F = self._parse(outs[0]).get('F', '')
        fl = self._floats(F)
        call = f"hl.{c['fn']}({c['ops'][0].split(' ', 1)[1]})"
        # the recorded engine output itself against the property
        p = c['doc'].get('p_value')
        if p is not None and not (0.0 <= p <= 1.0):
            return f'{FUNCTIONS_PY} records the engine output {call}.p_value = {p!r}, which is not in [0, 1]'
        if fl is None:
            return f'{call}: the translated model answers {F[:40]}, the recorded engine output is {c["doc"]}'
        if c['fn'] == 'contingency_table_test':
            # which test the engine used is visible in the recorded p-value: it equals the chi-squared or the Fisher doctest of the same table
            table = c['ops'][0].split()[1:5]
            for g in self.golden:
                if g['ops'][0].split()[1:5] == table and g['fn'] in ('chi_squared_test', 'fisher_exact_test') and g['doc'].get('p_value') == p:
                    used_chi = g['fn'] == 'chi_squared_test'
                    if used_chi != (len(fl) == 2):
                        return (f'{call}: the engine output recorded in functions.py is the {"chi-squared" if used_chi else "Fisher"} p-value of the table, '
                                f'the translated dispatch chose the other test')
                    if not (abs(fl[0] - p) <= 1e-9 * max(abs(p), 1e-300)):
                        return f'{call}: the translated Float model gives p_value = {fl[0]!r}, the engine output recorded in functions.py is {p!r}'
            return None
        exact_arith = c['fn'] in ('hardy_weinberg_test', 'chi_squared_test')
        for i, wv in enumerate(c['want']):
            if wv is None or i >= len(fl):
                continue
            f = fl[i]
            tol = 4e-16 if exact_arith and not (c['fn'] == 'chi_squared_test' and i == 0) else 1e-9
            if not (abs(f - wv) <= tol * max(abs(wv), 1e-300)):
                return f'{call}: the translated Float model gives {f!r}, the engine output recorded in functions.py is {wv!r}'
        return None

    def oracle(self, c, out):
        if len(out) != len(c['ops']):
            return f'driver produced {len(out)} lines for {len(c["ops"])} ops'
        if c['kind'] == 'golden':
            m = self._check_golden(c, out)
            if m:
                return m
        for ln, o in zip(c['ops'], out):
            try:
                m = self._check_op(ln, o)
            except AssertionError as e:
                raise MachineryError(str(e))
            if m:
                return f'{ln}: {m}'
        if c['ops'][0].startswith('ctt') and len(c['ops']) >= 2:
            m = self._check_ctt(c, out)
            if m:
                return f'{c["ops"][0]}: {m}'
        return None

    # ---- bookkeeping --------------------------------------------------------------------------
    def classify(self, c, out):
        tags = ['kind=' + c.get('kind', 'corpus')]
        ln = c['ops'][0]
        w = ln.split()
        F = self._parse(out[0]).get('F', '') if out else ''
        st = F.split(':')[0]
        tags.append(f'{w[0]} -> {st}')
        d = self._parse(out[0]) if out else {}
        if d.get('ok') in ('0', '1'):
            tags.append(f'{w[0]} lean-verdict ok={d["ok"]}')
        try:
            size = sum(abs(int(x)) for x in w[1:] if re.fullmatch(r'-?\d+', x))
        except ValueError:
            size = 0
        tags.append(f'{w[0]} size<' + next((str(b) for b in (20, 200, 2000, 20000, 200000, 10 ** 7) if size < b), 'huge'))
        return (ln if st == 'val' else None, tags)

    def finding_key(self, c, msg):
        if 'is not in [0, 1]' in msg:
            m = re.search(r'(p_value|(?:right|left)MidP\(-?\d+\)) = ([0-9.e+-]+),? (?:which )?is not in', msg)
            if m and 1.0 < float(m.group(2)) <= 1.0 + 1e-9:
                if 'fisher' in msg:
                    return 'C37:fisher-p-value-above-1-by-rounding'
                if 'oneSided=True' in msg or 'rightMidP' in msg or 'leftMidP' in msg:
                    return 'C37:levene-haldane-one-sided-mid-p-above-1-by-rounding'
        return msg.split(':', 1)[0] if ':' in msg else json.dumps(c, sort_keys=True)

    def shrink(self, c, fails):
        return c


PROP = C37()

"""C24 Rate limiter never exceeds its rate — correspondence of RateLimit.step with the real
hailtop.utils.rate_limiter.RateLimiter under the virtual clock of harness/aloop.py."""
import asyncio
import importlib.util
import json
import os

from .. import aloop
from ..framework import Prop, generic_shrink_list

TICK = 1.0 / 1024.0          # times are multiples of 2^-10 s: float subtraction in the code under test is exact
T0 = 1000.0                  # VLoop start time


class Livelock(Exception):
    pass


class Injected(Exception):
    """what a body that `ends by an exception` raises"""


class _AsyncioProxy:
    """stands for the `asyncio` module inside rate_limiter.py only: counts sleeps (measurement) and aborts a zero-delay livelock"""

    def __init__(self):
        self.sleeps = {}
        self.zero = 0
        self.attempts = []     # task names in the order their loop-body iterations happened (refused ones: seen here)

    def __getattr__(self, name):
        return getattr(asyncio, name)

    async def sleep(self, delay, result=None):
        t = asyncio.current_task()
        self.sleeps[t.get_name()] = self.sleeps.get(t.get_name(), 0) + 1
        self.attempts.append(t.get_name())
        if delay <= 0:
            self.zero += 1
            if self.zero > 2000:
                raise Livelock(f'asyncio.sleep({delay}) called {self.zero} times: the limiter spins without the clock advancing')
        return await asyncio.sleep(delay, result)


class C24(Prop):
    id = 'C24'
    title = 'Rate limiter never exceeds its rate'
    lean_props = ['HailVerif.Props.C24']
    driver = 'Driver/C24.lean'
    engine = 'E2-async'
    design_ref = 'DESIGN.md §4 C24'
    technique = ('Lean 4 proof by induction over op lists of a state-machine model over an integer clock whose steps are the atomic blocks '
                 'between awaits + differential correspondence with the real class under a virtual clock')
    level_text = ('Theorems for all op lists (all arrival times, any number of concurrent entrants, any wake-up order and lateness, any way a body ends), all '
                  'counts and window lengths: every half-open window (x-W, x] and [x, x+W) contains at most `count` admissions; an attempt '
                  'admits iff (now-W, now] has room; during every sleep every instant sees a full window and the sleep has positive length. '
                  'Only the closed window [x, x+W] can hold count+1 (example). Op lists include bodies ending normally, by exception and by '
                  'cancellation, and cancellation of waiting entrants: an admission is final (the log is never shortened, leaving a body changes '
                  'nothing). The model is tied to the real RateLimiter by comparing admission times under a virtual clock (time.time patched), '
                  'arrivals on a W/4 grid with jitter, 1-6 concurrent entrants, timed bodies, injected exceptions and cancellations.')
    level_note = ('Trusted: Lean kernel; the hand-written model RateLimit agrees with the Python class only as far as the correspondence cases '
                  'show; times quantised to 2^-10 s so that float arithmetic is exact; time.time() assumed monotone; asyncio timers fire '
                  'exactly when due under the virtual clock.')
    budget = {'quick': 4000, 'thorough': 60000}
    search_budget = {'quick': 4000, 'thorough': 40000}
    rule = ('case = (count, W in ticks of 2^-10 s, timed events, tail); event = n entrants arrive together (each a task `async with '
            'limiter: record time; await asyncio.sleep(d); [raise]`), entrant k is cancelled (Task.cancel, inside its body or while it '
            'waits in __aenter__), or the loop is blocked for d ticks (the clock moves on, due timers fire late); after each event the loop is settled without advancing the clock, `advance` moves the virtual clock '
            'firing timers in order; compared: admit/sleep per arrival, where a cancel hit, admission times per advance, number still '
            'waiting / in a body; non-trivial = somebody had to sleep or an admitted entrant was cancelled; distinct by full case')
    trusted = ['harness/aloop.py virtual clock (VLoop) and patch_time (time.time -> loop clock)',
               'the order among sleepers woken at the same instant (asyncio timer heap) is observed on the real run and given to the model '
               'driver as a tie-break hint; the theorems hold for every order',
               'the `asyncio` name inside rate_limiter.py is replaced by a delegating proxy that counts sleep() calls']
    assumptions = ['time.time() is monotone and timers fire exactly when due (virtual clock)', 'count >= 1',
                   'all times are multiples of 2^-10 s (no float rounding in now - window)']

    def setup(self, repo):
        path = os.path.join(repo, 'hail', 'python', 'hailtop', 'utils', 'rate_limiter.py')
        spec = importlib.util.spec_from_file_location('verif_c24_rate_limiter', path)
        mod = importlib.util.module_from_spec(spec)
        spec.loader.exec_module(mod)     # stdlib only; loaded by path (hailtop.utils.__init__ pulls in aiohttp, orjson, ...)
        self.mod = mod
        self._traces = {}

    # ---- generation ----------------------------------------------------------------------------
    # events: [dt, 'a', n, d, e]  after dt ticks n entrants arrive together; each body lasts d ticks and ends by an exception iff e
    #         [dt, 'c', k]        after dt ticks entrant k (numbered in arrival order) is cancelled (in its body or while it waits)
    #         [dt, 's']           the event loop is busy (blocked) for dt ticks: the clock moves on, timers that become due fire late
    def _random_case(self, rng):
        W = rng.choice([4, 8, 8, 16, 40, 1024])
        count = rng.choice([1, 1, 2, 2, 3, 5])
        if rng.random() < 0.01:
            count = 0
        q = W // 4
        n_ev = rng.choice([2, 3, 5, 8, 12])
        events = []
        total = 0
        style = rng.random()
        p_cancel = rng.choice([0.0, 0.15, 0.35])
        p_stall = rng.choice([0.0, 0.0, 0.2, 0.4])
        for _ in range(n_ev):
            if style < 0.3:
                g = rng.choice([0, 1, 1, 2, 4])            # dense: bursts inside one window
            elif style < 0.6:
                g = rng.choice([0, 1, 2, 3, 4, 4, 5, 8])
            else:
                g = rng.choice([3, 4, 4, 4, 5, 8, 9])      # around exactly one window apart
            dt = g * q
            if rng.random() < 0.35:
                dt = max(0, dt + rng.choice([-1, 1, -2, 2]))
            if total and rng.random() < p_stall:
                # a busy loop: sleeps that end meanwhile overshoot; then somebody arrives less than a window after the late wake-up
                events.append([rng.choice([1, q, 2 * q, W, W + q, W + 1, 2 * W + 1]), 's'])
                continue
            if total and rng.random() < p_cancel:
                k = max(0, total - 1 - rng.choice([0, 0, 1, 2, 3, 5])) if rng.random() < 0.9 else rng.randrange(total + 2)
                events.append([rng.choice([0, 1, q, dt]), 'c', k])
                continue
            n = rng.choice([1, 1, 2, 3, 4, 6])
            d = rng.choice([0, 0, 1, q, 2 * q, W, W + 1, 3 * W])
            events.append([dt, 'a', n, d, 1 if rng.random() < 0.15 else 0])
            total += n
        longest = max([e[3] for e in events if e[1] == 'a'] + [0])
        tail = (total // max(count, 1) + 2) * W + longest + rng.choice([0, 1, 3])
        tail += sum(e[0] for e in events if e[1] == 's')
        return {'count': count, 'W': W, 'events': events, 'tail': tail}

    def _exhaustive(self, count, W, n_ev, small=False):
        """all event lists of n_ev events over a small alphabet: arrivals (delay on the W/4 grid and next to W, 1-2 entrants, body
        shorter / longer than a window) and cancellations of entrant 0..2 right away or one tick later"""
        q = W // 4
        delays = [0, q, 3 * q, W] if small else [0, q, 3 * q, W - 1, W, W + 1]
        alphabet = [[dt, 'a', n, d, 0] for dt in delays for n in (1, 2) for d in (0, W + q)]
        alphabet += [[dt, 'c', k] for dt in (0, 1) for k in ((0, 1) if small else (0, 1, 2))]
        alphabet += [[dt, 's'] for dt in ((q, W + q) if small else (q, W, W + q))]      # the loop is busy for dt ticks
        out = []

        def rec(evs, total):
            if len(evs) == n_ev:
                out.append({'count': count, 'W': W, 'events': [list(e) for e in evs], 'tail': (total // count + 5) * W + q})
                return
            for e in alphabet:
                if e[1] == 'c' and e[2] >= total:
                    continue
                rec(evs + [e], total + (e[2] if e[1] == 'a' else 0))
        rec([], 0)
        return out

    def cases(self, rng, n, tier):
        if tier == 'thorough':
            for count in (1, 2):
                yield from self._exhaustive(count, 8, 3)
            yield from self._exhaustive(1, 8, 4, small=True)
        else:
            yield from self._exhaustive(1, 8, 3, small=True)
        for _ in range(n):
            yield self._random_case(rng)

    def search_cases(self, rng, n, hint):
        for count in (1, 2):
            yield from self._exhaustive(count, 8, 3, small=True)
        for _ in range(n):
            yield self._random_case(rng)

    # ---- model ---------------------------------------------------------------------------------
    def model_lines(self, c):
        # the order in which the event loop ran sleepers that were due at the same instant (asyncio's timer-heap order) is an
        # input of the schedule, not a property of the limiter: it is observed on the real run and passed to the model as a
        # tie-break hint for each `advance`
        try:
            hints = list(self._get_trace(c).get('hints', []))
        except Exception:      # the real run raised (reported through impl/oracle as IMPL-EXC): no observation, no hints
            hints = []
        hint = lambda: ''.join(f' {i}' for i in (hints.pop(0) if hints else []))
        out = ['reset', f"cfg {c['count']} {c['W']}"]
        k = 0
        for ev in c['events']:
            if ev[1] == 's':
                out.append(f'stall {ev[0]}' + hint())
                continue
            out.append(f'advance {ev[0]}' + hint())
            if ev[1] == 'a':
                for _ in range(ev[2]):
                    out.append(f'arrive {k} {ev[3]} {ev[4]}')
                    k += 1
            else:
                out.append(f'cancel {ev[2]}')
        out.append(f"advance {c['tail']}" + hint())
        return out

    # ---- real code -----------------------------------------------------------------------------
    @staticmethod
    def _tick(v):
        x = (v - T0) / TICK
        if x != int(x):
            raise AssertionError(f'virtual time {v!r} is not on the 2^-10 grid')
        return int(x)

    def _trace(self, c):
        """run the real RateLimiter; returns (lines, trace) with trace = arrival/admission/cancellation tick per entrant"""
        s = aloop.Sched()
        proxy = _AsyncioProxy()
        saved = self.mod.asyncio
        self.mod.asyncio = proxy
        tasks = []
        try:
            with aloop.patch_time(s.loop):
                limiter = self.mod.RateLimiter(self.mod.RateLimit(c['count'], c['W'] * TICK))
                arrive, admit, order, inside = {}, {}, [], set()
                cancelled_waiting, cancelled_body, failed = {}, {}, 0

                async def entrant(k, d, exc):
                    async with limiter:
                        admit[k] = self._tick(s.loop._vtime)
                        order.append(k)
                        proxy.attempts.append(str(k))
                        inside.add(k)
                        try:
                            await asyncio.sleep(d * TICK)      # the rate-limited call itself (harness timer, real asyncio.sleep)
                            if exc:
                                raise Injected()
                        finally:
                            inside.discard(k)

                def check():
                    for t in tasks:
                        if t.done() and not t.cancelled() and t.exception() is not None \
                                and not isinstance(t.exception(), (IndexError, Injected)):
                            raise t.exception()

                hints = []

                def adv(dt):
                    n0 = len(order)
                    a0 = len(proxy.attempts)
                    s.advance(dt * TICK)
                    hints.append([int(x) for x in proxy.attempts[a0:]])
                    check()
                    sleeping = sum(1 for k, t in enumerate(tasks) if not t.done() and k not in admit)
                    return (f"t={self._tick(s.loop._vtime)} adm={','.join(str(admit[k]) for k in order[n0:])} sleeping={sleeping} "
                            f"body={len(inside)}")

                stalls = []

                def stall(dt):
                    n0 = len(order)
                    a0 = len(proxy.attempts)
                    start = self._tick(s.loop._vtime)
                    s.stall(dt * TICK)
                    stalls.append((start, start + dt))
                    hints.append([int(x) for x in proxy.attempts[a0:]])
                    check()
                    sleeping = sum(1 for k, t in enumerate(tasks) if not t.done() and k not in admit)
                    return (f"t={self._tick(s.loop._vtime)} adm={','.join(str(admit[k]) for k in order[n0:])} sleeping={sleeping} "
                            f"body={len(inside)}")

                out = ['ok', 'ok']
                k = 0
                for ev in c['events']:
                    if ev[1] == 's':
                        out.append(stall(ev[0]))
                        continue
                    out.append(adv(ev[0]))
                    if ev[1] == 'a':
                        for _ in range(ev[2]):
                            arrive[k] = self._tick(s.loop._vtime)
                            t = s.spawn(k, entrant(k, ev[3], ev[4]))
                            tasks.append(t)
                            check()
                            if t.done() and not t.cancelled() and isinstance(t.exception(), IndexError):
                                out.append('err IndexError')
                            else:
                                out.append('admit' if k in admit else 'sleep')
                            k += 1
                    else:
                        j = ev[2]
                        if j >= len(tasks) or tasks[j].done():
                            out.append('err')
                        else:
                            now = self._tick(s.loop._vtime)
                            if j in inside:
                                cancelled_body[j] = now
                                out.append('cancel body')
                            else:
                                cancelled_waiting[j] = now
                                out.append('cancel wait')
                            s.cancel(j)
                            check()
                            if not tasks[j].done():
                                raise AssertionError(f'entrant {j} survived its cancellation')
                out.append(adv(c['tail']))
                failed = sum(1 for t in tasks if t.done() and not t.cancelled() and isinstance(t.exception(), Injected))
                trace = {'arrive': arrive, 'admit': admit, 'end': self._tick(s.loop._vtime),
                         'hints': hints, 'stalls': stalls, 'late': sum(1 for k2, a2 in admit.items() if any(x < a2 == y for x, y in stalls)),
                         'cancel_wait': cancelled_waiting, 'cancel_body': cancelled_body, 'failed': failed,
                         'resleep': sum(1 for v in proxy.sleeps.values() if v >= 2), 'slept': len(proxy.sleeps)}
                return out, trace
        finally:
            self.mod.asyncio = saved
            for t in tasks:
                if t.done() and not t.cancelled():
                    t.exception()
            s.close()

    def impl(self, c):
        out, trace = self._trace(c)
        self._traces[json.dumps(c, sort_keys=True)] = trace
        return out

    # ---- the property on the real behaviour -------------------------------------------------------
    def _get_trace(self, c):
        key = json.dumps(c, sort_keys=True)
        tr = self._traces.get(key)
        if tr is None:
            _, tr = self._trace(c)
        return tr

    def oracle(self, c, out):
        if out and out[0].startswith('IMPL-EXC'):
            return out[0]
        count, W = c['count'], c['W']
        if count < 1:
            return None   # outside the quantifier
        tr = self._get_trace(c)
        # every admission counts, whatever happened to its body afterwards (finished, raised, cancelled)
        A = sorted(tr['admit'].values())
        # half-open windows: it suffices to anchor them at admission times (the count of a sliding window changes only there)
        for t in sorted(set(A)):
            for lo, hi, inwin, shown in ((t - W, t, lambda a: t - W < a <= t, f'({t - W}, {t}]'),
                                         (t, t + W, lambda a: t <= a < t + W, f'[{t}, {t + W})')):
                who = sorted(k for k, a in tr['admit'].items() if inwin(a))
                if len(who) > count:
                    note = [f"{k}@{tr['admit'][k]}" + (' (cancelled in its body)' if k in tr['cancel_body'] else '') for k in who]
                    return f"{len(who)} admissions in the window {shown} ticks, rate is {count} per {W} ticks: {', '.join(note)}"
        # as soon as possible: at no instant between arrival and admission (or cancellation while waiting) was there room
        end = tr['end']
        for k, r in sorted(tr['arrive'].items()):
            if k in tr['admit']:
                t, when = tr['admit'][k], f"admitted only at {tr['admit'][k]}"
            elif k in tr['cancel_wait']:
                t, when = tr['cancel_wait'][k], f"still waiting when it was cancelled at {tr['cancel_wait'][k]}"
            else:
                t, when = end + 1, f'still not admitted at {end}'
            if t < r:
                return f'entrant {k} admitted at {t} before it arrived at {r}'
            # while the loop is blocked nobody can be admitted: an instant inside a stall counts as the end of that stall
            def runnable(x):
                for a0, b0 in tr.get('stalls', []):
                    if a0 < x < b0:
                        return b0
                return x
            instants = sorted({runnable(x) for x in {r} | {a + W for a in A if r < a + W}})
            for x in instants:
                if x >= t or x > end:
                    break
                if sum(1 for a in A if x - W < a <= x) < count:
                    return (f'entrant {k} arrived at {r} and was {when}, although at {x} the window ({x - W}, {x}] held fewer than '
                            f'{count} admissions')
        return None

    def classify(self, c, out):
        key = json.dumps(c, sort_keys=True)
        tr = self._traces.get(key)
        tags = [f"count={c['count']}", f"W={c['W']}"]
        if tr is None:
            return (None, tags + ['no-trace'])
        A = sorted(tr['admit'].values())
        W, count = c['W'], c['count']
        if tr['slept']:
            tags.append('slept')
        if tr['resleep']:
            tags.append('woke-and-slept-again')
        if any(sum(1 for a in A if t <= a <= t + W) == count + 1 for t in set(A)):
            tags.append('closed-window-holds-count+1')
        if any(sum(1 for a in A if t - W < a <= t) == count for t in set(A)):
            tags.append('half-open-window-full')
        if any(e[1] == 'a' and e[2] > 1 for e in c['events']):
            tags.append('concurrent-entrants')
        if tr['cancel_body']:
            tags.append('cancel-in-body')
            # the schedule on which a "slot given back" would show: somebody arrives within the window of a cancelled admission
            if any(tr['admit'][k] <= r < tr['admit'][k] + W and r >= x for k, x in tr['cancel_body'].items()
                   for r in tr['arrive'].values()):
                tags.append('arrival-within-window-of-cancelled-admission')
        if tr['cancel_wait']:
            tags.append('cancel-while-waiting')
        if tr.get('stalls'):
            tags.append('loop-stall')
        if tr.get('late'):
            tags.append('admitted-late-after-a-stall')
            if any(a2 < r2 < a2 + W for k2, a2 in tr['admit'].items() if any(x < a2 == y for x, y in tr['stalls'])
                   for r2 in tr['arrive'].values()):
                tags.append('arrival-within-window-of-late-admission')
        if tr['failed']:
            tags.append('body-exit-by-exception')
        if 'err' in out:
            tags.append('cancel-of-finished-task(no-op)')
        if any(l.startswith('err Index') for l in out):
            tags.append('IndexError(count=0)')
        if not tr['slept']:
            tags.append('never-slept')
        return (key if tr['slept'] or tr['cancel_body'] else None, tags)

    def finding_key(self, c, msg):
        return json.dumps(c, sort_keys=True)

    def shrink(self, c, fails):
        if not fails(c):
            return c

        def renumber(evs, dropped_at):
            """after dropping the arrival event at index `dropped_at`, cancel targets behind it shift down"""
            first = sum(e[2] for e in evs[:dropped_at] if e[1] == 'a')
            n = evs[dropped_at][2] if evs[dropped_at][1] == 'a' else 0
            out = []
            for i, e in enumerate(evs):
                if i == dropped_at:
                    continue
                if e[1] == 'c' and n:
                    if first <= e[2] < first + n:
                        return None
                    if e[2] >= first + n:
                        e = [e[0], 'c', e[2] - n]
                out.append(list(e))
            return out

        cur = {**c, 'events': [list(e) for e in c['events']]}
        changed = True
        while changed:
            changed = False
            for i, e in enumerate(cur['events']):
                cands = [renumber(cur['events'], i)]
                if e[1] == 'a':
                    if e[2] > 1 and not any(x[1] == 'c' for x in cur['events']):
                        cands.append(cur['events'][:i] + [[e[0], 'a', e[2] - 1, e[3], e[4]]] + cur['events'][i + 1:])
                    if e[4]:
                        cands.append(cur['events'][:i] + [[e[0], 'a', e[2], e[3], 0]] + cur['events'][i + 1:])
                if e[0]:
                    cands.append(cur['events'][:i] + [[0] + list(e[1:])] + cur['events'][i + 1:])
                for e2 in cands:
                    if e2 is not None and e2 != cur['events'] and fails({**cur, 'events': e2}):
                        cur = {**cur, 'events': e2}
                        changed = True
                        break
                if changed:
                    break
        return cur


PROP = C24()

"""C24 Rate limiter never exceeds its rate — correspondence of RateLimit.step with the real
hailtop.utils.rate_limiter.RateLimiter under the virtual clock of harness/aloop.py."""
import asyncio
import importlib.util
import json
import os

from .. import aloop
from ..framework import Prop, generic_shrink_list

TICK = 1.0 / 1024.0          # times are multiples of 2^-10 s: float subtraction in the code under test is exact
T0 = 1000.0                  # VLoop start time


class Livelock(Exception):
    pass


class _AsyncioProxy:
    """stands for the `asyncio` module inside rate_limiter.py only: counts sleeps (measurement) and aborts a zero-delay livelock"""

    def __init__(self):
        self.sleeps = {}
        self.zero = 0

    def __getattr__(self, name):
        return getattr(asyncio, name)

    async def sleep(self, delay, result=None):
        t = asyncio.current_task()
        self.sleeps[t.get_name()] = self.sleeps.get(t.get_name(), 0) + 1
        if delay <= 0:
            self.zero += 1
            if self.zero > 2000:
                raise Livelock(f'asyncio.sleep({delay}) called {self.zero} times: the limiter spins without the clock advancing')
        return await asyncio.sleep(delay, result)


class C24(Prop):
    id = 'C24'
    title = 'Rate limiter never exceeds its rate'
    lean_props = ['HailVerif.Props.C24']
    driver = 'Driver/C24.lean'
    engine = 'E2-async'
    design_ref = 'DESIGN.md §4 C24'
    technique = ('Lean 4 proof by induction over op lists of a state-machine model over an integer clock whose steps are the atomic blocks '
                 'between awaits + differential correspondence with the real class under a virtual clock')
    level_text = ('Theorems for all op lists (all arrival times, any number of concurrent entrants, any wake-up order and lateness), all '
                  'counts and window lengths: every half-open window (x-W, x] and [x, x+W) contains at most `count` admissions; an attempt '
                  'admits iff (now-W, now] has room; during every sleep every instant sees a full window and the sleep has positive length. '
                  'Only the closed window [x, x+W] can hold count+1 (example). The model is tied to the real RateLimiter by comparing '
                  'admission times under a virtual clock (time.time patched), arrivals on a W/4 grid with jitter, 1-6 concurrent entrants.')
    level_note = ('Trusted: Lean kernel; the hand-written model RateLimit agrees with the Python class only as far as the correspondence cases '
                  'show; times quantised to 2^-10 s so that float arithmetic is exact; time.time() assumed monotone; asyncio timers fire '
                  'exactly when due under the virtual clock.')
    budget = {'quick': 4000, 'thorough': 60000}
    search_budget = {'quick': 4000, 'thorough': 40000}
    rule = ('case = (count, W in ticks of 2^-10 s, list of (delay, number of entrants arriving together), tail); each entrant is a task '
            '`async with limiter: record time`; after each arrival the loop is settled without advancing the clock, `advance` moves the '
            'virtual clock firing timers in order; compared: admit/sleep per arrival, admission times per advance, number still sleeping; '
            'non-trivial = at least one entrant had to sleep; distinct by full case')
    trusted = ['harness/aloop.py virtual clock (VLoop) and patch_time (time.time -> loop clock)',
               'the `asyncio` name inside rate_limiter.py is replaced by a delegating proxy that counts sleep() calls']
    assumptions = ['time.time() is monotone and timers fire exactly when due (virtual clock)', 'count >= 1',
                   'all times are multiples of 2^-10 s (no float rounding in now - window)']

    def setup(self, repo):
        path = os.path.join(repo, 'hail', 'python', 'hailtop', 'utils', 'rate_limiter.py')
        spec = importlib.util.spec_from_file_location('verif_c24_rate_limiter', path)
        mod = importlib.util.module_from_spec(spec)
        spec.loader.exec_module(mod)     # stdlib only; loaded by path (hailtop.utils.__init__ pulls in aiohttp, orjson, ...)
        self.mod = mod
        self._traces = {}

    # ---- generation ----------------------------------------------------------------------------
    def _random_case(self, rng):
        W = rng.choice([4, 8, 8, 16, 40, 1024])
        count = rng.choice([1, 1, 2, 2, 3, 5])
        if rng.random() < 0.01:
            count = 0
        q = W // 4
        n_ev = rng.choice([2, 3, 5, 8, 12])
        events = []
        total = 0
        style = rng.random()
        for _ in range(n_ev):
            if style < 0.3:
                g = rng.choice([0, 1, 1, 2, 4])            # dense: bursts inside one window
            elif style < 0.6:
                g = rng.choice([0, 1, 2, 3, 4, 4, 5, 8])
            else:
                g = rng.choice([3, 4, 4, 4, 5, 8, 9])      # around exactly one window apart
            dt = g * q
            if rng.random() < 0.35:
                dt = max(0, dt + rng.choice([-1, 1, -2, 2]))
            k = rng.choice([1, 1, 2, 3, 4, 6])
            events.append([dt, k])
            total += k
        tail = (total // max(count, 1) + 2) * W + rng.choice([0, 1, 3])
        return {'count': count, 'W': W, 'events': events, 'tail': tail}

    def _exhaustive(self, count, W, n_ev):
        """all event lists of n_ev events with delays on the W/4 grid 0..5/4 W (+ the two off-grid neighbours of W) and 1..3 entrants"""
        q = W // 4
        delays = [0, q, 2 * q, 3 * q, W - 1, W, W + 1, 5 * q]
        out = []

        def rec(evs, total):
            if len(evs) == n_ev:
                out.append({'count': count, 'W': W, 'events': [list(e) for e in evs], 'tail': (total // count + 2) * W})
                return
            for d in delays:
                for k in (1, 2, 3):
                    rec(evs + [[d, k]], total + k)
        rec([], 0)
        return out

    def cases(self, rng, n, tier):
        if tier == 'thorough':
            for count in (1, 2):
                yield from self._exhaustive(count, 8, 3)
        else:
            yield from self._exhaustive(1, 8, 2)
        for _ in range(n):
            yield self._random_case(rng)

    def search_cases(self, rng, n, hint):
        for count in (1, 2):
            yield from self._exhaustive(count, 8, 2)
        for _ in range(n):
            yield self._random_case(rng)

    # ---- model ---------------------------------------------------------------------------------
    def model_lines(self, c):
        out = ['reset', f"cfg {c['count']} {c['W']}"]
        k = 0
        for dt, n in c['events']:
            out.append(f'advance {dt}')
            for _ in range(n):
                out.append(f'arrive {k}')
                k += 1
        out.append(f"advance {c['tail']}")
        return out

    # ---- real code -----------------------------------------------------------------------------
    @staticmethod
    def _tick(v):
        x = (v - T0) / TICK
        if x != int(x):
            raise AssertionError(f'virtual time {v!r} is not on the 2^-10 grid')
        return int(x)

    def _trace(self, c):
        """run the real RateLimiter; returns (lines, trace) with trace = arrival/admission tick per entrant"""
        s = aloop.Sched()
        proxy = _AsyncioProxy()
        saved = self.mod.asyncio
        self.mod.asyncio = proxy
        tasks = []
        try:
            with aloop.patch_time(s.loop):
                limiter = self.mod.RateLimiter(self.mod.RateLimit(c['count'], c['W'] * TICK))
                arrive, admit, order = {}, {}, []

                async def entrant(k):
                    async with limiter:
                        admit[k] = self._tick(s.loop._vtime)
                        order.append(k)

                def check():
                    for t in tasks:
                        if t.done() and not t.cancelled() and t.exception() is not None and not isinstance(t.exception(), IndexError):
                            raise t.exception()

                def adv(dt):
                    n0 = len(order)
                    s.advance(dt * TICK)
                    check()
                    sleeping = sum(1 for t in tasks if not t.done())
                    return f"t={self._tick(s.loop._vtime)} adm={','.join(str(admit[k]) for k in order[n0:])} sleeping={sleeping}"

                out = ['ok', 'ok']
                k = 0
                for dt, n in c['events']:
                    out.append(adv(dt))
                    for _ in range(n):
                        arrive[k] = self._tick(s.loop._vtime)
                        t = s.spawn(k, entrant(k))
                        tasks.append(t)
                        check()
                        if t.done() and isinstance(t.exception(), IndexError):
                            out.append('err IndexError')
                        else:
                            out.append('admit' if k in admit else 'sleep')
                        k += 1
                out.append(adv(c['tail']))
                trace = {'arrive': arrive, 'admit': admit, 'end': self._tick(s.loop._vtime),
                         'resleep': sum(1 for v in proxy.sleeps.values() if v >= 2), 'slept': len(proxy.sleeps)}
                return out, trace
        finally:
            self.mod.asyncio = saved
            for t in tasks:
                if t.done() and not t.cancelled():
                    t.exception()
            s.close()

    def impl(self, c):
        out, trace = self._trace(c)
        self._traces[json.dumps(c, sort_keys=True)] = trace
        return out

    # ---- the property on the real behaviour -------------------------------------------------------
    def _get_trace(self, c):
        key = json.dumps(c, sort_keys=True)
        tr = self._traces.get(key)
        if tr is None:
            _, tr = self._trace(c)
        return tr

    def oracle(self, c, out):
        if out and out[0].startswith('IMPL-EXC'):
            return out[0]
        count, W = c['count'], c['W']
        if count < 1:
            return None   # outside the quantifier
        tr = self._get_trace(c)
        A = sorted(tr['admit'].values())
        # half-open windows: it suffices to anchor them at admission times (the count of a sliding window changes only there)
        for t in sorted(set(A)):
            n = sum(1 for a in A if t - W < a <= t)
            if n > count:
                return f'{n} admissions in the window ({t - W}, {t}] ticks, rate is {count} per {W} ticks'
            n = sum(1 for a in A if t <= a < t + W)
            if n > count:
                return f'{n} admissions in the window [{t}, {t + W}) ticks, rate is {count} per {W} ticks'
        # as soon as possible: at no instant between arrival and admission was there room
        end = tr['end']
        for k, r in sorted(tr['arrive'].items()):
            t = tr['admit'].get(k, end + 1)
            if t < r:
                return f'entrant {k} admitted at {t} before it arrived at {r}'
            instants = sorted({r} | {a + W for a in A if r < a + W})
            for x in instants:
                if x >= t or x > end:
                    break
                if sum(1 for a in A if x - W < a <= x) < count:
                    when = f'admitted only at {t}' if k in tr['admit'] else f'still not admitted at {end}'
                    return (f'entrant {k} arrived at {r} and was {when}, although at {x} the window ({x - W}, {x}] held fewer than '
                            f'{count} admissions')
        return None

    def classify(self, c, out):
        key = json.dumps(c, sort_keys=True)
        tr = self._traces.get(key)
        tags = [f"count={c['count']}", f"W={c['W']}"]
        if tr is None:
            return (None, tags + ['no-trace'])
        A = sorted(tr['admit'].values())
        W, count = c['W'], c['count']
        if tr['slept']:
            tags.append('slept')
        if tr['resleep']:
            tags.append('woke-and-slept-again')
        if any(sum(1 for a in A if t <= a <= t + W) == count + 1 for t in set(A)):
            tags.append('closed-window-holds-count+1')
        if any(sum(1 for a in A if t - W < a <= t) == count for t in set(A)):
            tags.append('half-open-window-full')
        if any(n > 1 for _, n in c['events']):
            tags.append('concurrent-entrants')
        if any('err' in l for l in out):
            tags.append('IndexError(count=0)')
        if not tr['slept']:
            tags.append('never-slept')
        return (key if tr['slept'] else None, tags)

    def finding_key(self, c, msg):
        return json.dumps(c, sort_keys=True)

    def shrink(self, c, fails):
        if not fails(c):
            return c
        evs = generic_shrink_list(c['events'], lambda e: fails({**c, 'events': e}))
        cur = {**c, 'events': evs}
        changed = True
        while changed:
            changed = False
            for i, (dt, n) in enumerate(cur['events']):
                for cand in ([dt, n - 1] if n > 1 else None, [0, n] if dt else None):
                    if cand is None:
                        continue
                    e2 = cur['events'][:i] + [cand] + cur['events'][i + 1:]
                    if fails({**cur, 'events': e2}):
                        cur = {**cur, 'events': e2}
                        changed = True
                        break
                if changed:
                    break
        return cur


PROP = C24()

"""C03 Billed attempt time is monotone and bounded — T tie: the clamp trigger `attempts_before_update` and the billed-duration
expressions of the two billing triggers are re-translated from the SQL text on every run into Generated/AttemptsTrigger.lean; the
theorems of Props/C03.lean are about exactly those definitions.  C tie (cross-check of the translator and of the billing model
Model/AttemptBilling.lean), three layers of cases, all executed by the minisql interpreter on the verbatim SQL of the working tree:
  * {'old', 'new'}           one UPDATE of a one-row `attempts` table with only attempts_before_update installed (accepted row);
  * {'old', 'new', 'res'}    the trigger TRIO on one attempt: `attempt_resources` rows of the given quantities are inserted while the
                             stored row is `old` (attempt_resources_after_insert bills it), then the UPDATE proposing `new` fires
                             attempts_before_update + attempts_after_update; the usage the four aggregated_*_v3 tables hold per
                             resource is what the attempt is actually billed;
  * {'hist': [ops]}          a history of one attempt through the REAL procedures / python driver functions (harness/batchdb World:
                             mark_job_creating / mark_job_started / mark_job_complete, unschedule_job, deactivate_instance,
                             add_attempt_resources, billing_update_1) with independent worker / driver clocks, so reports whose end
                             lies before the recorded start, late duplicates and stale heartbeats arise as they do in production.
The oracle states the property on the stored row AND on the billed amount read back from the aggregated tables."""
import json
import os
import re

from ..extract import sqlsrc, sqltrig
from ..framework import LEAN, MachineryError, Prop, TieBroken, generic_shrink_list, write_if_changed

FIELDS = ['start_time', 'rollup_time', 'end_time', 'reason']
COLTYPES = {'start_time': 'int', 'rollup_time': 'int', 'end_time': 'int', 'reason': 'str',
            'cur_rollup_time': 'int', 'cur_start_time': 'int'}
REASONS = [None, 'activation_timeout', 'completed', 'deactivated', 'cancelled', 'preempted']
TIMES = [None, 0, 1, 2, 3, 4, 5, 6]
QUANTITIES = [1, 2, 3, 5, 1000, 3840]
# history layer: one batch with one 1000 mcpu job, one 16-core pool instance, attempt att1 scheduled on it (harness/batchdb/SPEC.md ops)
PRELUDE = ['createBatch 1 1 1', 'createUpdate 1 1 1 0 1', 'insertJobs 1 1 1 1;;;0;0;0;1000;0', 'commit 1 1', 'newInstance 1 16000 1',
           'activate 1', 'schedule 1 1 1 1']
# an UPDATE of `attempts`, or add_attempt's `INSERT INTO attempts … ON DUPLICATE KEY UPDATE batch_id = batch_id` (fires the UPDATE triggers)
TOUCHES_ATTEMPTS = re.compile(r'\s*(UPDATE\s+`?attempts`?\s+SET\b|INSERT\s+INTO\s+`?attempts`?\b)', re.I)
AGG_TABLES = ('aggregated_job_resources_v3', 'aggregated_job_group_resources_v3',
              'aggregated_billing_project_user_resources_v3', 'aggregated_billing_project_user_resources_by_date_v3')


def find_set_expr(text, var):
    m = re.search(r'SET\s+' + var + r'\s*=\s*(.*?);', text, re.S | re.I)
    if not m:
        raise TieBroken(f'no "SET {var} = …;" in trigger')
    return m.group(1)


class C03(Prop):
    id = 'C03'
    lean_props = ['HailVerif.Props.C03']
    driver = 'Driver/C03.lean'
    engine = 'E1-batchdb'
    design_ref = 'DESIGN.md §4 C03'
    technique = ('translator (SQL trigger body -> Lean definition, regenerated from /repo on every run) + Lean 4 theorems about the '
                 'generated definition for all old/new rows, lifted to all update sequences by induction; differential correspondence of the '
                 'generated definitions and the billing model with the verbatim triggers / the real procedures executed by minisql')
    level_text = ('The clamp trigger attempts_before_update and the billed-duration expressions of attempts_after_update / '
                  'attempt_resources_after_insert are translated from the current SQL text into Lean; theorems hold for ALL old rows, '
                  'ALL proposed new rows and hence all sequences of reports: billed >= 0, billed <= max(0, end-start) once ended, '
                  'billed non-decreasing unless the report moves the end earlier (an un-ended attempt counts as ending at +infinity) '
                  'or carries activation_timeout, start only moves earlier, end only earlier once a reason is stored; and for every history of '
                  'reports and resource registrations of one attempt the usage the aggregated tables hold per resource is quantity x billed(row) '
                  '(seq_usage_eq), hence never negative (seq_usage_nonneg) and at most quantity x max(0, end-start) once ended (usage_le_span); '
                  'a report that marks an activation timeout leaves no start time and bills nothing (timeout_bills_nothing, timeout_report_usage_zero).')
    level_note = ('Trusted: the SQL->Lean translator (harness/extract/sqltrig.py; cross-checked against the minisql interpreter when it '
                  'is present), the Sql3 model of MySQL NULL/three-valued scalar semantics, MySQL firing BEFORE UPDATE triggers on '
                  'every UPDATE of attempts. Rows are inserted with all-NULL times (add_attempt).')
    rule = ('cases = (old row, proposed new row[, quantities of the attempt_resources rows]) over times {NULL, 0..6} and reasons {NULL, '
            'activation_timeout, completed, …}; 45 % of the proposals have the shape one of the procedures issues (started/creating, heartbeat, '
            'unschedule, deactivate, complete) with an independent clock reading, 70 % of the cases run the trigger trio with 1-3 resources; one '
            'history of 2-9 real driver ops on one attempt (clock readings 1..7 drawn independently per op) per 20 pair cases; '
            'non-trivial = at least one clamp fires, or resources are registered, or a history; distinct by full case')
    trusted = ['harness/extract/sqltrig.py translator (subset: IF/SET over OLD/NEW, integer/string scalars, GREATEST/COALESCE)',
               'Sql3.lean model of MySQL scalar NULL semantics',
               'harness/minisql (SEMANTICS list) executing the verbatim trigger / procedure text; harness/minisql/trigger_eval.py seeding of '
               'the stored row and filler rows of globals/batches/jobs/job_group_self_and_ancestors',
               'harness/batchdb/world.py mapping of history ops to the real driver functions (shared with C01-C10)']
    budget = {'quick': 3000, 'thorough': 40000}
    search_budget = {'quick': 4000, 'thorough': 40000}

    def generate(self, repo):
        f1, trig = sqlsrc.last_definition('TRIGGER', 'attempts_before_update', repo)
        stmts = sqltrig.parse_trigger_body(trig)
        body = sqltrig.emit_row_trigger('attemptsBeforeUpdate', stmts, FIELDS, COLTYPES)
        f2, aau = sqlsrc.last_definition('TRIGGER', 'attempts_after_update', repo)
        diff = sqltrig.parse_expr(find_set_expr(aau, 'msec_diff_rollup'))
        d1 = sqltrig.emit_scalar('msecDiffRollup', diff, ['OLD.start_time', 'OLD.rollup_time', 'NEW.start_time', 'NEW.rollup_time'], COLTYPES)
        f3, arai = sqlsrc.last_definition('TRIGGER', 'attempt_resources_after_insert', repo)
        ins = sqltrig.parse_expr(find_set_expr(arai, 'msec_diff_rollup'))
        d2 = sqltrig.emit_scalar('billedAtInsert', ins, ['cur_start_time', 'cur_rollup_time'], COLTYPES)
        src = f'''import HailVerif.Model.Sql3
/-! GENERATED by harness/props/c03.py from the working tree — do not edit.
  attemptsBeforeUpdate : {f1}
  msecDiffRollup       : {f2}
  billedAtInsert       : {f3}
-/
set_option linter.unusedVariables false
namespace HailVerif.Generated.AttemptsTrigger
open HailVerif

structure Row where
  start_time : Option Int
  rollup_time : Option Int
  end_time : Option Int
  reason : Option String
deriving Repr, DecidableEq

{body}

{d1}

{d2}

end HailVerif.Generated.AttemptsTrigger
'''
        changed = write_if_changed(os.path.join(LEAN, 'HailVerif', 'Generated', 'AttemptsTrigger.lean'), src)
        self._files = (f1, f2, f3)
        return [f'T: attempts_before_update from {f1}, msec_diff_rollup from {f2} and {f3}; generated file {"rewritten" if changed else "unchanged"}']

    # ---- the real SQL, executed ----------------------------------------------------------------------------
    def setup(self, repo):
        self.repo = repo
        self.mini = None
        self.bill = None
        self._hist_cache = {}
        try:
            from ..minisql import trigger_eval  # provided by harness/minisql when built
        except Exception:
            return          # minisql unavailable: the independent AST evaluator below covers the {'old','new'} layer only
        try:
            self.mini = trigger_eval.before_update_evaluator(repo, 'attempts', 'attempts_before_update')
        except Exception:
            self.mini = None
        self.bill = trigger_eval.attempt_billing_evaluator(repo)
        from .. import loader
        loader.install(repo)
        from ..batchdb import world
        self.world = world
        world.World(0, repo).close()     # imports + schema extraction once

    # ---- cases ---------------------------------------------------------------------------------------------
    @staticmethod
    def random_row(rng):
        return [rng.choice(TIMES), rng.choice(TIMES), rng.choice(TIMES), rng.choice(REASONS)]

    @staticmethod
    def proposal(rng, old):
        """a proposed row of the shape one of the procedures issues for the stored row `old`, with its own clock reading"""
        t = rng.choice(TIMES[1:])
        k = rng.choice(['started', 'started', 'creating', 'heartbeat', 'heartbeat', 'unschedule', 'unschedule', 'deactivate', 'complete', 'complete'])
        if k in ('started', 'creating'):        # SET start_time = t, rollup_time = t
            return [t, t, old[2], old[3]]
        if k == 'heartbeat':                    # SET rollup_time = t
            return [old[0], t, old[2], old[3]]
        if k == 'unschedule':                   # SET rollup_time = t, end_time = t, reason = 'cancelled'
            return [old[0], t, t, 'cancelled']
        if k == 'deactivate':                   # SET rollup_time = t, end_time = t, reason = <reason>
            return [old[0], t, t, rng.choice(REASONS[1:])]
        st = rng.choice(TIMES)                  # mark_job_complete: SET start_time = s, rollup_time = e, end_time = e, reason = r
        return [st, t, t, rng.choice(REASONS[1:])]

    def pair_case(self, rng):
        old = self.random_row(rng)
        if rng.random() < 0.5:
            # a stored row the triggers can have produced (rollup <= end), more often than not with a start
            if old[0] is None and rng.random() < 0.6:
                old[0] = rng.choice(TIMES[1:])
            if old[1] is not None and old[2] is not None and old[1] > old[2]:
                old[1] = old[2]
        if rng.random() < 0.45:
            new = self.proposal(rng, old)
        else:
            new = self.random_row(rng)
            # most real updates keep some columns: copy old values with some probability
            for i in range(4):
                if rng.random() < 0.35:
                    new[i] = old[i]
        c = {'old': old, 'new': new}
        if self.bill is not None and rng.random() < 0.7:
            c['res'] = [rng.choice(QUANTITIES) for _ in range(rng.choice([1, 1, 2, 2, 3]))]
        return c

    def hist_case(self, rng):
        t = lambda: rng.randint(1, 7)      # noqa: E731  independent clock readings: the worker's and the driver's clocks are not synchronised
        ops = []
        for _ in range(rng.randint(2, 8)):
            k = rng.choice(['started', 'started', 'started', 'creating', 'heartbeat', 'heartbeat', 'unschedule', 'unschedule',
                            'deactivate', 'complete', 'complete', 'resources'])
            if k in ('started', 'creating'):
                ops.append(f'{k} 1 1 1 1 {t()} 0')
            elif k == 'heartbeat':
                ops.append(f'heartbeat {t()} 0 1:1:1')
            elif k == 'unschedule':
                ops.append(f'unschedule 1 1 1 1 {t()} cancelled 0')
            elif k == 'deactivate':
                # an instance that never activates is the usual way an attempt ends with activation_timeout
                ops.append(f'deactivate 1 {"activation_timeout" if rng.random() < 0.4 else rng.choice(REASONS[1:])} {t()} 0')
            elif k == 'complete':
                st = 'N' if rng.random() < 0.2 else t()
                en = 'N' if rng.random() < 0.1 else t()
                ops.append(f'complete 1 1 1 1 {rng.choice(["Success", "Failed", "Error"])} {st} {en} {rng.choice(REASONS[1:])} 0')
            else:
                ops.append(self.resources_op(rng))
        if rng.random() < 0.85 and not any(o.startswith('addResources') for o in ops[:3]):
            ops.insert(rng.randint(0, min(2, len(ops))), self.resources_op(rng))
        return {'hist': ops}

    @staticmethod
    def resources_op(rng):
        return 'addResources 1 1 1 0 ' + ' '.join(f'{r}:{rng.choice(QUANTITIES)}' for r in rng.sample([1, 2, 3], rng.randint(1, 2)))

    DIRECTED = [
        # worker clock ahead of the driver clock: start reported at 5, the attempt is ended at 3 while resources exist
        {'old': [5, 5, None, None], 'new': [5, 3, 3, 'cancelled'], 'res': [1000, 3840]},
        {'old': [5, 3, 3, 'cancelled'], 'new': [1, 1, 3, 'cancelled'], 'res': [2]},
        {'old': [4, 6, None, None], 'new': [4, 2, 2, 'preempted'], 'res': [3]},
        {'hist': ['started 1 1 1 1 5 0', 'addResources 1 1 1 0 1:1000 2:3840', 'unschedule 1 1 1 1 3 cancelled 0', 'started 1 1 1 1 1 0',
                  'heartbeat 6 0 1:1:1']},
        {'hist': ['addResources 1 1 1 0 1:2', 'started 1 1 1 1 6 0', 'deactivate 1 preempted 4 0', 'complete 1 1 1 1 Failed 2 7 completed 0']},
        # late / duplicate reports carrying a start time reach an attempt that ended with activation_timeout
        {'hist': ['creating 1 1 1 1 1 0', 'addResources 1 1 1 0 1:1000', 'deactivate 1 activation_timeout 4 0', 'creating 1 1 1 1 1 0',
                  'started 1 1 1 1 2 0', 'heartbeat 6 0 1:1:1']},
        {'old': [None, 4, 4, 'activation_timeout'], 'new': [1, 1, 4, 'activation_timeout'], 'res': [1000]},
    ]

    def cases(self, rng, n, tier):
        if self.bill is not None:
            yield from self.DIRECTED
        for i in range(n):
            yield self.pair_case(rng)
            if self.bill is not None and i % 20 == 0:
                yield self.hist_case(rng)

    def search_cases(self, rng, n, hint):
        return self.cases(rng, n, 'thorough')

    @staticmethod
    def enc(v):
        return 'N' if v is None else str(v)

    # ---- history layer: the real procedures --------------------------------------------------------------------
    def run_hist(self, c):
        """[{op, ans, old, new}] with old/new = (row | None, [(resource id, quantity)], {table: {resource id: usage}}) around each op"""
        key = json.dumps(c['hist'])
        if key in self._hist_cache:
            return self._hist_cache[key]
        w = self.world.World(0, self.repo)

        def observe():
            T = w.db.tables
            rows = [r for r in T['attempts'] if r['attempt_id'] == 'att1']
            row = [rows[0][f] for f in FIELDS] if rows else None
            res = sorted((r['deduped_resource_id'], r['quantity']) for r in T['attempt_resources'] if r['attempt_id'] == 'att1')
            usage = {}
            for t in AGG_TABLES:
                u = {}
                for r in T[t]:
                    u[r['resource_id']] = u.get(r['resource_id'], 0) + r['usage']
                usage[t] = u
            return row, res, usage
        steps = []
        orig_tx = w.db.exec_tx

        def tx_spy(st, sess):       # COMMIT / ROLLBACK inside procedures are not in minisql's statement log: add a marker
            if w.db.statement_log is not None:
                w.db.statement_log.append('<' + type(st).__name__ + '>')
            return orig_tx(st, sess)
        w.db.exec_tx = tx_spy
        try:
            for op in PRELUDE:
                if w.apply(op).split()[0] != 'ok':
                    raise MachineryError(f'C03 history prelude: {op} was refused')
            prev = observe()
            for op in c['hist']:
                w.db.statement_log = []
                ans = w.apply(op)
                cur = observe()
                # the statements of the op that UPDATE the attempt's row (att1 is the only attempts row and sits on inst1, so every
                # such statement matches it), in order, with whether they assign `reason`
                # -- and were not rolled back (deactivate_instance on an instance that is not live updates and then ROLLBACKs; an op
                # answered `err` is rolled back by gear's Transaction)
                log = w.db.statement_log
                if '<Rollback>' in log:
                    log = log[len(log) - log[::-1].index('<Rollback>'):]
                if ans.split()[0] == 'err':
                    log = []
                touches = [bool(re.search(r'\breason\s*=', st)) for st in log if TOUCHES_ATTEMPTS.match(st)]
                steps.append({'op': op, 'ans': ans, 'old': prev, 'new': cur, 'touches': touches})
                prev = cur
        except self.world.MachineryFailure as e:
            raise MachineryError(f'C03 history: {e}')
        finally:
            w.close()
        if len(self._hist_cache) > 5000:
            self._hist_cache.clear()
        self._hist_cache[key] = steps
        return steps

    @staticmethod
    def job_usage(obs):
        """usage per resource of the attempt (aggregated_job_resources_v3), in resource id order"""
        _, res, usage = obs
        return [usage['aggregated_job_resources_v3'].get(rid, 0) for rid, _ in res]

    def model_lines(self, c):
        if 'hist' in c:
            lines = []
            for st in self.run_hist(c):
                (r0, res0, _), (r1, res1, _) = st['old'], st['new']
                if r0 is None or r1 is None:
                    raise MachineryError('C03 history: attempt att1 is missing after the prelude')
                if st['op'].startswith('addResources') and not res0:
                    lines.append(f'ins {self.enc(r0[0])} {self.enc(r0[1])} ' + ' '.join(str(q) for _, q in res1))
                else:
                    lines.append(f'delta {self.enc(r0[0])} {self.enc(r0[1])} {self.enc(r1[0])} {self.enc(r1[1])} ' + ' '.join(str(q) for _, q in res0))
            return [ln.rstrip() for ln in lines]
        rows = ' '.join(self.enc(v) for v in c['old'] + c['new'])
        if 'res' in c:
            return ['upd ' + rows, 'bill ' + rows + ' ' + ' '.join(str(q) for q in c['res'])]
        return ['upd ' + rows]

    def impl(self, c):
        if 'hist' in c:
            self._hist_cache.pop(json.dumps(c['hist']), None)
            out = []
            for st in self.run_hist(c):
                if st['op'].startswith('addResources') and not st['old'][1]:
                    out.append(','.join(str(u) for u in self.job_usage(st['new'])))
                else:
                    # resources present before the op (a later addResources of other resources would be billed by the insert trigger,
                    # the generator registers resources once per attempt as add_attempt_resources' callers do)
                    before = dict(zip([rid for rid, _ in st['old'][1]], self.job_usage(st['old'])))
                    after = st['new'][2]['aggregated_job_resources_v3']
                    out.append(','.join(str(after.get(rid, 0) - before[rid]) for rid, _ in st['old'][1]))
            return out
        if 'res' in c:
            row, u0, u1 = self.bill(dict(zip(FIELDS, c['old'])), dict(zip(FIELDS, c['new'])), c['res'])

            def show(u):
                first = u[AGG_TABLES[0]]
                if all(u[t] == first for t in AGG_TABLES):
                    return ','.join(str(x) for x in first)
                return 'tables-differ:' + ';'.join(t + '=' + ','.join(str(x) for x in u[t]) for t in AGG_TABLES)
            return [' '.join(self.enc(row[f]) for f in FIELDS), f'ins={show(u0)} upd={show(u1)}']
        if self.mini is None:
            return self._py_reference(c)
        r = self.mini(dict(zip(FIELDS, c['old'])), dict(zip(FIELDS, c['new'])))
        return [' '.join(self.enc(r[f]) for f in FIELDS)]

    def _py_reference(self, c):
        # only used while minisql is unavailable: direct AST evaluation of the parsed trigger (same parser, independent evaluator)
        from ..extract import sqleval
        if getattr(self, '_stmts', None) is None:
            f1, trig = sqlsrc.last_definition('TRIGGER', 'attempts_before_update')
            self._stmts = sqltrig.parse_trigger_body(trig)
        stmts = self._stmts
        r = sqleval.run_before_update(stmts, dict(zip(FIELDS, c['old'])), dict(zip(FIELDS, c['new'])))
        return [' '.join(self.enc(r[f]) for f in FIELDS)]

    # ---- oracle --------------------------------------------------------------------------------------------------
    @staticmethod
    def billed(row):
        s, r = row[0], row[1]
        return 0 if s is None or r is None else max(0, r - s)

    def step_oracle(self, old, acc, timeout, rollup_null, ctx, marks_timeout=False):
        """the property on one report: `old` stored row, `acc` the row stored afterwards; `marks_timeout`: the (last) UPDATE of the
        report proposes reason activation_timeout -- such a report bills nothing"""
        b0, b1 = self.billed(old), self.billed(acc)
        if b1 < 0:
            return 'billed negative'
        if marks_timeout and (b1 != 0 or acc[0] is not None):
            return (f'a report marking an activation timeout bills nothing, but the accepted row {acc} keeps a start time'
                    f'{" and bills " + str(b1) + " ms" if b1 else ""}: old={old} {ctx}')
        if acc[2] is not None and acc[0] is not None and b1 > max(0, acc[2] - acc[0]):
            return f'billed {b1} exceeds end-start for accepted row {acc}'
        if acc[1] is not None and acc[2] is not None and acc[1] > acc[2]:
            return f'accepted row {acc} has rollup after end'
        end_earlier = acc[2] is not None and (old[2] is None or acc[2] < old[2])
        if b1 < b0 and not (timeout or end_earlier or rollup_null):
            return f'billed decreased {b0} -> {b1} without an earlier end or activation timeout: old={old} {ctx} accepted={acc}'
        if old[0] is not None and not timeout and (acc[0] is None or acc[0] > old[0]):
            return f'start moved later or was erased: old={old} {ctx} accepted={acc}'
        if old[3] is not None:
            same = acc[2] == old[2] and acc[3] == old[3]
            earlier = old[2] is not None and acc[2] is not None and acc[2] < old[2]
            if not (same or earlier):
                return f'end/reason changed after a reason was stored: old={old} {ctx} accepted={acc}'
        return None

    def usage_oracle(self, old, acc, quantities, before, after, timeout, rollup_null, ctx, table='the aggregated tables'):
        """the property on what is actually billed: `before` / `after` = usage recorded per resource around the report.
        The billed duration of the attempt as the billing tables see it is usage / quantity."""
        end_earlier = acc[2] is not None and (old[2] is None or acc[2] < old[2])
        for q, u0, u1 in zip(quantities, before, after):
            if u1 < 0:
                return (f'billed time is negative: {table} hold usage {u1} for a resource of quantity {q} ({u1 / q} ms) '
                        f'after old={old} {ctx} accepted={acc}')
            if u1 != q * self.billed(acc):
                return (f'{table} bill {u1} for a resource of quantity {q}, the stored row {acc} says quantity x billed duration = '
                        f'{q * self.billed(acc)} (old={old} {ctx})')
            if acc[2] is not None and acc[0] is not None and u1 > q * max(0, acc[2] - acc[0]):
                return f'{table} bill {u1 / q} ms, more than end - start of the ended attempt {acc} (old={old} {ctx})'
            if u1 < u0 and not (timeout or end_earlier or rollup_null):
                return (f'usage of a resource of quantity {q} decreased {u0} -> {u1} without an earlier end or activation timeout: '
                        f'old={old} {ctx} accepted={acc}')
        return None

    def oracle(self, c, out):
        if out and out[0].startswith('IMPL-EXC'):
            return out[0]
        if 'hist' in c:
            return self.hist_oracle(c)
        acc = [None if t == 'N' else (t if i == 3 else int(t)) for i, t in enumerate(out[0].split(' '))]
        old, new = c['old'], c['new']
        # the oracle states the step properties for rows satisfying the stored-row invariant (rollup <= end when both set),
        # which every accepted row satisfies; unreachable `old` rows are skipped
        if old[1] is not None and old[2] is not None and old[1] > old[2]:
            return None
        timeout = new[3] == 'activation_timeout'
        rollup_null = new[1] is None   # no statement in the repo proposes a NULL rollup over a non-NULL one except via NULL parameters
        msg = self.step_oracle(old, acc, timeout, rollup_null, f'new={new}', marks_timeout=timeout)
        if msg or 'res' not in c:
            return msg
        m = re.fullmatch(r'ins=([-\d,]*) upd=([-\d,]*)', out[1])
        if not m:
            return f'the four aggregated tables disagree about one attempt: {out[1]} (old={old} new={new} quantities={c["res"]})'
        u0 = [int(x) for x in m.group(1).split(',')]
        u1 = [int(x) for x in m.group(2).split(',')]
        for q, u in zip(c['res'], u0):
            if u < 0:
                return (f'billed time is negative: resources of quantity {q} registered while the stored row is {old} are billed {u} '
                        f'({u / q} ms)')
            if u != q * self.billed(old):
                return (f'resources registered while the stored row is {old}: billed {u} for quantity {q}, quantity x billed duration = '
                        f'{q * self.billed(old)}')
        return self.usage_oracle(old, acc, c['res'], u0, u1, timeout, rollup_null, f'new={new}')

    def hist_oracle(self, c):
        for i, st in enumerate(self.run_hist(c)):
            (old, res0, us0), (acc, res1, us1) = st['old'], st['new']
            words = st['op'].split()
            # the reason each UPDATE of the op proposes: the op's reason parameter if the statement assigns `reason` (deactivate <inst>
            # <reason> …, complete … <reason> <date>, unschedule … cancelled), otherwise the STORED reason (NEW.reason = OLD.reason) --
            # started / creating / heartbeat never assign it, and started / creating / complete first touch the row through
            # add_attempt's `INSERT … ON DUPLICATE KEY UPDATE batch_id = batch_id`.  On an attempt whose stored reason is
            # activation_timeout those UPDATEs are reports that carry activation_timeout.
            param = words[2] if words[0] == 'deactivate' else 'cancelled' if words[0] == 'unschedule' else \
                words[8] if words[0] == 'complete' else None
            stored, proposed = old[3], []
            for assigns in st['touches']:
                proposed.append(param if assigns else stored)
                if assigns:
                    stored = '?'        # what is stored after an assigning UPDATE is only observed if it is the last one
            if '?' in proposed:
                raise MachineryError(f'C03 history: `{st["op"]}` updates the attempt again after assigning its reason; the oracle does not know this shape')
            if not st['touches'] and acc != old:
                raise MachineryError(f'C03 history: `{st["op"]}` changed the attempt row without a recognised UPDATE of attempts')
            timeout = 'activation_timeout' in proposed
            marks_timeout = bool(proposed) and proposed[-1] == 'activation_timeout'
            rollup_null = words[0] == 'complete' and words[7] == 'N'      # mark_job_complete sets rollup_time = end_time = NULL
            ctx = f'op {i + 1} `{st["op"]}`'
            msg = self.step_oracle(old, acc, timeout, rollup_null, ctx, marks_timeout=marks_timeout)
            if msg:
                return msg
            qs = [q for _, q in res1]
            for t in AGG_TABLES:
                before = [us0[t].get(rid, 0) for rid, _ in res1]
                after = [us1[t].get(rid, 0) for rid, _ in res1]
                if not res0:
                    before = [0] * len(res1)
                msg = self.usage_oracle(old, acc, qs, before, after, timeout, rollup_null, ctx, t)
                if msg:
                    return msg
        return None

    def classify(self, c, out):
        if 'hist' in c:
            steps = self.run_hist(c)
            tags = ['layer:history'] + sorted({'hist-op:' + st['op'].split()[0] for st in steps})
            skew = any(st['new'][0][0] is not None and st['new'][0][2] is not None and st['new'][0][2] < st['new'][0][0] for st in steps)
            skew_res = any(st['new'][0][0] is not None and st['new'][0][2] is not None and st['new'][0][2] < st['new'][0][0] and st['new'][1]
                           for st in steps)
            if skew:
                tags.append('hist:end<start')
            if skew_res:
                tags.append('hist:end<start+resources')
            if any(st['new'][1] and self.billed(st['new'][0]) > 0 for st in steps):
                tags.append('hist:billed>0+resources')
            if any(st['old'][0][3] == 'activation_timeout' and st['touches'] and st['op'].split()[0] in ('started', 'creating') for st in steps):
                tags.append('hist:start-report-after-stored-timeout')
            if any(st['old'][0][3] == 'activation_timeout' and st['touches'] for st in steps):
                tags.append('hist:report-after-stored-timeout')
            return (json.dumps(c), tags)
        fired = out[0] != ' '.join(self.enc(v) for v in c['new'])
        tags = ['clamped' if fired else 'passthrough', 'layer:trigger-trio' if 'res' in c else 'layer:before-update-only']
        if c['new'][3] == 'activation_timeout':
            tags.append('pair:report-marks-timeout' + ('+proposes-start' if c['new'][0] is not None else ''))
            if c['old'][3] is not None:
                tags.append('pair:timeout-report-on-ended-attempt')
        acc = out[0].split(' ')
        if len(acc) == 4 and acc[0] != 'N' and acc[2] != 'N' and int(acc[2]) < int(acc[0]):
            tags.append('pair:end<start')
            if 'res' in c:
                tags.append('pair:end<start+resources')
        if 'res' in c and len(out) > 1 and re.search(r'upd=.*[1-9]', out[1]):
            tags.append('pair:billed>0+resources')
        return (json.dumps(c) if fired or 'res' in c else None, tags)

    def shrink(self, c, fails):
        if 'hist' in c:
            return {'hist': generic_shrink_list(c['hist'], lambda ops: fails({'hist': ops}))}
        if 'res' in c and len(c['res']) > 1:
            for q in c['res']:
                if fails({**c, 'res': [q]}):
                    return {**c, 'res': [q]}
        return c

    def extra_coverage(self):
        return {'translator_crosscheck': 'minisql interpreter' if getattr(self, 'mini', None) else 'independent AST evaluator (minisql not available)',
                'billing_layers': 'trigger trio on one attempt + histories through the real procedures (harness/batchdb World)'
                if getattr(self, 'bill', None) else 'unavailable (minisql missing)'}


PROP = C03()

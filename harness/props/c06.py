"""C06 Batch and job-group completion reflect their jobs — E1 family: the real code over minisql vs the Lean model BatchDB, oracle `oracles.c06`."""
from ..batchdb.prop import E1Prop


class C06(E1Prop):
    id = 'C06'
    title = 'Batch and job-group completion reflect their jobs'
    design_ref = 'DESIGN.md §4 C06 (Engine E1)'
    oracle_name = 'c06'
    adversarial_share = 0.0
    nontrivial_tags = ['group-complete', 'commit-reopens']
    level_text = 'Oracle after every op: for every job group, state = complete iff every committed job of the group and its descendants is terminal, n_jobs = number of those jobs, tallies = recount; likewise batches.state / n_jobs via the root; commit of an update with jobs reopens the groups; at the end of every history the real _get_batch/_get_job_group (real SELECTs + batch_record_to_dict / job_group_record_to_dict) report the same and their assertions do not fire. New groups’ ancestor rows = the group + the ancestor chain of the parent its spec names (absolute, or in-update id counted from the update’s first group id), checked at every insertGroups.'
    level_note = ('Partial: the server is harness/minisql (semantics list in trusted_base), every transaction is one atomic step, histories are generated '
                  '(not exhaustive); the Lean model is tied to the code only as far as the compared answers and dumps show. '
                  'Known findings of the unchanged tree are listed in known_findings.json and printed as KNOWN-FINDING.')

    def nontrivial(self, r):
        return any(t in r.tags for t in self.nontrivial_tags)


    def make_history(self, rng):
        from ..batchdb import gen
        return gen.history(rng, knobs={'group_bunches': 0.75})


PROP = C06()

"""C26 Service cache is bounded, fresh and single-flight — correspondence of Cache.step with the real
gear.time_limited_max_size_cache.TimeLimitedMaxSizeCache driven under the deterministic event loop (harness/aloop.py) with
time.monotonic_ns on the virtual clock; the oracle is the property statement evaluated on what the real class did."""
import importlib.util
import json
import os

from .. import aloop, loader
from ..framework import Prop, generic_shrink_list

TICK_NS = 10 ** 9      # one model tick = one virtual second


def pyval(v):
    """the object a load returns for the case's value spec: an int, None, 'S' = '' and 'L' = [] (legitimate falsy results)"""
    return {'S': '', 'L': []}.get(v, v) if isinstance(v, str) else v


def tok(x):
    """canonical token of a value as the model prints it: N = None, '' = 900001, [] = 900002, ints as they are"""
    if x is None:
        return 'N'
    if x == '' and isinstance(x, str):
        return '900001'
    if isinstance(x, list) and x == []:
        return '900002'
    return str(x)


class LoadError(Exception):
    """what a failing load raises"""


class _Sim:
    """reference bookkeeping used ONLY to generate well-formed op lists (who waits, which loads are in flight, what would hit);
    neither the oracle nor the comparison uses it"""

    def __init__(self, L, slots):
        self.L, self.slots, self.t = L, slots, 0
        self.cache = {}      # k -> (v, expiry, seq)
        self.seq = 0
        self.inflight = {}   # k -> [callers]
        self.keys_seen = []

    def waiting(self):
        return sorted(c for ws in self.inflight.values() for c in ws)

    def apply(self, op):
        kind = op[0]
        if kind == 'g':
            r = None
            for o in op[1]:
                r = self.apply(o)
            return r
        if kind == 'l':
            _, c, k = op
            if k not in self.keys_seen:
                self.keys_seen.append(k)
            if k in self.cache and self.cache[k][1] <= self.t:
                del self.cache[k]
            if k in self.cache:
                return 'hit'
            if k in self.inflight:
                self.inflight[k].append(c)
                return 'join'
            self.inflight[k] = [c]
            return 'start'
        if kind == 'ok':
            _, k, v = op
            self.inflight.pop(k)
            self.seq += 1
            self.cache[k] = (v, self.t + self.L, self.seq)
            if len(self.cache) > self.slots:
                old = min(self.cache, key=lambda q: (self.cache[q][1], self.cache[q][2]))
                del self.cache[old]
                return 'evict'
            return 'put'
        if kind == 'fail':
            self.inflight.pop(op[1])
            return 'fail'
        if kind == 'x':
            for ws in self.inflight.values():
                if op[1] in ws:
                    ws.remove(op[1])
            return 'cancel'
        self.t += op[1]
        return 'adv'


class C26(Prop):
    id = 'C26'
    title = 'Service cache is bounded, fresh and single-flight'
    lean_props = ['HailVerif.Props.C26']
    driver = 'Driver/C26.lean'
    engine = 'E2-async'
    design_ref = 'DESIGN.md §4 C26'
    technique = ('Lean 4 proof by induction over op lists of a state-machine model whose steps are the atomic blocks between awaits + '
                 'differential correspondence with the real class under a deterministic asyncio loop with a virtual monotonic clock')
    level_text = ('Theorems for all op lists (all interleavings of lookups by any number of callers, load completions, load failures, caller '
                  'cancellations and clock advances; any capacity and lifetime): after every step at most num_slots entries are cached; a '
                  'value returned from the cache was put by a finished load less than lifetime ago and waiters receive exactly the value '
                  'their load returned; at most one load per key is in flight (loads started = loads ended + [in flight]) and a lookup during '
                  'a load only joins it; a lookup raises only if it was itself cancelled or the load it was waiting for failed; cancelling a '
                  'caller leaves the load and the other waiters alone; several cache instances in one process are a product of independent '
                  'caches (frame property: a block of one instance changes no other; every value an instance returns comes from its own '
                  'load function). The same failure-locality statement is proved FALSE for a model of '
                  'the code before the repair e8ccd243b. The model is tied to the real TimeLimitedMaxSizeCache by comparing (clock, cache '
                  'contents with expiry, loads in flight, who waits for what, loads started and caller outcomes) after every op of random '
                  'and exhaustive small op sequences.')
    level_note = ('partial: the hand-written model agrees with the Python class only as far as the correspondence cases show (<= 3 keys, <= 4 '
                  'concurrent callers, 1-2 slots); asyncio.shield/create_task/Task cancellation semantics are those of CPython 3.12 under the '
                  'deterministic loop, modelled from their documented behaviour; shutdown() is not modelled; prometheus metrics are inert stubs.')
    budget = {'quick': 2500, 'thorough': 30000}
    search_budget = {'quick': 3000, 'thorough': 30000}
    rule = ('case = (lifetime in ticks, num_slots, op sequence) — or several cache instances alive at once (`caches`: own load '
            'function, lifetime and size each; ops addressed `@ j`; equal keys across instances, overlapping loads; the answer line is '
            'the instances\' lines joined) —; lookups are tasks running the real lookup(k); the load function blocks on a '
            'harness gate; op ok/fail opens the gate of the load in flight for that key with a value (an int, None, 0, \'\' or []) / '
            'LoadError; op x cancels a caller '
            'task; op adv moves the virtual clock that time.monotonic_ns reads; op g issues a load completion and one or two lookups in the SAME '
            'turn of the event loop (no loop iteration in between). After every op the loop runs to quiescence and (clock, '
            '_cache/_expiry_time contents, keys whose load function is running, pending callers with their key, loads entered and '
            'caller outcomes during this op) is compared with the model. non-trivial = some lookup joined a load in flight, hit the cache, '
            'met an expired entry or caused an eviction; distinct by full case')
    trusted = ['harness/aloop.py deterministic event loop (real asyncio.SelectorEventLoop with a virtual clock; ready queue never permuted); '
               'time.monotonic_ns patched to that clock',
               'harness/shims/prometheus_async (aio.time just awaits); prometheus_client is an inert stub',
               'cache contents and the internal-consistency invariant are read from the private _cache, _expiry_time and '
               '_keys_by_expiry of the real object']
    assumptions = ['one event loop thread; code is atomic between awaits', 'shutdown() is not called',
                   'the load function itself is not cancelled from outside the cache']

    def setup(self, repo):
        loader.install(repo)
        path = os.path.join(repo, 'gear', 'gear', 'time_limited_max_size_cache.py')
        spec = importlib.util.spec_from_file_location('verif_c26_cache', path)
        mod = importlib.util.module_from_spec(spec)
        spec.loader.exec_module(mod)     # loaded by path so that gear/__init__ (database, auth, ...) is not needed
        self.Cache = mod.TimeLimitedMaxSizeCache

    # ---- generation ----------------------------------------------------------------------------
    def _random_case(self, rng, p_plain=0.7):
        L = rng.choice([1, 2, 2, 3])
        slots = rng.choice([1, 2])
        nkeys = rng.choice([1, 2, 3, 3])
        ncallers = rng.choice([2, 3, 4, 4])
        n = rng.choice([4, 6, 8, 10, 12, 14])
        style = rng.random()
        sim = _Sim(L, slots)
        ops = []
        v = 0
        for _ in range(n):
            waiting = sim.waiting()
            choices = []
            if len(waiting) < ncallers:
                choices += ['l'] * (4 if style < 0.6 else 2)
            if sim.inflight:
                choices += ['ok'] * 3 + ['fail']
            if waiting:
                choices += ['x'] * (1 if style < 0.6 else 3)
            choices += ['adv'] * 2
            if rng.random() < 0.03:
                choices = ['bad']       # an op that is not a behaviour (both sides must answer err)
            kind = rng.choice(choices)
            if kind == 'l':
                c = rng.choice([i for i in range(ncallers) if i not in waiting])
                op = ['l', c, rng.randrange(nkeys)]
            elif kind == 'ok':
                v += 1
                op = ['ok', rng.choice(sorted(sim.inflight)), v if rng.random() < p_plain else rng.choice([None, None, 0, 'S', 'L'])]
            elif kind == 'fail':
                op = ['fail', rng.choice(sorted(sim.inflight))]
            elif kind == 'x':
                op = ['x', rng.choice(waiting) if rng.random() < 0.9 else rng.randrange(ncallers)]
            elif kind == 'adv':
                op = ['adv', rng.choice([1, L, L, max(1, L - 1), L + 1])]
            else:
                free = [k for k in range(nkeys) if k not in sim.inflight]
                if free and rng.random() < 0.7:
                    v += 1
                    ops.append(['ok', rng.choice(free), v] if rng.random() < 0.5 else ['fail', rng.choice(free)])
                elif waiting:
                    ops.append(['l', rng.choice(waiting), rng.randrange(nkeys)])
                continue
            if kind in ('ok', 'fail') and rng.random() < 0.3:
                # the completion and one or two new lookups land in the same turn of the event loop
                free = [i for i in range(ncallers) if i not in waiting]
                rng.shuffle(free)
                sub = [op] + [['l', i, op[1] if rng.random() < 0.7 else rng.randrange(nkeys)] for i in free[:rng.choice([1, 1, 2])]]
                if len(sub) > 1:
                    op = ['g', sub]
            sim.apply(op)
            ops.append(op)
        return {'L': L, 'slots': slots, 'ops': ops}

    def _random_multi_case(self, rng):
        """two or three cache instances alive at once (own loader, lifetime, size), EQUAL keys across them, overlapping loads"""
        m = rng.choice([2, 2, 3])
        cfgs = [[rng.choice([1, 2, 3]), rng.choice([1, 2])] for _ in range(m)]
        nkeys = rng.choice([1, 2, 2])
        ncallers = rng.choice([3, 4, 5])
        sims = [_Sim(l, n) for l, n in cfgs]
        ops = []
        v = 0
        for _ in range(rng.choice([5, 8, 10, 12, 14])):
            waiting = sorted(x for sm in sims for x in sm.waiting())
            j = rng.randrange(m)
            sim = sims[j]
            choices = []
            if len(waiting) < ncallers:
                choices += ['l'] * 4
            if sim.inflight:
                choices += ['ok'] * 3 + ['fail']
            if sim.waiting():
                choices += ['x']
            choices += ['adv']
            kind = rng.choice(choices)
            if kind == 'l':
                # prefer a key that another instance is loading or caching right now
                hot = [k for sm in sims if sm is not sim for k in list(sm.inflight) + list(sm.cache)]
                k = rng.choice(hot) if hot and rng.random() < 0.7 else rng.randrange(nkeys)
                op = ['l', rng.choice([i for i in range(ncallers) if i not in waiting]), k]
            elif kind == 'ok':
                v += 1
                op = ['ok', rng.choice(sorted(sim.inflight)), 100 * (j + 1) + v if rng.random() < 0.85 else None]
                free = [i for i in range(ncallers) if i not in waiting]
                if free and rng.random() < 0.2:
                    op = ['g', [op, ['l', free[0], op[1]]]]
            elif kind == 'fail':
                op = ['fail', rng.choice(sorted(sim.inflight))]
            elif kind == 'x':
                op = ['x', rng.choice(sim.waiting())]
            else:
                dt = rng.choice([1, 1, 2, 3])
                for sm in sims:
                    sm.apply(['adv', dt])
                ops.append(['adv', dt])
                continue
            sim.apply(op)
            ops.append(['@', j, op])
        return {'caches': cfgs, 'L': cfgs[0][0], 'slots': cfgs[0][1], 'ops': ops}

    def _exhaustive(self, L, slots, length, nkeys, ncallers, dts, with_none=False):
        """every well-formed op sequence of exactly `length` ops (callers and keys are interchangeable: a lookup uses the smallest free
        caller id and a key already used or the next fresh one; no two clock advances in a row)"""
        out = []

        def rec(ops):
            if len(ops) == length:
                out.append({'L': L, 'slots': slots, 'ops': [list(o) for o in ops]})
                return
            sim = _Sim(L, slots)
            for o in ops:
                sim.apply(o)
            waiting = sim.waiting()
            if len(waiting) < ncallers:
                c = min(i for i in range(ncallers) if i not in waiting)
                for k in range(min(nkeys, len(sim.keys_seen) + 1)):
                    rec(ops + [['l', c, k]])
            for k in sorted(sim.inflight):
                rec(ops + [['ok', k, len(ops) + 1]])
                if with_none:
                    rec(ops + [['ok', k, None]])
                if len(waiting) < ncallers:      # completion + a lookup of the same key in the same loop turn
                    cf = min(i for i in range(ncallers) if i not in waiting)
                    rec(ops + [['g', [['fail', k], ['l', cf, k]]]])
                    rec(ops + [['g', [['ok', k, len(ops) + 1], ['l', cf, k]]]])
                rec(ops + [['fail', k]])
            for c in waiting:
                rec(ops + [['x', c]])
            if ops and ops[-1][0] != 'adv' and True:
                for dt in dts:
                    rec(ops + [['adv', dt]])
        rec([])
        return out

    def cases(self, rng, n, tier):
        if tier == 'thorough':
            for slots in (1, 2):
                yield from self._exhaustive(2, slots, 6, 3, 4, (1, 2))
                yield from self._exhaustive(2, slots, 5, 3, 4, (1, 2), with_none=True)
        else:
            for slots in (1, 2):
                yield from self._exhaustive(2, slots, 4, 3, 4, (1, 2), with_none=True)
        for i in range(n):
            # a quarter of the cases: almost every load returns None / a falsy value (repeat lookups, evictions and expiries of
            # such entries)
            if i % 5 == 4:
                yield self._random_multi_case(rng)      # several cache instances with equal keys
                continue
            yield self._random_case(rng, 0.15 if i % 4 == 0 else 0.7)

    def search_cases(self, rng, n, hint):
        for slots in (1, 2):
            yield from self._exhaustive(2, slots, 5, 3, 4, (1, 2))
        for i in range(n):
            yield self._random_multi_case(rng) if i % 3 == 0 else self._random_case(rng)

    # ---- model ---------------------------------------------------------------------------------
    @staticmethod
    def _op_line(o):
        return ('ok {} {}'.format(o[1], tok(pyval(o[2]))) if o[0] == 'ok' else
                {'l': 'lookup {} {}', 'fail': 'fail {}', 'x': 'cancel {}', 'adv': 'adv {}'}[o[0]].format(*o[1:]))

    def model_lines(self, c):
        multi = bool(c.get('caches'))
        out = ['reset', ('mcfg ' + ' '.join(f'{l} {n}' for l, n in self._cfgs(c))) if multi else f"cfg {c['L']} {c['slots']}"]
        for o0 in c['ops']:
            j, o = self._addr(o0)
            ln = ('group ' + ' ; '.join(self._op_line(x) for x in o[1])) if o[0] == 'g' else self._op_line(o)
            out.append(ln if (not multi or o[0] == 'adv') else f'at {j} {ln}')
        return out

    # ---- real code -----------------------------------------------------------------------------
    @staticmethod
    def _cfgs(c):
        """[(lifetime, slots), …] of the cache instances of a case (one instance unless the case has `caches`)"""
        return [tuple(x) for x in c['caches']] if c.get('caches') else [(c['L'], c['slots'])]

    @staticmethod
    def _addr(op):
        """(instance, op) — ops of multi-instance cases are addressed `['@', j, op]`; `adv` is global"""
        return (op[1], op[2]) if op[0] == '@' else (0, op)

    def impl(self, c):
        s = aloop.Sched()
        t0 = s.loop._vtime
        # a load that fails after all its callers were cancelled leaves a task whose exception nobody retrieves; asyncio reports
        # that through the loop's exception handler when the task is collected — not an observable of this property
        s.loop.set_exception_handler(lambda loop, ctx: None)
        cfgs = self._cfgs(c)
        m = len(cfgs)
        try:
            with aloop.patch_time(s.loop):
                import time
                t0ns = time.monotonic_ns()
                running = [dict() for _ in range(m)]    # per instance: k -> [n, …] invocations of ITS load function inside the body
                count = [dict() for _ in range(m)]
                started = [[] for _ in range(m)]

                def make_load(j):
                    async def load(k):
                        n = count[j][k] = count[j].get(k, 0) + 1
                        running[j].setdefault(k, []).append(n)
                        started[j].append(k)
                        try:
                            return await s.gate(('load', j, k, n))
                        finally:
                            running[j][k].remove(n)
                    return load

                caches = [self.Cache(make_load(j), cfgs[j][0] * TICK_NS, cfgs[j][1], f'verif{j}') for j in range(m)]
                callers = {}     # c -> [task, key, state, instance] of the latest lookup of caller id c; state: new | waiting | done

                def consistency(cache):
                    """the internal-consistency invariant of the real object: the value dict, the expiry dict and the expiry index
                    hold the same keys, and the index is sorted by expiry"""
                    try:
                        kc, ke, ki = set(cache._cache), set(cache._expiry_time), list(cache._keys_by_expiry)
                        if not (kc == ke == set(ki)) or len(ki) != len(kc):
                            return f'BAD-keys:{sorted(kc)}/{sorted(ke)}/{ki}'.replace(' ', '').replace(',', '|')
                        exps = [cache._expiry_time[k] for k in ki]
                        if exps != sorted(exps):
                            return f'BAD-order:{ki}'.replace(' ', '').replace(',', '|')
                        return 'ok'
                    except Exception as e:     # noqa: the index itself is broken
                        return f'BAD-{type(e).__name__}'

                def segment(j):
                    cache = caches[j]
                    ents = ','.join(f'{k}:{tok(cache._cache[k])}:{(cache._expiry_time[k] - t0ns) // TICK_NS}' for k in sorted(cache._cache))
                    f = ','.join(str(k) for k in sorted(k for k, ns in running[j].items() for _ in ns))
                    w = ','.join(f'{i}:{r[1]}' for i, r in sorted(callers.items()) if r[3] == j and not r[0].done())
                    ev = [f'start:{k}' for k in sorted(started[j])]
                    del started[j][:]
                    for i, r in sorted(callers.items()):
                        t, _k, state, inst = r
                        if state == 'done' or inst != j:
                            continue
                        if not t.done():
                            if state == 'new':
                                r[2] = 'waiting'
                                ev.append(f'wait:{i}')
                            continue
                        r[2] = 'done'
                        if t.cancelled():
                            ev.append(f'cancel:{i}')
                        elif t.exception() is not None:
                            e = t.exception()
                            ev.append(f'fail:{i}' if isinstance(e, LoadError) else f'exc:{i}:{type(e).__name__}')
                        else:
                            ev.append(f"{'got' if state == 'waiting' else 'hit'}:{i}:{tok(t.result())}")
                    return f"t={int(s.loop._vtime - t0)} c={ents} f={f} w={w} i={consistency(cache)} e={','.join(ev)}"

                def line():
                    return ' || '.join(segment(j) for j in range(m))

                def busy(i):
                    return i in callers and not callers[i][0].done()

                out = ['ok', line()]
                for op0 in c['ops']:
                    j, op = self._addr(op0)
                    kind = op[0]
                    if not 0 <= j < m:
                        out.append('err')
                        continue
                    if kind == 'g':
                        # several actions in ONE turn of the event loop: a load completion is delivered and lookups are issued
                        # before the loop runs again (so before any done-callback of the finished load task has run)
                        sub = op[1]
                        bad = False
                        for o in sub:
                            if o[0] == 'l':
                                bad = bad or busy(o[1])
                            elif o[0] in ('ok', 'fail'):
                                bad = bad or not running[j].get(o[1])
                            else:
                                bad = True
                        if bad or len({o[1] for o in sub if o[0] == 'l'}) < sum(1 for o in sub if o[0] == 'l') \
                                or len({o[1] for o in sub if o[0] != 'l'}) < sum(1 for o in sub if o[0] != 'l'):
                            out.append('err')
                            continue
                        for o in sub:
                            if o[0] == 'l':
                                callers[o[1]] = [s.spawn(('caller', o[1], len(out)), caches[j].lookup(o[2]), settle=False), o[2], 'new', j]
                            elif o[0] == 'ok':
                                s.open(('load', j, o[1], running[j][o[1]][0]), value=pyval(o[2]), settle=False)
                            else:
                                s.open(('load', j, o[1], running[j][o[1]][0]), exc=LoadError(f'load of {o[1]} failed'), settle=False)
                        s.settle()
                        out.append(line())
                        continue
                    if kind == 'l':
                        _, i, k = op
                        if busy(i):
                            out.append('err')
                            continue
                        callers[i] = [s.spawn(('caller', i, len(out)), caches[j].lookup(k)), k, 'new', j]
                    elif kind in ('ok', 'fail'):
                        k = op[1]
                        if not running[j].get(k):
                            out.append('err')
                            continue
                        n = running[j][k][0]
                        if kind == 'ok':
                            s.open(('load', j, k, n), value=pyval(op[2]))
                        else:
                            s.open(('load', j, k, n), exc=LoadError(f'load of {k} failed'))
                    elif kind == 'x':
                        i = op[1]
                        if busy(i) and callers[i][3] == j:
                            callers[i][0].cancel()
                        s.settle()
                    else:
                        s.advance(op[1])
                    out.append(line())
                return out
        finally:
            s.close()

    # ---- the property on the real behaviour -------------------------------------------------------
    @staticmethod
    def _parse(ln):
        d = {}
        for tok in ln.split(' '):
            k, _, v = tok.partition('=')
            d[k] = [x for x in v.split(',') if x != '']
        return d

    def _walk(self, c, out):
        """per op: (index, op, parsed line or None); everything from the REAL output"""
        for k, (op, ln) in enumerate(zip(c['ops'], out[2:])):
            yield k, self._addr(op)[1], (None if ln == 'err' else self._parse(ln.split(' || ')[self._addr(op)[0]] if ' || ' in ln else ln))

    def oracle(self, c, out):
        if out and out[0].startswith('IMPL-EXC'):
            return out[0]
        cfgs = self._cfgs(c)
        for j, (L, slots) in enumerate(cfgs):
            # the property per cache instance, on ITS part of every line: ops addressed to another instance must leave it alone
            seq = []
            prev = None
            for idx, (op0, ln) in enumerate(zip(c['ops'], out[2:])):
                if ln == 'err':
                    continue
                segs = ln.split(' || ')
                if len(segs) != len(cfgs):
                    return f'after op {idx}: malformed line {ln!r}'
                d = self._parse(segs[j])
                jj, op = self._addr(op0)
                mine = jj == j or op[0] == 'adv'
                if not mine:
                    if d['e'] or (prev is not None and (d['c'], d['f'], d['w']) != (prev['c'], prev['f'], prev['w'])):
                        return (f'after op {idx} {op0}: cache instance {j} changed ({segs[j]}) although the op was addressed to instance '
                                f'{jj}: the instances of a process must not share state (every value an instance returns comes from '
                                f'its OWN load function)')
                else:
                    seq.append((idx, op, d, f' [instance {j}]' if len(cfgs) > 1 else ''))
                prev = d
            msg = self._oracle_instance(L, slots, seq)
            if msg:
                return msg
        return None

    def _oracle_instance(self, L, slots, seq):
        t = 0
        awaiting = {}        # caller -> key of the lookup it is suspended in
        puts = {}            # key -> [(value, time)] values the load function returned
        for idx, op, d, tag in seq:
            at = f'after op {idx} {op}{tag}'
            sub = op[1] if op[0] == 'g' else [op]        # the atomic blocks of this loop turn, in the order they were issued
            looks = {o[1]: o[2] for o in sub if o[0] == 'l'}                     # caller -> key of a lookup issued in this turn
            oks = {o[1]: tok(pyval(o[2])) for o in sub if o[0] == 'ok'}          # key -> value of a load that finished now
            fails = {o[1] for o in sub if o[0] == 'fail'}
            cancels = {o[1] for o in sub if o[0] == 'x'}
            for o in sub:
                if o[0] == 'adv':
                    t += o[1]
            for k_, v_ in oks.items():
                puts.setdefault(k_, []).append((v_, t))
            # internally consistent
            if d['i'] != ['ok']:
                return f"{at}: the cache's internal structures disagree: {d['i']} (keys of _cache / _expiry_time / _keys_by_expiry, order by expiry)"
            # bounded
            if len(d['c']) > slots:
                return f"{at}: cache holds {len(d['c'])} entries {d['c']} > num_slots {slots}"
            # single flight: `f` lists the keys whose load function is running, once per running invocation
            if len(set(d['f'])) < len(d['f']):
                return f"{at}: two loads of the same key are in flight at once: {d['f']} (single flight)"
            new_waits = {}
            for ev in d['e']:
                p = ev.split(':')
                if p[0] == 'wait':
                    new_waits[int(p[1])] = looks.get(int(p[1]))
                elif p[0] == 'hit':
                    i, v = int(p[1]), p[2]
                    k = looks.get(i)
                    if not any(v0 == v and 0 <= t - t0 < L for v0, t0 in puts.get(k, [])):
                        return (f'{at}: lookup of key {k} returned cached value {v} at time {t}; loads of that key returned '
                                f'(value, time) {puts.get(k, [])}, lifetime {L} (stale or never loaded)')
                elif p[0] == 'got':
                    i, v = int(p[1]), p[2]
                    k = awaiting.pop(i, None)
                    if k is None or oks.get(k) != v:
                        return (f'{at}: caller {i} (waiting since an earlier turn for key {k}) received {v}, which is not the value a '
                                f'load of that key returned in this turn; a lookup must wait for a load that is still in flight when '
                                f'it begins, never observe the outcome of one that completed before')
                elif p[0] == 'fail':
                    i = int(p[1])
                    k = awaiting.pop(i, None)
                    if k is None or k not in fails:
                        return (f'{at}: caller {i} raised the load error although it was not waiting for a load that failed in this '
                                f'turn (waiting for: {k}); a lookup that begins after a load has finished must start or join a load '
                                f'that is still in flight, never re-raise the stale error')
                elif p[0] == 'cancel':
                    i = int(p[1])
                    k = awaiting.pop(i, None)
                    if i not in cancels:
                        return (f'{at}: caller {i} (waiting for key {k}) raised CancelledError although it was not cancelled '
                                f'(failure locality)')
                elif p[0] == 'exc':
                    return f'{at}: lookup of caller {p[1]} raised {p[2]} although no load failed and it was not cancelled'
            awaiting.update(new_waits)
        return None

    def classify(self, c, out):
        cf = self._cfgs(c)
        tags = [f"len={min(len(c['ops']), 14)}", f"slots={cf[0][1]}", f"L={cf[0][0]}", f"instances={len(cf)}"]
        seen = set()
        if len(cf) > 1:
            for ln in out[2:]:
                if ln != 'err' and ' || ' in ln:
                    fs = [set(self._parse(x)['f']) for x in ln.split(' || ')]
                    if any(fs[a] & fs[b] for a in range(len(fs)) for b in range(a + 1, len(fs))):
                        seen.add('equal-key-loading-in-two-instances')
                    cs = [{x.split(':')[0] for x in self._parse(y)['c']} for y in ln.split(' || ')]
                    if any(cs[a] & cs[b] for a in range(len(cs)) for b in range(a + 1, len(cs))):
                        seen.add('equal-key-cached-in-two-instances')
        prev = []
        for idx, op, d in self._walk(c, out):
            if d is None:
                seen.add('not-a-behaviour(err)')
                continue
            kinds = {e.split(':')[0] for e in d['e']}
            if op[0] == 'g':
                seen.add('same-turn:' + '+'.join(o[0] for o in op[1]) + ('/same-key' if len({o[1] if o[0] != 'l' else o[2] for o in op[1]}) == 1 else ''))
                prev = d['c']
                continue
            if op[0] == 'l':
                if 'hit' in kinds:
                    seen.add('hit')
                elif 'start' in kinds:
                    seen.add('miss-start')
                    if any(x.split(':')[0] == str(op[2]) for x in prev) and not any(x.split(':')[0] == str(op[2]) for x in d['c']):
                        seen.add('expired-on-lookup')
                elif 'wait' in kinds:
                    seen.add('join-inflight')
            if op[0] == 'ok':
                if len(d['c']) <= len(prev) and not any(x.split(':')[0] == str(op[1]) for x in prev):
                    seen.add('evict')
                    exps = {x.split(':')[2] for x in prev}
                    if len(exps) < len(prev) or (prev and str(int(d['t'][0]) + c['L']) in exps):
                        seen.add('evict-with-equal-expiry')
                seen.add('load-ok-%dwaiters' % min(2, sum(1 for e in d['e'] if e.startswith('got'))))
            if op[0] == 'fail':
                seen.add('load-fail-%dwaiters' % min(2, sum(1 for e in d['e'] if e.startswith('fail'))))
            if op[0] == 'x' and 'cancel' in kinds:
                seen.add('cancel-with-other-waiter' if any(w.split(':')[1] == str(awaited) for w in d['w']
                                                            for awaited in [self._key_of(c, idx, op[1])]) else 'cancel-last-waiter')
            prev = d['c']
        tags += sorted(seen)
        nontrivial = seen & {'hit', 'join-inflight', 'evict', 'expired-on-lookup'}
        return (json.dumps(c, sort_keys=True) if nontrivial else None, tags)

    @staticmethod
    def _key_of(c, idx, caller):
        for op in reversed(c['ops'][:idx]):
            if op[0] == 'l' and op[1] == caller:
                return op[2]
        return None

    def finding_key(self, c, msg):
        return json.dumps(c, sort_keys=True)

    def shrink(self, c, fails):
        if not fails(c):
            return c
        ops = generic_shrink_list(c['ops'], lambda ops: fails(dict(c, ops=ops)))
        return dict(c, ops=ops)


PROP = C26()

"""C10 Instance free-core accounting is exact — E1 family: the real code over minisql vs the Lean model BatchDB, oracle `oracles.c10`."""
from ..batchdb import actors
from ..batchdb.prop import ActorCasesMixin, E1Prop


class C10(ActorCasesMixin, E1Prop):
    actor_share = 0.3
    actor_flavour = 'c10'
    id = 'C10'
    title = 'Instance free-core accounting is exact'
    design_ref = 'DESIGN.md §4 C10 (Engine E1)'
    oracle_name = 'c10'
    adversarial_share = 0.0
    nontrivial_tags = ['instance-with-open-attempts']
    level_text = 'Oracle after every op: for every pending/active instance free_cores_mcpu = cores_mcpu - sum of cores of attempts on it without end_time; inactive/deleted => all free; the in-memory mirror (real Instance objects fed the returned delta_cores_mcpu as the driver does) equals the database value. A third of the cases run the REAL driver.job functions (schedule_job incl. its worker POST, mark_job_started / mark_job_complete, unschedule_job, Instance.deactivate) through the real scheduler / canceller loops with real Instance objects: after every pass, for every instance, the in-memory Instance.free_cores_mcpu = the database row = total minus un-ended attempts, including preemption and the job_started report arriving while schedule_job’s POST is in flight.'
    level_note = ('Partial: the server is harness/minisql (semantics list in trusted_base), every transaction is one atomic step, histories are generated '
                  '(not exhaustive); the Lean model is tied to the code only as far as the compared answers and dumps show. '
                  'Known findings of the unchanged tree are listed in known_findings.json and printed as KNOWN-FINDING.')

    def nontrivial(self, r):
        return any(t in r.tags for t in self.nontrivial_tags)


    def make_history(self, rng):
        from ..batchdb import gen
        return gen.history(rng, special=0.2, weights={'dead-instance-attempt': 6.0, 'late-schedule': 2.0})


    def actor_checks(self):
        return ([lambda w, before, after: actors.free_cores(w, after)], [lambda w, v: actors.free_cores(w, v)])


PROP = C10()

"""C10 Instance free-core accounting is exact — E1 family: the real code over minisql vs the Lean model BatchDB, oracle `oracles.c10`."""
from ..batchdb.prop import E1Prop


class C10(E1Prop):
    id = 'C10'
    title = 'Instance free-core accounting is exact'
    design_ref = 'DESIGN.md §4 C10 (Engine E1)'
    oracle_name = 'c10'
    adversarial_share = 0.0
    nontrivial_tags = ['instance-with-open-attempts']
    level_text = 'Oracle after every op: for every pending/active instance free_cores_mcpu = cores_mcpu - sum of cores of attempts on it without end_time; inactive/deleted => all free; the in-memory mirror (real Instance objects fed the returned delta_cores_mcpu as the driver does) equals the database value.'
    level_note = ('Partial: the server is harness/minisql (semantics list in trusted_base), every transaction is one atomic step, histories are generated '
                  '(not exhaustive); the Lean model is tied to the code only as far as the compared answers and dumps show. '
                  'Known findings of the unchanged tree are listed in known_findings.json and printed as KNOWN-FINDING.')

    def nontrivial(self, r):
        return any(t in r.tags for t in self.nontrivial_tags)


    def make_history(self, rng):
        from ..batchdb import gen
        return gen.history(rng, special=0.2, weights={'dead-instance-attempt': 6.0, 'late-schedule': 2.0})


PROP = C10()

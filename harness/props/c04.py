"""C04 Jobs follow the lifecycle and complete at most once — E1 family: the real code over minisql vs the Lean model BatchDB, oracle `oracles.c04`."""
from ..batchdb.prop import E1Prop


class C04(E1Prop):
    id = 'C04'
    title = 'Jobs follow the lifecycle and complete at most once'
    design_ref = 'DESIGN.md §4 C04 (Engine E1)'
    oracle_name = 'c04'
    adversarial_share = 0.0
    nontrivial_tags = ['duplicate-complete', 'stale-attempt-complete', 'Running->Ready']
    level_text = 'Oracle after every op: every job row moves only along Pending->Ready->{Creating,Running}->terminal with Ready/Creating/Running->terminal and Creating/Running->Ready allowed, terminal absorbing, Pending never starts or completes; n_completed/n_succeeded/n_failed/n_cancelled of every group equal the recount of terminal jobs in the group and its descendants (duplicated, stale-attempt and late reports included). A job becomes Running / Creating only under an attempt on a live instance (active; pending for Creating).'
    level_note = ('Partial: the server is harness/minisql (semantics list in trusted_base), every transaction is one atomic step, histories are generated '
                  '(not exhaustive); the Lean model is tied to the code only as far as the compared answers and dumps show. '
                  'Known findings of the unchanged tree are listed in known_findings.json and printed as KNOWN-FINDING.')

    def nontrivial(self, r):
        return any(t in r.tags for t in self.nontrivial_tags)


    def make_history(self, rng):
        from ..batchdb import gen
        return gen.history(rng, special=0.25, weights={'late-unschedule': 3.0, 'orphan': 3.0, 'unschedule-orphan': 5.0, 'late-schedule': 4.0, 'jp-timeout': 4.0, 'late-creating': 8.0, 'deactivate-at-end-time': 5.0}, knobs={'jp_jobs': 0.3})


PROP = C04()

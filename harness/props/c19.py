"""C19 Client spec bunching preserves order and limits — correspondence of Bunch.createBunches with the real
hailtop.batch_client.aioclient.Batch._create_bunches."""
import asyncio
import json
import random
import re

from .. import loader
from ..framework import Prop, generic_shrink_list


class C19(Prop):
    id = 'C19'
    lean_props = ['HailVerif.Props.C19']
    driver = 'Driver/C19.lean'
    engine = 'E3-pure'
    design_ref = 'DESIGN.md §4 C19'
    technique = 'Lean 4 proof by induction over the spec list (loop invariant) + differential correspondence with the real _create_bunches'
    level_text = ('Theorems for all spec lists, size functions and limits: concatenation of bunches = groups ++ jobs, every bunch < byte limit, '
                  '<= count limit, non-empty, accepted iff limits positive and every spec below the byte limit. Caller level (state machine of '
                  'the pending-spec buffers of aioclient.Batch): every submit posts exactly the pending specs and resets all buffers; for any '
                  'script of creations and submits each spec is posted exactly once, in creation order; announced counts equal posted counts. '
                  'The models are tied to the real Batch._create_bunches by differential runs on boundary-directed size lists and to the real '
                  'Batch.create_job / create_job_group / submit (recording client) by multi-submit scripts on every run.')
    level_note = ('Trusted: Lean kernel; hand-written model Bunch.createBunches agrees with the Python loop only as far as the correspondence '
                  'cases show; orjson replaced by a json shim (only byte length is read).')
    budget = {'quick': 4000, 'thorough': 120000}
    search_budget = {'quick': 20000, 'thorough': 200000}
    rule = ('pure case = (maxBytes, maxN, job-group spec sizes, job spec sizes); specs are real JSON dicts whose orjson size is the '
            'wanted size; sizes are random and boundary-directed (running sum = maxBytes-1 / maxBytes, bunch length = maxN); '
            'in 45% of the cases the padding text is non-ASCII (2-, 3-, 4-byte UTF-8 characters, mixed), sizes always mean BYTES of the real '
            'serialisation and the byte-limit oracle measures the posted bytes; non-trivial = accepted input producing >= 2 bunches; a second stream uses realistic job-group specs (job_group_id, in_update_parent_id / '
            'absolute_parent_id) of nested groups whose parent ids are NOT in sorted order. submits case = a REAL aioclient.Batch whose client is a recorder: '
            '1-3 rounds, each creating job groups and jobs (interleaved, padded attributes) through create_job_group / create_job and then '
            'calling submit(max_bunch_bytesize, max_bunch_size) — job groups are also NESTED (sub-group of an earlier group of the same round or of '
            'a submitted round, per-sample group/sub-group loops) and jobs created inside groups; observed per submit: route (create-fast / update-fast / create+bunches+commit), '
            'announced n_job_groups / n_jobs, the uids and byte totals of every posted bunch; oracle: the posted job groups / jobs are exactly '
            'those created since the previous successful submit, in order, announced counts equal, limits kept, nothing sent when nothing '
            'is pending. In 40% of the scripts one request of a submit (the k-th POST / the commit PATCH) is answered with an error (413 / '
            'connection reset); the script continues on the same Batch (more specs, other limits, submit again): the failed attempt may '
            'only have posted pending specs under its own limits, and the retry must post exactly the pending specs under ITS limits. '
            'distinct by full case')
    trusted = ['orjson shim (json.dumps(..., separators=(",",":")).encode()): the algorithm only reads the byte length']
    assumptions = ['spec byte sizes are those of the shimmed orjson.dumps']

    def setup(self, repo):
        loader.install(repo)
        import hailtop.batch_client.aioclient as ac
        self.ac = ac
        self.fn = ac.Batch._create_bunches

    # non-ASCII text as orjson puts it on the wire (raw UTF-8): 2-, 3- and 4-byte characters
    UNI = {2: '\u00e9', 3: '\u4e2d', 4: '\U0001f9ec'}

    @classmethod
    def filler(cls, n_bytes, uni, idx=0):
        """text of exactly n_bytes UTF-8 bytes; uni = None/0 (ASCII), 2, 3, 4 (characters of that width) or 'mix'"""
        out = []
        left = n_bytes
        k = idx
        while uni and left > 0:
            w = uni if uni != 'mix' else (2, 3, 4, 1)[k % 4]
            k += 1
            if w == 1 or w > left:
                break
            out.append(cls.UNI[w])
            left -= w
            if uni == 'mix' and k % 4 == 0 and left:
                out.append('x')
                left -= 1
        return ''.join(out) + 'x' * left

    @staticmethod
    def true_bytes(spec):
        """the bytes the client really serialises for a spec (orjson: compact separators, raw UTF-8)"""
        return len(json.dumps(spec, separators=(',', ':'), ensure_ascii=False).encode('utf-8'))

    # a spec whose serialized size is exactly n BYTES (n >= 8):  {"i":K,"p":"…"}
    @classmethod
    def spec(cls, idx, n, uni=None):
        base = {'i': idx, 'p': ''}
        k = cls.true_bytes(base)
        assert n >= k, (n, k)
        base['p'] = cls.filler(n - k, uni, idx)
        assert cls.true_bytes(base) == n
        return base

    MIN = 16  # smallest spec size used (index up to 4 digits)

    # a job-group spec as `_create_job_group` builds it (job_group_id, in_update_parent_id / absolute_parent_id) whose serialized size is n
    @classmethod
    def group_spec(cls, idx, n, gid, parent, uni=None):
        base = {'job_group_id': gid, 'i': idx, 'p': ''}
        if parent >= 0:
            base['in_update_parent_id'] = parent          # parent created in this update (0 = the root of a new batch)
        else:
            base['absolute_parent_id'] = -parent - 1      # parent already submitted
        k = cls.true_bytes(base)
        assert n >= k, (n, k)
        base['p'] = cls.filler(n - k, uni, idx)
        assert cls.true_bytes(base) == n
        return base

    MIN_G = 72  # smallest realistic job-group spec (ids up to 3 digits)

    def _nested_cases(self, rng, n):
        """pure cases whose job groups are NESTED the way a per-sample loop creates them (group, sub-group, group, sub-group, …):
        the in-update parent ids are not in sorted order"""
        for _ in range(n):
            max_n = rng.choice([1, 2, 3, 4, 5, 8, 64])
            max_bytes = rng.choice([80, 100, 150, 230, 400, 1000, 10 ** 6])
            ng = rng.choice([1, 2, 3, 4, 6, 9, 14])
            shape = rng.random()
            parents = []
            for g in range(1, ng + 1):
                if shape < 0.5:
                    parents.append(0 if g % 2 == 1 else g - 1)              # sample group, its sub-group, next sample group, …
                elif shape < 0.8:
                    parents.append(rng.choice([0, 0] + list(range(1, g))))  # random forest, parents always earlier
                elif shape < 0.9:
                    parents.append(-rng.randint(1, 5))                      # children of already submitted groups
                else:
                    parents.append(0)
            gsizes = [max(self.MIN_G, min(max_bytes - 1, rng.choice([self.MIN_G, self.MIN_G + 3, 90, 120]))) for _ in range(ng)]
            jsizes = [rng.randint(self.MIN, max(self.MIN, min(max_bytes - 1, self.MIN + 40))) for _ in range(rng.choice([0, 1, 3, 7]))]
            case = {'maxBytes': max_bytes, 'maxN': max_n, 'groups': gsizes, 'jobs': jsizes, 'gparents': parents}
            if rng.random() < 0.45:
                case['uni'] = rng.choice([2, 3, 4, 'mix', 'mix'])
            yield case

    def cases(self, rng, n, tier):
        for _ in range(n):
            mode = rng.random()
            max_n = rng.choice([1, 2, 3, 4, 5, 8, 64])
            max_bytes = rng.choice([17, 18, 20, 33, 40, 64, 100, 256, 1000])
            cnt = rng.choice([0, 1, 2, 3, 5, 8, 13, 21, 40])
            sizes = []
            run = 0
            for _i in range(cnt):
                r = rng.random()
                if r < 0.25 and max_bytes - 1 - run >= self.MIN:
                    s = max_bytes - 1 - run        # exactly fills the bunch (sum = maxBytes-1)
                elif r < 0.4 and max_bytes - run >= self.MIN:
                    s = max_bytes - run            # sum = maxBytes: must not fit
                elif r < 0.45:
                    s = max_bytes - 1              # largest legal spec
                elif r < 0.47 and mode < 0.3:
                    s = max_bytes + rng.choice([0, 1, 5])  # illegal (assert)
                else:
                    s = rng.randint(self.MIN, max(self.MIN, min(max_bytes - 1, self.MIN + 30)))
                s = max(s, self.MIN)
                sizes.append(s)
                run = run + s if run + s < max_bytes else s
            ng = rng.randint(0, len(sizes))
            if mode > 0.97:
                max_n = 0 if rng.random() < 0.5 else max_n
                max_bytes = 0 if max_n else max_bytes
            case = {'maxBytes': max_bytes, 'maxN': max_n, 'groups': sizes[:ng], 'jobs': sizes[ng:]}
            if rng.random() < 0.45:
                case['uni'] = rng.choice([2, 3, 4, 'mix', 'mix'])      # the padding text is non-ASCII: characters != bytes
            yield case
        yield from self._nested_cases(rng, max(300, n // 6))
        for _ in range(max(200, n // 8)):
            yield self._submits_case(rng)

    # ---- caller level: a real Batch object submitted several times ---------------------------------------------------
    def _submits_case(self, rng):
        rounds = []
        n_groups = 0
        last_was_root_group = False
        for _r in range(rng.choice([1, 2, 2, 3, 3])):
            ops = []
            shape = rng.random()
            nest = rng.random()
            uni_round = rng.random() < 0.45
            for _i in range(rng.choice([0, 1, 2, 3, 4, 6, 9])):
                if shape < 0.2:
                    kind = 'j'
                elif shape < 0.3:
                    kind = 'g'
                else:
                    kind = rng.choice('gjj')
                op = [kind, rng.choice([0, 0, 0, 1, 7, 40, 200])]
                if uni_round and op[1]:
                    op[1] = [op[1] * rng.choice([1, 2]), rng.choice([2, 3, 4, 'mix'])]
                # parent job group: None = the root; else the index (over the whole case) of an earlier job group — a group of this
                # round (in_update_parent_id) or of an earlier, already submitted round (absolute_parent_id)
                if n_groups and nest < 0.75:
                    if kind == 'g':
                        # per-sample loop: group, its sub-group, group, its sub-group, … / or a random earlier group
                        ref = (n_groups - 1 if last_was_root_group else None) if nest < 0.4 else rng.choice([None] + list(range(n_groups)))
                    else:
                        ref = rng.choice([None, n_groups - 1, rng.randrange(n_groups)])
                    if ref is not None:
                        op.append(ref)
                if kind == 'g':
                    last_was_root_group = len(op) == 2
                    n_groups += 1
                ops.append(op)
            max_bytes = rng.choice([10 ** 6, 2000, 900, 520, 330] if uni_round else [10 ** 6, 10 ** 6, 2000, 900, 520, 330])
            if rng.random() < 0.04:
                max_bytes = 250                    # below the size of a job spec: the assertion of _create_bunches fires
            rounds.append({'maxBytes': max_bytes, 'maxN': rng.choice([1, 2, 3, 5, 1024, 1024]), 'ops': ops})
        if rng.random() < 0.4:
            # a request of one submit is answered with an error (413 / connection reset); the script goes on with the same Batch:
            # more specs, OTHER limits, submit again
            i = rng.randrange(len(rounds))
            rounds[i]['fail'] = rng.choice([1, 1, 2, 2, 3, 4, 6])
            if rng.random() < 0.3 and i + 1 < len(rounds):
                rounds[i + 1]['fail'] = rng.choice([1, 2, 3])
            retry = {'maxBytes': rng.choice([10 ** 6, 2000, 900, 600]), 'maxN': rng.choice([1, 2, 3, 5, 1024]),
                     'ops': [[rng.choice('gjj'), rng.choice([0, 0, 7, 40])] for _ in range(rng.choice([0, 0, 1, 2]))]}
            rounds.insert(i + 1, retry)
            if rounds[i]['maxN'] <= retry['maxN'] and rng.random() < 0.7:
                rounds[i]['maxN'], retry['maxN'] = rng.choice([5, 1024]), rng.choice([1, 2, 3])     # the retry asks for smaller bunches
        return {'k': 'submits', 'rounds': rounds}

    class InjectedHttpError(Exception):
        """what the transport raises for an error status (stands in for aiohttp.ClientResponseError)"""

    class _Resp:
        def __init__(self, payload):
            self.payload = payload

        async def json(self):
            return self.payload

    class _Recorder:
        """stands in for BatchClient: records every request, answers like the server would"""
        billing_project = 'verif'

        def __init__(self):
            self.posts = []
            self.n_jobs = 0
            self.n_groups = 0
            self.pending = [0, 0]
            self.fail_at = None         # the k-th request (1-based) of the current submit is answered with an error
            self.n_requests = 0
            self.injected = False

        def _maybe_fail(self, path):
            self.n_requests += 1
            if self.fail_at is not None and self.n_requests == self.fail_at:
                self.injected = True
                if self.fail_at % 2:
                    raise C19.InjectedHttpError(f'413 Request Entity Too Large: {path}')
                raise ConnectionResetError(f'connection reset by peer: {path}')

        async def _post(self, path, data=None, json=None):  # noqa: A002 (signature of BatchClient._post)
            import json as _json
            body = json if json is not None else _json.loads(bytes(data._value))
            self._maybe_fail(path)
            self.posts.append((path, body))
            R = C19._Resp
            if path.endswith('/create-fast') or path.endswith('/update-fast'):
                r = {'id': 1, 'start_job_group_id': self.n_groups + 1, 'start_job_id': self.n_jobs + 1}
                self.n_jobs += len(body['bunch'])
                self.n_groups += len(body['job_groups'])
                return R(r)
            if path.endswith('/batches/create'):
                self.pending = [0, 0]
                return R({'id': 1, 'update_id': 1 if (body['n_jobs'] or body['n_job_groups']) else None})
            if path.endswith('/updates/create'):
                self.pending = [0, 0]
                return R({'update_id': 2})
            if path.endswith('/job-groups/create'):
                self.pending[0] += len(body)
                return R({})
            if path.endswith('/jobs/create'):
                self.pending[1] += len(body)
                return R({})
            raise AssertionError(f'unexpected request {path}')

        async def _patch(self, path):
            self._maybe_fail(path)
            r = {'start_job_group_id': self.n_groups + 1, 'start_job_id': self.n_jobs + 1}
            self.n_groups += self.pending[0]
            self.n_jobs += self.pending[1]
            return C19._Resp(r)

    @classmethod
    def _nbytes(cls, spec):
        return cls.true_bytes(spec)     # the real serialisation (orjson: raw UTF-8), never the client's own accounting

    def _play(self, c):
        """run the script on a real Batch; per round: created uids, sizes, the requests of the submit"""
        key = json.dumps(c, sort_keys=True)
        if getattr(self, '_play_key', None) == key:
            return self._play_val
        rec = self._Recorder()
        batch = self.ac.Batch(rec, None, token='verif-token')
        uid = 0
        sizes = {}
        out = []
        group_objs = []

        async def go():
            nonlocal uid
            for rnd in c['rounds']:
                created = {'g': [], 'j': []}
                for op in rnd['ops']:
                    kind, pad = op[0], op[1]
                    owner = group_objs[op[2]] if len(op) > 2 and op[2] is not None else batch
                    uid += 1
                    attrs = {'uid': str(uid)}
                    if pad:
                        # pad = n ASCII characters, or [n, uni]: n BYTES of 2- / 3- / 4-byte / mixed UTF-8 text
                        attrs['p'] = 'x' * pad if isinstance(pad, int) else self.filler(pad[0], pad[1], uid)
                    if kind == 'g':
                        n0 = len(batch._job_group_specs)
                        group_objs.append(owner.create_job_group(attributes=attrs))
                        sizes[uid] = self._nbytes(batch._job_group_specs[n0])
                    else:
                        n0 = len(batch._job_specs)
                        owner.create_job('ubuntu:22.04', ['true'], attributes=attrs)
                        sizes[uid] = self._nbytes(batch._job_specs[n0])
                    created[kind].append(uid)
                n_posts = len(rec.posts)
                rec.fail_at, rec.n_requests, rec.injected = rnd.get('fail'), 0, False
                raised = failed = False
                try:
                    await batch.submit(max_bunch_bytesize=rnd['maxBytes'], max_bunch_size=rnd['maxN'], disable_progress_bar=True)
                except AssertionError:
                    raised = True
                except (C19.InjectedHttpError, ConnectionResetError):
                    if not rec.injected:
                        raise
                    failed = True
                out.append({'created': created, 'raised': raised, 'failed': failed, 'is_created': bool(batch.is_created),
                            'posts': rec.posts[n_posts:]})

        import logging
        logging.disable(logging.CRITICAL)           # "Tried to submit an update with 0 jobs…" is expected here
        try:
            asyncio.run(go())
        finally:
            logging.disable(logging.NOTSET)
        self._play_key, self._play_val = key, (out, sizes)
        return self._play_val

    @staticmethod
    def _uids(specs):
        return [int(sp['attributes']['uid']) for sp in specs]

    def _render(self, rnd):
        if rnd['raised']:
            return 'raised'
        if rnd.get('failed'):
            return f"failed c={int(rnd['is_created'])}"
        posts = rnd['posts']
        if not posts:
            return 'quiet'
        route = None
        announced = None
        fast = None
        gs, js = [], []
        for path, body in posts:
            if path.endswith('/create-fast'):
                route, announced, fast = 'new', body['batch'], body
            elif path.endswith('/update-fast'):
                route, announced, fast = 'upd', body['update'], body
            elif path.endswith('/batches/create'):
                route, announced = 'new', body
            elif path.endswith('/updates/create'):
                route, announced = 'upd', body
            elif path.endswith('/job-groups/create'):
                gs.append(body)
            elif path.endswith('/jobs/create'):
                js.append(body)
        head = f"{route} n={announced['n_job_groups']},{announced['n_jobs']}"

        def tot(specs):
            return sum(self._nbytes(sp) for sp in specs)

        def ids(specs):
            return ','.join(map(str, self._uids(specs)))
        if fast is not None:
            g, j = fast['job_groups'], fast['bunch']
            return f'{head} F[g:{ids(g)}|j:{ids(j)}]@{tot(g) + tot(j)}'
        if not gs and not js:
            return head + ' open'
        js.sort(key=lambda b: self._uids(b)[0])        # job bunches are posted concurrently: wire order is not an observable
        return head + ' ' + ' '.join([f'G[{ids(b)}]@{tot(b)}' for b in gs] + [f'J[{ids(b)}]@{tot(b)}' for b in js])

    def model_lines(self, c):
        if c.get('k') == 'submits':
            _out, sizes = self._play(c)
            lines = ['reset']
            uid = 0
            for rnd in c['rounds']:
                toks = []
                for op in rnd['ops']:
                    uid += 1
                    toks.append(f'{op[0]}{sizes[uid]}')
                fail = [f"f{rnd['fail']}"] if rnd.get('fail') else []
                lines.append(' '.join(['round', str(rnd['maxBytes']), str(rnd['maxN'])] + fail + toks))
            return lines
        return [' '.join(map(str, [c['maxBytes'], c['maxN'], len(c['groups'])] + c['groups'] + c['jobs']))]

    POST = re.compile(r'(F|G|J)\[([^\]]*)\]@(\d+)')

    def _oracle_submits(self, c, out):
        played, sizes = self._play(c)
        pend = {'g': [], 'j': []}
        uid = 0
        created_before = False
        for k, (rnd, line) in enumerate(zip(c['rounds'], out[1:]), start=1):
            for op in rnd['ops']:
                uid += 1
                pend[op[0]].append(uid)
            too_big = [u for u in pend['g'] + pend['j'] if sizes[u] >= rnd['maxBytes']]
            what = f'submit #{k} (max_bunch_bytesize={rnd["maxBytes"]}, max_bunch_size={rnd["maxN"]})'
            if line == 'raised':
                if not too_big:
                    return f'{what} raised although every pending spec is below the byte limit'
                continue
            if line.startswith('failed'):
                # the attempt was cut short by a request error: whatever it did put on the wire must already respect THIS call's
                # limits and consist of pending specs in order; everything stays pending for the retry
                if not rnd.get('fail'):
                    return f'{what} failed without an injected request error'
                if too_big:
                    return f'{what} started posting although spec {too_big[0]} has {sizes[too_big[0]]} bytes'
                sent_g, sent_j = [], []
                for path, body in played[k - 1]['posts']:
                    if path.endswith('/create-fast') or path.endswith('/update-fast'):
                        parts = [('g', body['job_groups']), ('j', body['bunch'])]
                        whole = body['job_groups'] + body['bunch']
                    elif path.endswith('/job-groups/create'):
                        parts, whole = [('g', body)], body
                    elif path.endswith('/jobs/create'):
                        parts, whole = [('j', body)], body
                    else:
                        continue
                    if len(whole) > rnd['maxN'] or sum(self._nbytes(sp) for sp in whole) >= rnd['maxBytes']:
                        return f'{what} (failed attempt) posted a bunch of {len(whole)} specs / {sum(self._nbytes(sp) for sp in whole)} bytes'
                    for typ, specs in parts:
                        (sent_g if typ == 'g' else sent_j).extend(self._uids(specs))
                if sent_g != pend['g'][:len(sent_g)]:
                    return f'{what} (failed attempt) posted job groups {sent_g}, not a prefix of the pending {pend["g"]}'
                it = iter(pend['j'])
                if not all(u in it for u in sent_j):
                    return f'{what} (failed attempt) posted jobs {sent_j}, not pending jobs {pend["j"]} in order'
                now_created = line.endswith('c=1')
                if created_before and not now_created:
                    return f'{what} (failed attempt) left a created batch uncreated'
                created_before = now_created
                continue
            if too_big:
                return f'{what} went through although spec {too_big[0]} has {sizes[too_big[0]]} bytes'
            if line == 'quiet':
                if pend['g'] or pend['j'] or not created_before:
                    return f'{what} sent nothing but job groups {pend["g"]} / jobs {pend["j"]} were created since the previous submit'
                continue
            m = re.match(r'(new|upd) n=(\d+),(\d+) (.*)$', line)
            if not m:
                return f'{what}: unreadable wire record {line!r}'
            if (m.group(1) == 'upd') != created_before:
                return f'{what} used the {"update" if m.group(1) == "upd" else "create"} route on a batch that is {"" if created_before else "not "}created'
            posted = {'g': [], 'j': []}
            for typ, body, nb in self.POST.findall(m.group(4)):
                if typ == 'F':
                    g, j = body.split('|')
                    gg = [int(x) for x in g[2:].split(',') if x]
                    jj = [int(x) for x in j[2:].split(',') if x]
                    posted['g'] += gg
                    posted['j'] += jj
                    cnt = len(gg) + len(jj)
                else:
                    xs = [int(x) for x in body.split(',') if x]
                    posted['g' if typ == 'G' else 'j'] += xs
                    cnt = len(xs)
                if cnt > rnd['maxN']:
                    return f'{what} posted a bunch of {cnt} specs'
                if int(nb) >= rnd['maxBytes']:
                    return f'{what} posted a bunch of {nb} bytes'
            if posted['g'] != pend['g']:
                return (f'{what} posted job groups {posted["g"]} but the job groups created since the previous submit are {pend["g"]}')
            if posted['j'] != pend['j']:
                return f'{what} posted jobs {posted["j"]} but the jobs created since the previous submit are {pend["j"]}'
            if (int(m.group(2)), int(m.group(3))) != (len(pend['g']), len(pend['j'])):
                return (f'{what} announced n_job_groups={m.group(2)}, n_jobs={m.group(3)} but posts {len(pend["g"])} job groups and '
                        f'{len(pend["j"])} jobs')
            pend = {'g': [], 'j': []}
            created_before = True
        return None

    def _run(self, c):
        ng = len(c['groups'])
        if 'gparents' in c:
            g = [self.group_spec(i, s, i + 1, c['gparents'][i], c.get('uni')) for i, s in enumerate(c['groups'])]
        else:
            g = [self.spec(i, s, c.get('uni')) for i, s in enumerate(c['groups'])]
        j = [self.spec(ng + i, s, c.get('uni')) for i, s in enumerate(c['jobs'])]
        try:
            bs = self.fn(None, g, j, c['maxBytes'], c['maxN'])
        except AssertionError:
            return None
        return bs

    def impl(self, c):
        if c.get('k') == 'submits':
            played, _sizes = self._play(c)
            return ['ok'] + [self._render(r) for r in played]
        bs = self._run(c)
        if bs is None:
            return ['err']
        if not bs:
            return ['empty']
        return ['|'.join(','.join(str(json.loads(sb.spec_bytes)['i']) for sb in b) for b in bs)]

    def oracle(self, c, out):
        if out and out[0].startswith('IMPL-EXC'):
            return out[0]
        if c.get('k') == 'submits':
            return self._oracle_submits(c, out)
        sizes = c['groups'] + c['jobs']
        legal = c['maxBytes'] > 0 and c['maxN'] > 0 and all(s < c['maxBytes'] for s in sizes)
        if out[0].startswith('IMPL-EXC'):
            return out[0]
        if out[0] == 'err':
            return None if not legal else 'legal input rejected'
        if not legal:
            return 'illegal input (a spec >= max_bunch_bytesize or a non-positive limit) accepted'
        bs = self._run(c)
        flat = [json.loads(sb.spec_bytes)['i'] for b in bs for sb in b]
        if flat != list(range(len(sizes))):
            return f'concatenated bunches {flat} differ from the input order'
        SpecType = self.ac.SpecType
        kinds = [sb.typ for b in bs for sb in b]
        ng = len(c['groups'])
        if any(k != SpecType.JOB_GROUP for k in kinds[:ng]) or any(k != SpecType.JOB for k in kinds[ng:]):
            return 'job groups are not all before all jobs'
        for b in bs:
            if len(b) == 0:
                return 'empty bunch'
            if len(b) > c['maxN']:
                return f'bunch of {len(b)} specs exceeds max_bunch_size {c["maxN"]}'
            nb = sum(len(bytes(sb.spec_bytes)) for sb in b)          # the bytes really posted, not the client's own accounting
            if nb >= c['maxBytes']:
                return f'bunch of {nb} bytes not below max_bunch_bytesize {c["maxBytes"]}'
        return None

    def classify(self, c, out):
        if c.get('k') == 'submits':
            lines = out[1:]
            tags = [f'submits={len(lines)}']
            for ln in lines:
                tags.append('submit:' + ('raised' if ln == 'raised' else 'failed' if ln.startswith('failed') else 'quiet' if ln == 'quiet' else 'fast' if ' F[' in ln else
                                         'open' if ln.endswith(' open') else 'bunches'))
            if any('g' == op[0] for r in c['rounds'][:-1] for op in r['ops']) and len(c['rounds']) > 1:
                tags.append('groups-before-a-later-submit')
            if any(a.startswith('failed') and not b.startswith('failed') and b not in ('raised', 'quiet') for a, b in zip(lines, lines[1:])):
                tags.append('retry-after-failed-submit')
            if any(op[0] == 'g' and len(op) > 2 for r in c['rounds'] for op in r['ops']):
                tags.append('nested-job-groups')
            return (json.dumps(c, sort_keys=True) if len(lines) > 1 or any(' G[' in ln or ' J[' in ln for ln in lines) else None, tags)
        tags = ['err' if out[0] == 'err' else 'empty' if out[0] == 'empty' else f"bunches={min(out[0].count('|') + 1, 5)}"]
        nontrivial = out[0] not in ('err', 'empty') and '|' in out[0]
        return (json.dumps(c, sort_keys=True) if nontrivial else None, tags)

    def finding_key(self, c, msg):
        return json.dumps(c, sort_keys=True)

    def shrink(self, c, fails):
        if c.get('k') == 'submits':
            def drop_op(case, ri, oj):
                """remove one op; references to a removed job group fall back to the root, later group indices shift down"""
                case = json.loads(json.dumps(case))
                flat = [(a, b) for a, r in enumerate(case['rounds']) for b in range(len(r['ops']))]
                gi = sum(1 for a, b in flat[:flat.index((ri, oj))] if case['rounds'][a]['ops'][b][0] == 'g')
                removed_group = case['rounds'][ri]['ops'][oj][0] == 'g'
                del case['rounds'][ri]['ops'][oj]
                if removed_group:
                    for r in case['rounds']:
                        for op in r['ops']:
                            if len(op) > 2 and op[2] is not None:
                                if op[2] == gi:
                                    del op[2:]
                                elif op[2] > gi:
                                    op[2] -= 1
                return case

            def drop_round(case, ri):
                for oj in range(len(case['rounds'][ri]['ops']) - 1, -1, -1):
                    case = drop_op(case, ri, oj)
                case['rounds'] = case['rounds'][:ri] + case['rounds'][ri + 1:]
                return case

            cur = json.loads(json.dumps(c))
            changed = True
            while changed:
                changed = False
                for i in range(len(cur['rounds'])):
                    if len(cur['rounds']) > 1:
                        cand = drop_round(cur, i)
                        if fails(cand):
                            cur, changed = cand, True
                            break
                    for j in range(len(cur['rounds'][i]['ops'])):
                        cand = drop_op(cur, i, j)
                        if fails(cand):
                            cur, changed = cand, True
                            break
                    if changed:
                        break
            for i, r in enumerate(cur['rounds']):
                if 'fail' in r:
                    cand = json.loads(json.dumps(cur))
                    del cand['rounds'][i]['fail']
                    if fails(cand):
                        cur = cand
            for r in cur['rounds']:
                for op in r['ops']:
                    if op[1]:
                        old = op[1]
                        for new in ([0] if isinstance(old, int) else [0, old[0]]):
                            op[1] = new
                            if fails(cur):
                                break
                        else:
                            op[1] = old
            return cur
        if 'gparents' in c:
            cur = json.loads(json.dumps(c))
            if fails({**cur, 'jobs': []}):
                cur['jobs'] = []
            changed = True
            while changed and len(cur['groups']) > 1:
                changed = False
                for i in range(len(cur['groups']) - 1, -1, -1):
                    gp = cur['gparents'][:i] + cur['gparents'][i + 1:]
                    gp = [0 if (p == i + 1) else (p - 1 if p > i + 1 else p) for p in gp]   # children of the removed group go to the root
                    cand = {**cur, 'groups': cur['groups'][:i] + cur['groups'][i + 1:], 'gparents': gp}
                    if fails(cand):
                        cur, changed = cand, True
                        break
            return cur
        cur = dict(c)
        for fld in ('jobs', 'groups'):
            def f(lst, fld=fld):
                return fails({**cur, fld: lst})
            if cur[fld]:
                cur[fld] = generic_shrink_list(cur[fld], f) if fails(cur) else cur[fld]
        return cur


PROP = C19()

"""C19 Client spec bunching preserves order and limits — correspondence of Bunch.createBunches with the real
hailtop.batch_client.aioclient.Batch._create_bunches."""
import json
import random

from .. import loader
from ..framework import Prop, generic_shrink_list


class C19(Prop):
    id = 'C19'
    lean_props = ['HailVerif.Props.C19']
    driver = 'Driver/C19.lean'
    engine = 'E3-pure'
    design_ref = 'DESIGN.md §4 C19'
    technique = 'Lean 4 proof by induction over the spec list (loop invariant) + differential correspondence with the real _create_bunches'
    level_text = ('Theorems for all spec lists, size functions and limits: concatenation of bunches = groups ++ jobs, every bunch < byte limit, '
                  '<= count limit, non-empty, accepted iff limits positive and every spec below the byte limit. The model is tied to the real '
                  'Batch._create_bunches by differential runs on boundary-directed size lists on every run.')
    level_note = ('Trusted: Lean kernel; hand-written model Bunch.createBunches agrees with the Python loop only as far as the correspondence '
                  'cases show; orjson replaced by a json shim (only byte length is read).')
    budget = {'quick': 4000, 'thorough': 120000}
    search_budget = {'quick': 20000, 'thorough': 200000}
    rule = ('case = (maxBytes, maxN, job-group spec sizes, job spec sizes); specs are real JSON dicts whose orjson size is the '
            'wanted size; sizes are random and boundary-directed (running sum = maxBytes-1 / maxBytes, bunch length = maxN); '
            'non-trivial = accepted input producing >= 2 bunches; distinct by full case')
    trusted = ['orjson shim (json.dumps(..., separators=(",",":")).encode()): the algorithm only reads the byte length']
    assumptions = ['spec byte sizes are those of the shimmed orjson.dumps']

    def setup(self, repo):
        loader.install(repo)
        import hailtop.batch_client.aioclient as ac
        self.ac = ac
        self.fn = ac.Batch._create_bunches

    # a spec whose serialized size is exactly n (n >= 8):  {"i":K,"p":"xxx"}
    @staticmethod
    def spec(idx, n):
        base = {'i': idx, 'p': ''}
        k = len(json.dumps(base, separators=(',', ':')).encode())
        assert n >= k, (n, k)
        base['p'] = 'x' * (n - k)
        return base

    MIN = 16  # smallest spec size used (index up to 4 digits)

    def cases(self, rng, n, tier):
        for _ in range(n):
            mode = rng.random()
            max_n = rng.choice([1, 2, 3, 4, 5, 8, 64])
            max_bytes = rng.choice([17, 18, 20, 33, 40, 64, 100, 256, 1000])
            cnt = rng.choice([0, 1, 2, 3, 5, 8, 13, 21, 40])
            sizes = []
            run = 0
            for _i in range(cnt):
                r = rng.random()
                if r < 0.25 and max_bytes - 1 - run >= self.MIN:
                    s = max_bytes - 1 - run        # exactly fills the bunch (sum = maxBytes-1)
                elif r < 0.4 and max_bytes - run >= self.MIN:
                    s = max_bytes - run            # sum = maxBytes: must not fit
                elif r < 0.45:
                    s = max_bytes - 1              # largest legal spec
                elif r < 0.47 and mode < 0.3:
                    s = max_bytes + rng.choice([0, 1, 5])  # illegal (assert)
                else:
                    s = rng.randint(self.MIN, max(self.MIN, min(max_bytes - 1, self.MIN + 30)))
                s = max(s, self.MIN)
                sizes.append(s)
                run = run + s if run + s < max_bytes else s
            ng = rng.randint(0, len(sizes))
            if mode > 0.97:
                max_n = 0 if rng.random() < 0.5 else max_n
                max_bytes = 0 if max_n else max_bytes
            yield {'maxBytes': max_bytes, 'maxN': max_n, 'groups': sizes[:ng], 'jobs': sizes[ng:]}

    def model_lines(self, c):
        return [' '.join(map(str, [c['maxBytes'], c['maxN'], len(c['groups'])] + c['groups'] + c['jobs']))]

    def _run(self, c):
        specs = [self.spec(i, s) for i, s in enumerate(c['groups'] + c['jobs'])]
        g = specs[:len(c['groups'])]
        j = specs[len(c['groups']):]
        try:
            bs = self.fn(None, g, j, c['maxBytes'], c['maxN'])
        except AssertionError:
            return None
        return bs

    def impl(self, c):
        bs = self._run(c)
        if bs is None:
            return ['err']
        if not bs:
            return ['empty']
        return ['|'.join(','.join(str(json.loads(sb.spec_bytes)['i']) for sb in b) for b in bs)]

    def oracle(self, c, out):
        sizes = c['groups'] + c['jobs']
        legal = c['maxBytes'] > 0 and c['maxN'] > 0 and all(s < c['maxBytes'] for s in sizes)
        if out[0].startswith('IMPL-EXC'):
            return out[0]
        if out[0] == 'err':
            return None if not legal else 'legal input rejected'
        if not legal:
            return 'illegal input (a spec >= max_bunch_bytesize or a non-positive limit) accepted'
        bs = self._run(c)
        flat = [json.loads(sb.spec_bytes)['i'] for b in bs for sb in b]
        if flat != list(range(len(sizes))):
            return f'concatenated bunches {flat} differ from the input order'
        SpecType = self.ac.SpecType
        kinds = [sb.typ for b in bs for sb in b]
        ng = len(c['groups'])
        if any(k != SpecType.JOB_GROUP for k in kinds[:ng]) or any(k != SpecType.JOB for k in kinds[ng:]):
            return 'job groups are not all before all jobs'
        for b in bs:
            if len(b) == 0:
                return 'empty bunch'
            if len(b) > c['maxN']:
                return f'bunch of {len(b)} specs exceeds max_bunch_size {c["maxN"]}'
            nb = sum(sb.n_bytes for sb in b)
            if nb >= c['maxBytes']:
                return f'bunch of {nb} bytes not below max_bunch_bytesize {c["maxBytes"]}'
        return None

    def classify(self, c, out):
        tags = ['err' if out[0] == 'err' else 'empty' if out[0] == 'empty' else f"bunches={min(out[0].count('|') + 1, 5)}"]
        nontrivial = out[0] not in ('err', 'empty') and '|' in out[0]
        return (json.dumps(c, sort_keys=True) if nontrivial else None, tags)

    def finding_key(self, c, msg):
        return json.dumps(c, sort_keys=True)

    def shrink(self, c, fails):
        cur = dict(c)
        for fld in ('jobs', 'groups'):
            def f(lst, fld=fld):
                return fails({**cur, fld: lst})
            if cur[fld]:
                cur[fld] = generic_shrink_list(cur[fld], f) if fails(cur) else cur[fld]
        return cur


PROP = C19()

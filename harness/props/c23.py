"""C23 Ranged reads return exactly the requested bytes.

Real code driven: `AsyncFS.open_from / read_from / read_range` of LocalAsyncFS, GoogleStorageAsyncFS, S3AsyncFS, AzureAsyncFS and
their stream classes (TruncatedReadableBinaryIO, _ReadableStreamFromBlocking, GetObjectStream over a real aiohttp.StreamReader,
AzureReadableStream).  Below them sits the in-memory object store of c23_store.py (trusted).  Model: HailVerif.RangeRead.
"""
import asyncio
import concurrent.futures
import json
import os
import shutil
import tempfile

from .. import loader
from ..framework import Prop
from . import c23_store

BACKENDS = ['local', 'gs', 's3', 'azure']


class InlineExecutor(concurrent.futures.Executor):
    """runs the submitted function at once in the calling thread (deterministic stand-in for the FS thread pools)"""

    def submit(self, fn, *args, **kwargs):
        f = concurrent.futures.Future()
        try:
            f.set_result(fn(*args, **kwargs))
        except BaseException as e:  # noqa: BLE001
            f.set_exception(e)
        return f


def fmt_bytes(b):
    return ','.join(str(x) for x in b) if b else '-'


def parse_op(o):
    return (o[0], int(o[1:]) if len(o) > 1 else None)


class C23(Prop):
    id = 'C23'
    title = 'Ranged reads return exactly the requested bytes'
    lean_props = ['HailVerif.Props.C23']
    driver = 'Driver/C23.lean'
    engine = 'E7-fs'
    design_ref = 'DESIGN.md §4 C23'
    technique = ('Lean 4 theorems about an executable model of the Range-header construction, the byte-range service semantics and the four '
                 'stream classes + differential correspondence with the real open_from/read_from/read_range over an in-memory object store')
    level_text = ('Theorems for all blobs, offsets, lengths, chunkings and read patterns: the Range header built by the GCS/S3 code selects '
                  'exactly blob[start:start+length] (clipped at EOF, 416 iff start >= size); TruncatedReadableBinaryIO never yields past its '
                  'limit and a drained reader yields exactly the range; read_range returns exactly the span or UnexpectedEOFError on all four '
                  'backends; open_from + any read pattern (including read(-1) after partial reads) is exact on all four backends and no SDK '
                  'exception escapes. The model is tied to the real code by differential runs over all sizes 0..N x offsets x lengths x '
                  'read patterns on every run; the two Azure defects this check found (repaired in 86ee8e0ea) are kept as old-stream examples.')
    level_note = ('Trusted: Lean kernel; the in-memory object store (RFC 7233 byte ranges for GCS/S3, download_blob(offset,length) for Azure, '
                  '416 rules) stands in for the cloud services and SDKs; aiohttp.StreamReader is the real one; the hand-written model agrees '
                  'with the Python classes only as far as the correspondence cases show.')
    budget = {'quick': 2500, 'thorough': 30000}
    search_budget = {'quick': 4000, 'thorough': 30000}
    rule = ('plus seek cases on the local backend (the only seekable streams): open_from(start, length|None); readexactly(pre); '
            'seek(k, SEEK_CUR) with k forward, zero or back inside the range; then a read pattern — compared with the model as the two '
            'ranges before / after the seek; case = (backend, blob bytes, delivery chunk size, op[, GCS credential kind: anonymous / token / token expired on the first '
            'attempt of every request]) with op = open_from(start, length|None) + read pattern '
            '(readexactly*, then read(n)*, then read(-1) or a drain loop), read_from(start) or read_range(start, end, inclusive); '
            'exhaustive over sizes 0..4 (quick) / 0..8 (thorough) x all offsets 0..size+1 x all lengths None,0..size+2 x a fixed pattern set '
            'x 4 backends, plus random cases up to size 12; compared: Range header / download_blob calls seen by the store, final status, '
            'concatenated bytes; non-trivial = at least one byte requested inside the blob; distinct by full case')
    trusted = ['the GCS fake sits at the HTTP layer (stand-in for hailtop.httpx.ClientSession): the real Session, its auth-header merging and '
               '401 -> refresh -> retry loop run between the file system and the fake, with AnonymousCloudCredentials and a token credential '
               'stand-in (valid / expired-on-first-attempt)',
               'harness/props/c23_store.py: in-memory GCS (HTTP Range per RFC 7233, 404/416), S3 (get_object Range, InvalidRange, NoSuchKey) '
               'and Azure (download_blob(offset,length), 416 for an explicit offset >= size, chunks()/readall()) services',
               'aiohttp.StreamReader (real, fed with the whole body before the first read)',
               'InlineExecutor replaces the FS thread pools (same calls, executed synchronously)',
               'loader stubs for boto3/botocore/azure SDK modules: only exception class identity is used']
    assumptions = ['objects exist and are not simultaneously directories', 'one reader per stream; bodies are fully delivered (no transport errors)',
                   'Azure SDK raises HttpResponseError(416) when an explicit offset is at or past the end of the blob']

    # ------------------------------------------------------------------------------------------ setup
    def setup(self, repo):
        loader.install(repo)
        import hailtop.aiocloud.aioaws.fs as s3fs
        import hailtop.aiocloud.aioazure.fs as azfs
        import hailtop.aiocloud.aiogoogle.client.storage_client as gsc
        import hailtop.aiotools.local_fs as lfs
        from hailtop import httpx
        from hailtop.aiotools.fs.exceptions import UnexpectedEOFError
        self.lfs, self.gsc, self.s3fs, self.azfs = lfs, gsc, s3fs, azfs
        self.UnexpectedEOFError = UnexpectedEOFError
        self.loop = asyncio.new_event_loop()
        self.store = c23_store.Store()
        self.pool = InlineExecutor()
        asyncio.set_event_loop(self.loop)
        # GCS: real GoogleStorageAsyncFS -> real GoogleStorageClient -> REAL Session (+ credentials) -> fake HTTP session.
        # One file system per credential kind: anonymous (public-bucket fallback: no auth headers), a valid token, and a token
        # that is expired on the first attempt of every request (401 -> new headers -> second attempt).
        from hailtop.aiocloud.common.credentials import AnonymousCloudCredentials, CloudCredentials
        from hailtop.aiocloud.common.session import Session
        http = c23_store.make_gcs_http_session(self.store, httpx.ClientResponseError)
        self.gs_creds = {'anon': AnonymousCloudCredentials(),
                         'token': c23_store.make_token_credentials(CloudCredentials, refresh=False),
                         'refresh': c23_store.make_token_credentials(CloudCredentials, refresh=True)}
        self.gs_fs = {kind: gsc.GoogleStorageAsyncFS(storage_client=gsc.GoogleStorageClient(
            gcs_requester_pays_configuration=('verif-project', []),          # explicit: skips the spark-defaults.conf lookup
            session=Session(credentials=cred, http_session=http))) for kind, cred in self.gs_creds.items()}
        self.gs = self.gs_fs['token']
        # S3: real S3AsyncFS with its boto3 client replaced
        self.s3 = s3fs.S3AsyncFS(thread_pool=self.pool)
        self.s3._s3 = c23_store.make_s3_client(self.store, s3fs.botocore.exceptions.ClientError)
        # Azure: real AzureAsyncFS; the SDK's BlobServiceClient name in the module is the fake

        class Cred:
            credential = 'fake'
        azfs.BlobServiceClient = c23_store.make_azure_service_client(self.store, azfs.azure.core.exceptions)
        self.az = azfs.AzureAsyncFS(credentials=Cred())
        self.local = lfs.LocalAsyncFS(thread_pool=self.pool)
        self.az_http_error = azfs.azure.core.exceptions.HttpResponseError
        self.session_stats = {}

    def extra_coverage(self):
        return {'gcs_session_layer': dict(self.session_stats)}

    # ------------------------------------------------------------------------------------------ generation
    PATTERNS = [['a'], ['a', 'a'], ['d1'], ['d2'], ['d3'], ['x1', 'a'], ['x2', 'd2'], ['r1', 'a'], ['r2', 'd1'], ['x1', 'x2'], ['x3'],
                ['r0', 'x1', 'a'], ['x0', 'd5']]

    def _blob(self, rng, size):
        base = rng.randint(1, 200)
        return [(base + i) % 256 for i in range(size)]

    def _exhaustive(self, rng, max_size):
        for be in BACKENDS:
            for size in range(max_size + 1):
                blob = self._blob(rng, size)
                for start in range(size + 2):
                    for ln in [None] + list(range(size + 3)):
                        for pat in self.PATTERNS:
                            yield {'be': be, 'blob': blob, 'chunk': rng.choice([0, 1, 2, 3]), 'kind': 'open', 'start': start, 'len': ln,
                                   'ops': pat}
                    yield {'be': be, 'blob': blob, 'chunk': rng.choice([0, 1, 2]), 'kind': 'from', 'start': start}
                    for end in range(max(0, start - 2), size + 2):
                        for incl in (True, False):
                            yield {'be': be, 'blob': blob, 'chunk': rng.choice([0, 1, 2]), 'kind': 'range', 'start': start, 'end': end,
                                   'incl': incl}

    def _random_ops(self, rng, want_len):
        ops = []
        budget = want_len
        for _ in range(rng.choice([0, 0, 1, 1, 2, 3])):
            n = rng.choice([0, 1, 2, 3, max(budget, 0), max(budget, 0) + 1, rng.randint(0, 13)])
            ops.append(f'x{n}')
            budget -= n
        tail = rng.random()
        if tail < 0.25 and ops:
            return ops
        for _ in range(rng.choice([0, 0, 1, 2])):
            ops.append(f'r{rng.choice([0, 1, 2, 3, 5, 13])}')
        ops.append('a' if rng.random() < 0.5 else f'd{rng.choice([1, 2, 3, 4, 7, 13])}')
        if rng.random() < 0.2:
            ops.append(rng.choice(['a', 'x0', 'x1', 'r3']))
        return ops

    def _random_case(self, rng):
        be = rng.choice(BACKENDS)
        size = rng.choice([0, 1, 2, 3, 5, 7, 8, 11, 12, 12])
        blob = self._blob(rng, size)
        start = rng.choice([0, max(size - 1, 0), size, size + 1, rng.randint(0, size + 1)])
        chunk = rng.choice([0, 1, 2, 3, 4, 5])
        k = rng.random()
        if k < 0.7:
            rest = max(size - start, 0)
            ln = rng.choice([None, 0, 1, rest, rest + 1, max(rest - 1, 0), rng.randint(0, size + 2)])
            want = rest if ln is None else min(rest, ln)
            return {'be': be, 'blob': blob, 'chunk': chunk, 'kind': 'open', 'start': start, 'len': ln, 'ops': self._random_ops(rng, want)}
        if k < 0.8:
            return {'be': be, 'blob': blob, 'chunk': chunk, 'kind': 'from', 'start': start}
        end = rng.choice([start - 1, start, size - 1, size, size + 1, rng.randint(0, size + 2)])
        return {'be': be, 'blob': blob, 'chunk': chunk, 'kind': 'range', 'start': start, 'end': end, 'incl': rng.random() < 0.5}

    CREDS = ['anon', 'token', 'refresh']
    LOCAL_NAMES = ['report#1.txt', 'query?x=1', 'part;v2', 'a%20b', 'a b', 'x&y=z', 'p+q', 'c,d', 'k:v', 'u@h', 'wow!', '$var', "it's", '(p)',
                   'star*', '[brk]', '.hidden', '-dash', '\u00e9t\u00e9', '100%', 'r#', 'q?', 'semi;']

    def _norm(self, c, rng=None):
        if c['be'] == 'local':
            c['chunk'] = 0          # a real file never returns short: no delivery chunking to vary
        if c['be'] == 'local' and rng is not None and 'name' not in c and rng.random() < 0.5:
            c['name'] = rng.choice(self.LOCAL_NAMES)
            c['url'] = rng.choice(['', '', 'file://', 'file://localhost'])
        if c['be'] == 'gs' and 'cred' not in c:
            c['cred'] = rng.choice(self.CREDS) if rng is not None else 'token'
        return c

    @staticmethod
    def _seek_ok(c):
        size = len(c['blob'])
        avail = max(size - c['start'], 0) if c['len'] is None else min(max(size - c['start'], 0), c['len'])
        pos = c['pre'] + c['k']
        return c['pre'] <= avail and pos >= 0 and (c['len'] is None or (c['len'] >= 1 and pos <= c['len']))

    def _seek_case(self, rng):
        """local streams are the only seekable ones; SEEK_CUR is the whence whose meaning does not depend on where the range sits
        in the file: the position stays inside [0, length]"""
        for _ in range(100):
            size = rng.choice([1, 2, 3, 5, 8, 12])
            blob = self._blob(rng, size)
            start = rng.choice([0, 1, 1, 2, rng.randint(0, size)])
            ln = rng.choice([None, 1, 2, 3, max(size - start, 1), size + 2, rng.randint(1, size + 2)])
            avail = max(size - start, 0) if ln is None else min(max(size - start, 0), ln)
            pre = rng.randint(0, avail)
            hi = (size - start + 2 - pre) if ln is None else ln - pre
            k = rng.choice([0, 0, 1, -pre, rng.randint(-pre, max(hi, -pre))])
            c = {'be': 'local', 'blob': blob, 'chunk': 0, 'kind': 'seek', 'start': start, 'len': ln, 'pre': pre, 'k': k,
                 'ops': self._random_ops(rng, max(avail - pre - k, 0))}
            if self._seek_ok(c):
                return c
        return {'be': 'local', 'blob': [1, 2, 3], 'chunk': 0, 'kind': 'seek', 'start': 1, 'len': 2, 'pre': 1, 'k': 0, 'ops': ['a']}

    def cases(self, rng, n, tier):
        for c in self._exhaustive(rng, 4 if tier == 'quick' else 8):
            yield self._norm(c, rng)
        for _ in range(n):
            yield self._norm(self._random_case(rng), rng)
        for _ in range(400 if tier == 'quick' else 4000):
            yield self._norm(self._seek_case(rng), rng)

    def search_cases(self, rng, n, hint):
        for c in self._exhaustive(rng, 6):
            yield self._norm(c, rng)
        for _ in range(n):
            yield self._norm(self._random_case(rng), rng)

    # ------------------------------------------------------------------------------------------ model side
    def model_lines(self, c):
        head = f"{c['be']} {fmt_bytes(c['blob'])} {c['chunk']}"
        if c['kind'] == 'seek':
            # readexactly(pre); seek(k, SEEK_CUR); post-pattern  ==  the first `pre` bytes of the range, then the pattern on the range
            # that starts pre+k bytes further on (the range viewed as a file of its own)
            ln = '-' if c['len'] is None else str(c['len'])
            pos = c['pre'] + c['k']
            ln2 = '-' if c['len'] is None else str(c['len'] - pos)
            return [f"{head} open {c['start']} {ln} x{c['pre']}",
                    f"{head} open {c['start'] + pos} {ln2} {','.join(c['ops']) if c['ops'] else '-'}"]
        if c['kind'] == 'open':
            ln = '-' if c['len'] is None else str(c['len'])
            return [f"{head} open {c['start']} {ln} {','.join(c['ops']) if c['ops'] else '-'}"]
        if c['kind'] == 'from':
            return [f"{head} from {c['start']}"]
        return [f"{head} range {c['start']} {c['end']} {1 if c['incl'] else 0}"]

    # ------------------------------------------------------------------------------------------ real side
    async def _read_pattern(self, f, ops, out, flags):
        for o in ops:
            kind, n = parse_op(o)
            if kind == 'a':
                out += await f.read()
            elif kind == 'r':
                b = await f.read(n)
                if len(b) > n:
                    flags.append(f'read({n})-returned-{len(b)}-bytes')
                out += b
            elif kind == 'x':
                b = await f.readexactly(n)
                if len(b) != n:
                    flags.append(f'readexactly({n})-returned-{len(b)}-bytes')
                out += b
            elif kind == 'd':
                for _ in range(len(out) + 300):
                    b = await f.read(n)
                    if len(b) > n:
                        flags.append(f'read({n})-returned-{len(b)}-bytes')
                    if not b:
                        break
                    out += b
                else:
                    flags.append('drain-did-not-end')
            else:
                raise ValueError(o)

    async def _go(self, fs, url, c, out, flags):
        if c['kind'] == 'open':
            async with await fs.open_from(url, c['start'], length=c['len']) as f:
                await self._read_pattern(f, c['ops'], out, flags)
        elif c['kind'] == 'from':
            out += await fs.read_from(url, c['start'])
        else:
            out += await fs.read_range(url, c['start'], c['end'], end_inclusive=c['incl'])

    def _run(self, c):
        """-> (request string, azure download log string, status, bytes, contract flags)"""
        be = c['be']
        data = bytes(c['blob'])
        store = self.store
        store.objects = {'obj': data}
        store.log = []
        store.auth_seen = []
        store.chunk = c['chunk']
        scratch = None
        try:
            if be == 'local':
                scratch = tempfile.mkdtemp(prefix='verif-c23-')
                assert not scratch.startswith('/repo') and not scratch.startswith('/verif')
                # the object's file name comes from a wide alphabet; it is addressed as a plain path or as a file:// URL
                path = os.path.join(scratch, c.get('name', 'obj'))
                with open(path, 'wb') as fh:
                    fh.write(data)
                url = c.get('url', '') + path
                fs = self.local
            elif be == 'gs':
                cred = c.get('cred', 'token')
                fs, url = self.gs_fs[cred], 'gs://bucket/obj'
                if hasattr(self.gs_creds[cred], 'calls'):
                    self.gs_creds[cred].calls = 0
            elif be == 's3':
                fs, url = self.s3, 's3://bucket/obj'
            else:
                fs, url = self.az, 'https://account.blob.core.windows.net/container/obj'
            out = bytearray()
            flags = []
            try:
                self.loop.run_until_complete(self._go(fs, url, c, out, flags))
                status = 'ok'
            except self.UnexpectedEOFError:
                status = 'eof'
            except AssertionError:
                status = 'assert'
            except self.az_http_error as e:
                status = f'http{getattr(e, "status_code", "")}' if isinstance(getattr(e, 'status_code', None), int) else 'exc:HttpResponseError'
            except Exception as e:  # noqa: BLE001
                status = f'exc:{type(e).__name__}'
        finally:
            if scratch is not None:
                shutil.rmtree(scratch, ignore_errors=True)
        if be == 'gs':
            seen = store.auth_seen
            st = self.session_stats
            st['gcs_requests_reaching_http_layer'] = st.get('gcs_requests_reaching_http_layer', 0) + len(seen)
            st['answered_401_then_retried'] = st.get('answered_401_then_retried', 0) + sum(1 for a in seen if a == 'Bearer stale')
            st['without_authorization_header'] = st.get('without_authorization_header', 0) + sum(1 for a in seen if a is None)
        hdrs = [str(e[2]) for e in store.log if e[0] in ('gcs-get', 's3-get')]
        dls = [f"{e[2]}:{'-' if e[3] is None else e[3]}" for e in store.log if e[0] == 'az-dl']
        return (';'.join(hdrs) if hdrs else '-', ';'.join(dls) if dls else '-', status, bytes(out), flags)

    def _impl_seek(self, c):
        """local backend only (the only stream classes that are seekable): two lines, the bytes before and after the seek"""
        data = bytes(c['blob'])
        scratch = tempfile.mkdtemp(prefix='verif-c23-')
        assert not scratch.startswith('/repo') and not scratch.startswith('/verif')
        lines = []
        try:
            path = os.path.join(scratch, c.get('name', 'obj'))
            with open(path, 'wb') as fh:
                fh.write(data)
            url = c.get('url', '') + path
            out1, out2, flags = bytearray(), bytearray(), []
            stage = [0]

            async def go():
                async with await self.local.open_from(url, c['start'], length=c['len']) as f:
                    out1.extend(await f.readexactly(c['pre']))
                    stage[0] = 1
                    assert f.seekable()
                    await f.seek(c['k'], os.SEEK_CUR)
                    stage[0] = 2
                    await self._read_pattern(f, c['ops'], out2, flags)
            try:
                self.loop.run_until_complete(go())
                status = 'ok'
            except self.UnexpectedEOFError:
                status = 'eof'
            except AssertionError:
                status = 'assert'
            except Exception as e:  # noqa: BLE001
                status = f'exc:{type(e).__name__}'
            first = 'ok' if stage[0] >= 1 else status
            second = status if stage[0] >= 1 else 'not-reached'
            lines = [f'- - {first} {fmt_bytes(out1)}', f'- - {second} {fmt_bytes(out2)}' + (' !' + ','.join(flags) if flags else '')]
        finally:
            shutil.rmtree(scratch, ignore_errors=True)
        return lines

    def impl(self, c):
        if c['kind'] == 'seek':
            return self._impl_seek(c)
        req, dl, status, out, flags = self._run(c)
        line = f'{req} {dl} {status} {fmt_bytes(out)}'
        if flags:
            line += ' !' + ','.join(flags)
        return [line]

    # ------------------------------------------------------------------------------------------ the property, executably
    @staticmethod
    def _parse_line(line):
        parts = line.split(' ')
        status = parts[2]
        out = [] if parts[3] == '-' else [int(x) for x in parts[3].split(',')]
        flags = parts[4] if len(parts) > 4 else ''
        return status, out, flags

    @staticmethod
    def _expected(c):
        """ideal reader over want = blob[start:start+len]: (status, bytes, determined?)"""
        blob = c['blob']
        if c['kind'] == 'range':
            n = c['end'] - c['start'] + (1 if c['incl'] else 0)
            if n < 0:
                return ('error', [], True)
            want = blob[c['start']:c['start'] + n]
            return ('ok', want, True) if len(want) == n else ('eof', None, True)
        if c['kind'] == 'from':
            return ('ok', blob[c['start']:], True)
        want = blob[c['start']:] if c['len'] is None else blob[c['start']:c['start'] + c['len']]
        out, rem, determined = [], list(want), True
        for o in c['ops']:
            kind, n = parse_op(o)
            if kind == 'x':
                if not determined:
                    return ('any', want, False)
                if len(rem) < n:
                    return ('eof', out, True)
                out += rem[:n]
                rem = rem[n:]
            elif kind == 'r':
                if n > 0 and rem:
                    determined = False     # how many bytes a read(n) returns is not fixed by the contract
            else:
                out = list(want)
                rem = []
                determined = True
        return ('ok', out if determined else want, determined)

    def oracle(self, c, impl_out):
        if c['kind'] == 'seek' and not impl_out[0].startswith('IMPL-EXC'):
            # the requested range viewed as a file of its own: read pre bytes, move the position by k, go on reading
            rng_ = c['blob'][c['start']:] if c['len'] is None else c['blob'][c['start']:c['start'] + c['len']]
            st1, o1, _ = self._parse_line(impl_out[0])
            if (st1, o1) != ('ok', rng_[:c['pre']]):
                return f"local seek case: readexactly({c['pre']}) gave {st1} {o1}, expected {rng_[:c['pre']]}"
            pos = c['pre'] + c['k']
            sub = {'be': 'local', 'blob': c['blob'], 'chunk': 0, 'kind': 'open', 'start': c['start'] + pos,
                   'len': None if c['len'] is None else c['len'] - pos, 'ops': c['ops']}
            msg = self.oracle(sub, [impl_out[1]])
            return None if msg is None else f"after readexactly({c['pre']}); seek({c['k']}, SEEK_CUR) on open_from(start={c['start']}, length={c['len']}): {msg}"
        line = impl_out[0]
        if line.startswith('IMPL-EXC'):
            return line
        status, out, flags = self._parse_line(line)
        if flags:
            return f'stream contract broken: {flags}'
        exp_status, exp, determined = self._expected(c)
        size = len(c['blob'])
        what = f"{c['be']} {c['kind']} start={c['start']} " + (f"len={c['len']} ops={c['ops']}" if c['kind'] == 'open' else
                                                                 f"end={c.get('end')} incl={c.get('incl')}" if c['kind'] == 'range' else '')
        if exp_status == 'error':
            return None if status != 'ok' or not out else f'{what}: negative span returned bytes {out}'
        if status not in ('ok', 'eof'):
            return f'{what}: raised {status} (neither the bytes of the range nor UnexpectedEOFError); bytes so far {out}'
        if c['kind'] == 'range':
            if exp_status == 'ok':
                return None if (status == 'ok' and out == exp) else f'{what}: expected exactly {exp}, got {status} {out}'
            return None if status == 'eof' else f'{what}: span reaches past EOF (size {size}) but got {status} {out} instead of UnexpectedEOFError'
        # open / from
        if status == 'eof' and not out and c['start'] >= size and not (c['kind'] == 'open' and c['len'] == 0):
            return None                                   # documented: range starts at/after EOF -> UnexpectedEOFError
        if not determined:                                # only reachable from shrunk / hand-written patterns
            full = exp
            return None if (len(out) <= len(full) and out == full[:len(out)]) else \
                f'{what}: got {status} {out}, not a prefix of the range {full}'
        if exp_status == 'eof':
            return None if status == 'eof' and out == exp else f'{what}: expected UnexpectedEOFError after {exp}, got {status} {out}'
        return None if status == 'ok' and out == exp else f'{what}: expected {exp}, got {status} {out}'

    # ------------------------------------------------------------------------------------------ bookkeeping
    def classify(self, c, impl_out):
        if c['kind'] == 'seek':
            k = c['k']
            tags = ['be=local', 'kind=seek', 'seek=' + ('0' if k == 0 else 'forward' if k > 0 else 'back'),
                    'seek-len=' + ('none' if c['len'] is None else 'given'), 'seek-start=' + ('0' if c['start'] == 0 else '>0')]
            return (json.dumps(c, sort_keys=True) if c['start'] < len(c['blob']) else None, tags)
        status, out, _ = self._parse_line(impl_out[0]) if not impl_out[0].startswith('IMPL-EXC') else ('exc', [], '')
        size = len(c['blob'])
        tags = [f"be={c['be']}", f"kind={c['kind']}", f'status={status}', f'size={min(size, 9)}{"+" if size > 9 else ""}']
        if c['be'] == 'gs':
            tags.append(f"gs-cred={c.get('cred', 'token')}")
        if c['be'] == 'local' and c.get('name'):
            tags.append('local-name-wide-alphabet' + ('+file-url' if c.get('url') else ''))
        if c['kind'] == 'open':
            ln = c['len']
            tags.append('len=none' if ln is None else 'len=0' if ln == 0 else
                        'len:past-eof' if c['start'] + ln > size else 'len:to-last-byte' if c['start'] + ln == size else 'len:inside')
            tags.append('start:past-eof' if c['start'] >= size else 'start:inside')
            tags.append('pattern=' + ''.join(o[0] for o in c['ops']))
        nontrivial = c['start'] < size and not (c['kind'] == 'open' and c['len'] == 0)
        return (json.dumps(c, sort_keys=True) if nontrivial else None, tags)

    def finding_key(self, c, msg):
        return json.dumps(c, sort_keys=True)

    def shrink(self, c, fails):
        if c['kind'] == 'seek':
            cur = json.loads(json.dumps(c))
            for key, lo in (('start', 0), ('pre', 0), ('len', 1)):
                while cur.get(key) is not None and cur[key] > lo:
                    cand = {**cur, key: cur[key] - 1}
                    if self._seek_ok(cand) and fails(cand):
                        cur = cand
                    else:
                        break
            return cur
        cur = json.loads(json.dumps(c))
        changed = True
        while changed:
            changed = False
            cands = []
            if cur['blob']:
                cands.append({**cur, 'blob': cur['blob'][:-1]})
            if cur['start'] > 0:
                cands.append({**cur, 'start': cur['start'] - 1})
            if cur.get('chunk'):
                cands.append({**cur, 'chunk': 0})
            if cur['kind'] == 'open':
                if cur['len'] is not None and cur['len'] > 0:
                    cands.append({**cur, 'len': cur['len'] - 1})
                for i in range(len(cur['ops'])):
                    if len(cur['ops']) > 1:
                        cands.append({**cur, 'ops': cur['ops'][:i] + cur['ops'][i + 1:]})
                    k, n = parse_op(cur['ops'][i])
                    if n is not None and n > 1:
                        cands.append({**cur, 'ops': cur['ops'][:i] + [f'{k}{n - 1}'] + cur['ops'][i + 1:]})
            if cur['kind'] == 'range' and cur['end'] > cur['start']:
                cands.append({**cur, 'end': cur['end'] - 1})
            for cand in cands:
                if fails(cand):
                    cur = cand
                    changed = True
                    break
        return cur


PROP = C23()

"""C35 Common-subexpression rendering preserves meaning.

Level: translation validation.  For every generated DAG (real `hail.ir` node objects, shared Python objects = shared nodes) the
REAL `CSERenderer` output `R` and the REAL `PlainRenderer` output `P` (the same DAG printed as a tree) are
* (model side)  read by the Lean driver and run through the VERIFIED validator `ExprIR.validate` (`Props/C35.lean::validate_sound`:
  accepted => equal value in every environment), the verified scope checker `scopeOk` (value + aggregation scope), the
  branch-locality check and the Lean evaluator on sampled environments;
* (implementation side) read by an independent Python twin of the same checks (own reader, own evaluator).
The two sides must print the same lines (correspondence); the oracle is the property on the Python side's results.
"""
import inspect
import json
import os
import re
import subprocess
import textwrap

from .. import hailenv
from ..framework import Prop

# --------------------------------------------------------------------------------------------------------------------
# reader of the renderer's text (Python side; independent of the Lean reader)


def tokenize(text):
    out = []
    i, n = 0, len(text)
    while i < n:
        c = text[i]
        if c in ' \n\t':
            i += 1
        elif c in '()':
            out.append(c)
            i += 1
        elif c == '"':
            j = i + 1
            buf = []
            while text[j] != '"':
                if text[j] == '\\':
                    buf.append(text[j:j + 2])
                    j += 2
                else:
                    buf.append(text[j])
                    j += 1
            out.append(('str', ''.join(buf)))
            i = j + 1
        elif c == '`':
            j = i + 1
            buf = []
            while text[j] != '`':
                if text[j] == '\\':
                    buf.append(text[j + 1])
                    j += 2
                else:
                    buf.append(text[j])
                    j += 1
            out.append(''.join(buf))
            i = j + 1
        else:
            j = i
            while j < n and text[j] not in ' \n\t()':
                j += 1
            out.append(text[i:j])
            i = j
    return out


def parse_sexp(text):
    toks = tokenize(text)
    pos = 0

    def one():
        nonlocal pos
        t = toks[pos]
        pos += 1
        if t == '(':
            xs = []
            while toks[pos] != ')':
                xs.append(one())
            pos += 1
            return xs
        if t == ')':
            raise ValueError('unexpected )')
        return t

    e = one()
    if pos != len(toks):
        raise ValueError('trailing tokens')
    return e


BIN = {'+': 'add', 'Add': 'add', '-': 'sub', 'Subtract': 'sub', '*': 'mul', 'Multiply': 'mul'}
UN = {'-': 'neg', 'Negate': 'neg', '!': 'not', 'Bang': 'not'}
CMP = {'<': 'lt', 'LT': 'lt', '<=': 'le', 'LTEQ': 'le', '>': 'gt', 'GT': 'gt', '>=': 'ge', 'GTEQ': 'ge', '==': 'eq', 'EQ': 'eq',
       '!=': 'neq', 'NEQ': 'neq'}


def to_ast(s):
    """sexp -> tuple AST (n-ary nodes keep their children in a tuple)"""
    h = s[0]
    if h == 'I32':
        return ('i32', int(s[1]))
    if h == 'True':
        return ('bool', True)
    if h == 'False':
        return ('bool', False)
    if h == 'NA':
        return ('na', s[1])
    if h == 'Ref':
        return ('ref', s[1])
    if h == 'ApplyUnaryPrimOp':
        return ('un', UN[s[1]], to_ast(s[2]))
    if h == 'ApplyBinaryPrimOp':
        return ('bin', BIN[s[1]], to_ast(s[2]), to_ast(s[3]))
    if h == 'ApplyComparisonOp':
        return ('cmp', CMP[s[1]], to_ast(s[2]), to_ast(s[3]))
    if h == 'If':
        return ('if', to_ast(s[1]), to_ast(s[2]), to_ast(s[3]))
    if h == 'Let':
        assert s[1] == 'eval'
        return ('let', s[2], to_ast(s[3]), to_ast(s[4]))
    if h == 'MakeArray':
        return ('arr', s[1], tuple(to_ast(x) for x in s[2:]))
    if h == 'ArrayRef':
        return ('aref', to_ast(s[2]), to_ast(s[3]))
    if h == 'ArrayLen':
        return ('alen', to_ast(s[1]))
    if h in ('ToArray', 'CastToArray'):
        return ('toarray', to_ast(s[1]))
    if h == 'ToStream':
        return ('tostream', to_ast(s[2]))
    if h == 'StreamMap':
        return ('map', s[1], to_ast(s[2]), to_ast(s[3]))
    if h == 'StreamFilter':
        return ('filter', s[1], to_ast(s[2]), to_ast(s[3]))
    if h == 'StreamFold':
        return ('fold', s[1], s[2], to_ast(s[3]), to_ast(s[4]), to_ast(s[5]))
    if h == 'StreamScan':
        return ('scan', s[1], s[2], to_ast(s[3]), to_ast(s[4]), to_ast(s[5]))
    if h == 'MakeStruct':
        return ('struct', tuple((f[0], to_ast(f[1])) for f in s[1:]))
    if h == 'GetField':
        return ('get', to_ast(s[2]), s[1])
    if h == 'InsertFields':
        assert s[2] == 'None'
        return ('ins', to_ast(s[1]), tuple((f[0], to_ast(f[1])) for f in s[3:]))
    if h == 'MakeTuple':
        return ('tuple', tuple(to_ast(x) for x in s[2:]))
    if h == 'GetTupleElement':
        return ('gte', to_ast(s[2]), int(s[1]))
    if h == 'StreamAgg':
        return ('sagg', s[1], to_ast(s[2]), to_ast(s[3]))
    if h == 'AggLet':
        assert s[2] == 'False'
        return ('agglet', s[1], to_ast(s[3]), to_ast(s[4]))
    if h == 'AggFilter':
        assert s[1] == 'False'
        return ('aggfilter', to_ast(s[2]), to_ast(s[3]))
    if h == 'AggExplode':
        assert s[2] == 'False'
        return ('aggexplode', s[1], to_ast(s[3]), to_ast(s[4]))
    if h == 'AggGroupBy':
        assert s[1] == 'False'
        return ('agggroupby', to_ast(s[2]), to_ast(s[3]))
    if h == 'ApplyAggOp':
        assert s[2] == [] and len(s[3]) == 1
        return ('agg', {'Max': 'max', 'Collect': 'collect'}[s[1]], to_ast(s[3][0]))
    raise ValueError(f'unsupported node {h}')


def read_ir(text):
    return to_ast(parse_sexp(text))


# --------------------------------------------------------------------------------------------------------------------
# uniform view of a node: slots(node) -> [(child, value-scope binders, mode)]
#   mode 'v': same scopes; 'a': the child lives in the aggregation scope; ('q', x): StreamAgg query binding x in the agg scope;
#   ('al', x): AggLet body binding x in the agg scope

LEAVES = {'i32', 'bool', 'na', 'ref'}


def slots(n):
    k = n[0]
    if k in LEAVES:
        return []
    if k == 'un':
        return [(n[2], (), 'v')]
    if k in ('bin', 'cmp'):
        return [(n[2], (), 'v'), (n[3], (), 'v')]
    if k == 'if':
        return [(n[1], (), 'v'), (n[2], (), 'v'), (n[3], (), 'v')]
    if k == 'let':
        return [(n[2], (), 'v'), (n[3], (n[1],), 'v')]
    if k == 'arr':
        return [(c, (), 'v') for c in n[2]]
    if k == 'aref':
        return [(n[1], (), 'v'), (n[2], (), 'v')]
    if k in ('alen', 'toarray', 'tostream'):
        return [(n[1], (), 'v')]
    if k in ('map', 'filter'):
        return [(n[2], (), 'v'), (n[3], (n[1],), 'v')]
    if k in ('fold', 'scan'):
        return [(n[3], (), 'v'), (n[4], (), 'v'), (n[5], (n[1], n[2]), 'v')]
    if k == 'struct':
        return [(e, (), 'v') for _, e in n[1]]
    if k == 'get':
        return [(n[1], (), 'v')]
    if k == 'ins':
        return [(n[1], (), 'v')] + [(e, (), 'v') for _, e in n[2]]
    if k == 'tuple':
        return [(c, (), 'v') for c in n[1]]
    if k == 'gte':
        return [(n[1], (), 'v')]
    if k == 'sagg':
        return [(n[2], (), 'v'), (n[3], (), ('q', n[1]))]
    if k == 'agglet':
        return [(n[2], (), 'a'), (n[3], (), ('al', n[1]))]
    if k in ('aggfilter', 'agggroupby'):
        return [(n[1], (), 'a'), (n[2], (), 'v')]
    if k == 'agg':
        return [(n[2], (), 'a')]
    if k == 'aggexplode':
        return [(n[2], (), 'a'), (n[3], (), ('al', n[1]))]
    raise ValueError(k)


AGG_KINDS = {'sagg', 'agglet', 'aggfilter', 'agg', 'aggexplode', 'agggroupby'}
AGG_ONLY = ('agglet', 'aggfilter', 'agg', 'aggexplode', 'agggroupby')        # need an aggregation scope
_CSE = re.compile(r'__cse_\d+\Z')


def is_cse(x):
    return _CSE.match(x) is not None


def scope_ok(n, G, D):
    """G: frozenset of value-scope names; D: frozenset of aggregation-scope names or None"""
    k = n[0]
    if k == 'ref':
        return n[1] in G
    if k in AGG_ONLY and D is None:
        return False
    for c, bs, mode in slots(n):
        if mode == 'v':
            ok = scope_ok(c, G | frozenset(bs), D)
        elif mode == 'a':
            ok = scope_ok(c, D, None)
        elif mode[0] == 'q':
            ok = scope_ok(c, G, G | {mode[1]})
        else:
            ok = scope_ok(c, G, D | {mode[1]})
        if not ok:
            return False
    return True


def unbound_refs(n, G, D, out):
    """names referenced out of scope (for messages)"""
    k = n[0]
    if k == 'ref':
        if n[1] not in G:
            out.append(n[1])
        return out
    if k in AGG_ONLY and D is None:
        out.append(f'<{k} outside any aggregation scope>')
        return out
    for c, bs, mode in slots(n):
        if mode == 'v':
            unbound_refs(c, G | frozenset(bs), D, out)
        elif mode == 'a':
            unbound_refs(c, D, None, out)
        elif mode[0] == 'q':
            unbound_refs(c, G, G | {mode[1]}, out)
        else:
            unbound_refs(c, G, D | {mode[1]}, out)
    return out


def agg_free(n):
    return n[0] not in AGG_KINDS and all(agg_free(c) for c, _, _ in slots(n))


def fv(n):
    """free_vars (value scope), without the agg_capability pseudo-variable"""
    k = n[0]
    if k == 'ref':
        return {n[1]}
    if k == 'sagg':
        return fv(n[2]) | fv(n[3]) | (fva(n[3]) - {n[1]})
    out = set()
    for c, bs, mode in slots(n):
        if mode != 'a':
            out |= fv(c) - set(bs)
    return out


def fva(n):
    """free_agg_vars: what is read from the element environments of the aggregation scope"""
    k = n[0]
    if k in LEAVES:
        return set()
    if k == 'sagg':
        return fva(n[2])
    if k in ('agglet', 'aggexplode'):
        return fv(n[2]) | (fva(n[3]) - {n[1]})
    if k in ('aggfilter', 'agggroupby'):
        return fv(n[1]) | fva(n[2])
    if k == 'agg':
        return fv(n[2])
    out = set()
    for c, _, _ in slots(n):
        out |= fva(c)
    return out


def rebuild(n, f):
    """copy of n with every child c replaced by f(c, binders, mode)"""
    k = n[0]
    if k in LEAVES:
        return n
    it = iter([f(c, bs, m) for c, bs, m in slots(n)])
    if k == 'un':
        return ('un', n[1], next(it))
    if k in ('bin', 'cmp'):
        return (k, n[1], next(it), next(it))
    if k == 'if':
        return ('if', next(it), next(it), next(it))
    if k == 'let':
        return ('let', n[1], next(it), next(it))
    if k == 'arr':
        return ('arr', n[1], tuple(it))
    if k == 'aref':
        return ('aref', next(it), next(it))
    if k in ('alen', 'toarray', 'tostream'):
        return (k, next(it))
    if k in ('map', 'filter'):
        return (k, n[1], next(it), next(it))
    if k in ('fold', 'scan'):
        return (k, n[1], n[2], next(it), next(it), next(it))
    if k == 'struct':
        return ('struct', tuple((f_, next(it)) for f_, _ in n[1]))
    if k == 'get':
        return ('get', next(it), n[2])
    if k == 'ins':
        return ('ins', next(it), tuple((f_, next(it)) for f_, _ in n[2]))
    if k == 'tuple':
        return ('tuple', tuple(it))
    if k == 'gte':
        return ('gte', next(it), n[2])
    if k == 'sagg':
        return ('sagg', n[1], next(it), next(it))
    if k in ('agglet', 'aggexplode'):
        return (k, n[1], next(it), next(it))
    if k in ('aggfilter', 'agggroupby'):
        return (k, next(it), next(it))
    if k == 'agg':
        return ('agg', n[1], next(it))
    raise ValueError(k)


def uses_agg(n):
    """does the value depend on the ambient aggregation scope (agg_capability in free_vars)?"""
    k = n[0]
    if k in ('agg', 'aggfilter', 'aggexplode', 'agggroupby'):
        return True
    if k == 'agglet':
        return uses_agg(n[3])
    if k == 'sagg':
        return uses_agg(n[2])
    return any(uses_agg(c) for c, _, _ in slots(n))


def subst(x, v, n):
    """value-scope substitution; aggregation-scope children and StreamAgg queries are left alone"""
    k = n[0]
    if k == 'ref':
        return v if n[1] == x else n
    if k == 'sagg':
        return ('sagg', n[1], subst(x, v, n[2]), n[3])
    if k in ('agglet', 'aggexplode'):
        return (k, n[1], n[2], subst(x, v, n[3]))
    if k in ('aggfilter', 'agggroupby'):
        return (k, n[1], subst(x, v, n[2]))
    if k == 'agg':
        return n
    return rebuild(n, lambda c, bs, m: c if x in bs else subst(x, v, c))


def subst_ok(x, F, FA, dep, n):
    k = n[0]
    if k == 'sagg':
        return subst_ok(x, F, FA, dep, n[2]) and x not in (fv(n[3]) | (fva(n[3]) - {n[1]}))
    if k in ('aggfilter', 'agggroupby'):
        return x not in fv(n[2]) or (not dep and subst_ok(x, F, FA, dep, n[2]))
    if k == 'aggexplode':
        return x not in fv(n[3]) or (not dep and subst_ok(x, F, FA, dep, n[3]))
    if k == 'agglet':
        return x not in fv(n[3]) or ((not dep or n[1] not in FA) and subst_ok(x, F, FA, dep, n[3]))
    if k == 'agg':
        return True
    for c, bs, _ in slots(n):
        if not bs:
            if not subst_ok(x, F, FA, dep, c):
                return False
        elif not (x in bs or x not in fv(c) or (not (set(bs) & F) and subst_ok(x, F, FA, dep, c))):
            return False
    return True


def subst_a(x, v, n):
    """aggregation-scope substitution (an AggLet binding): only aggregation-scope children see x"""
    k = n[0]
    if k in LEAVES:
        return n
    if k == 'sagg':
        return ('sagg', n[1], subst_a(x, v, n[2]), n[3])
    if k in ('agglet', 'aggexplode'):
        return (k, n[1], subst(x, v, n[2]), n[3] if n[1] == x else subst_a(x, v, n[3]))
    if k in ('aggfilter', 'agggroupby'):
        return (k, subst(x, v, n[1]), subst_a(x, v, n[2]))
    if k == 'agg':
        return ('agg', n[1], subst(x, v, n[2]))
    return rebuild(n, lambda c, bs, m: subst_a(x, v, c))


def subst_a_ok(x, F, FA, dep, n):
    k = n[0]
    if k == 'sagg':
        return subst_a_ok(x, F, FA, dep, n[2])
    if k in ('agglet', 'aggexplode'):
        return subst_ok(x, F, FA, dep, n[2]) and (n[1] == x or x not in fva(n[3]) or (n[1] not in F and subst_a_ok(x, F, FA, dep, n[3])))
    if k in ('aggfilter', 'agggroupby'):
        return subst_ok(x, F, FA, dep, n[1]) and subst_a_ok(x, F, FA, dep, n[2])
    if k == 'agg':
        return subst_ok(x, F, FA, dep, n[2])
    return all(subst_a_ok(x, F, FA, dep, c) for c, _, _ in slots(n))


def inline_cse(n):
    k = n[0]
    if k == 'let':
        v, b = inline_cse(n[2]), inline_cse(n[3])
        return subst(n[1], v, b) if is_cse(n[1]) else ('let', n[1], v, b)
    if k == 'agglet':
        v, b = inline_cse(n[2]), inline_cse(n[3])
        return subst_a(n[1], v, b) if is_cse(n[1]) else ('agglet', n[1], v, b)
    return rebuild(n, lambda c, bs, m: inline_cse(c))


def inline_ok(n):
    k = n[0]
    if k in ('let', 'agglet'):
        if not (inline_ok(n[2]) and inline_ok(n[3])):
            return False
        if not is_cse(n[1]):
            return True
        v, b = inline_cse(n[2]), inline_cse(n[3])
        return (subst_ok if k == 'let' else subst_a_ok)(n[1], fv(v), fva(v), uses_agg(v), b)
    return all(inline_ok(c) for c, _, _ in slots(n))


def validate(r, p):
    return inline_ok(r) and inline_cse(r) == p


def count_ref(x, n):
    if n[0] == 'ref':
        return 1 if n[1] == x else 0
    return sum(count_ref(x, c) for c, _, _ in slots(n))


def cse_binders(n):
    out = []
    if n[0] in ('let', 'agglet') and is_cse(n[1]):
        out.append((n[1], count_ref(n[1], n[3])))
    for c, _, _ in slots(n):
        out += cse_binders(c)
    return out


def ref_under_if(x, n):
    if n[0] == 'if':
        return ref_under_if(x, n[1]) or count_ref(x, n[2]) > 0 or count_ref(x, n[3]) > 0
    return any(ref_under_if(x, c) for c, _, _ in slots(n))


def branch_local(n):
    if n[0] in ('let', 'agglet') and is_cse(n[1]) and ref_under_if(n[1], n[3]):
        return False
    return all(branch_local(c) for c, _, _ in slots(n))


def binder_depths(n, d=0, out=None):
    """for every __cse binding: number of enclosing binders (lambdas / lets / agg scopes)"""
    out = [] if out is None else out
    if n[0] in ('let', 'agglet') and is_cse(n[1]):
        out.append(d)
    for c, bs, m in slots(n):
        binder_depths(c, d + (1 if bs or m != 'v' else 0), out)
    return out


# --------------------------------------------------------------------------------------------------------------------
# evaluator (Python side).  Values: ('i', n) ('b', bool) ('na',) ('err',) ('arr', [v]) ('st', [(f, v)]) ('tup', [v])

NA = ('na',)
ERR = ('err',)


def wrap32(n):
    return (n + 2147483648) % 4294967296 - 2147483648


def is_true(v):
    return v == ('b', True)


def as_arr(v):
    if v[0] == 'arr':
        return v[1], None
    return None, (NA if v == NA else ERR)


def binop(op, a, b):
    if a == ERR or b == ERR:
        return ERR
    if a == NA or b == NA:
        return NA
    if a[0] == 'i' and b[0] == 'i':
        x, y = a[1], b[1]
        return ('i', wrap32(x + y if op == 'add' else x - y if op == 'sub' else x * y))
    return ERR


def unop(op, a):
    if a == ERR:
        return ERR
    if a == NA:
        return NA
    if a[0] == 'i':
        return ('i', wrap32(-a[1])) if op == 'neg' else ERR
    if a[0] == 'b':
        return ('b', not a[1]) if op == 'not' else ERR
    return ERR


def cmpop(op, a, b):
    if a == ERR or b == ERR:
        return ERR
    if a == NA or b == NA:
        return NA
    if (a[0] == 'i' and b[0] == 'i') or (a[0] == 'b' and b[0] == 'b'):
        x, y = int(a[1]), int(b[1])
        return ('b', {'lt': x < y, 'le': x <= y, 'gt': x > y, 'ge': x >= y, 'eq': x == y, 'neq': x != y}[op])
    return ERR


def max_vals(vs):
    acc = NA
    for v in reversed(vs):
        if v[0] == 'i' and acc[0] == 'i':
            acc = ('i', acc[1] if v[1] < acc[1] else v[1])
        elif v[0] == 'i' and acc == NA:
            acc = v
        elif v == NA:
            pass
        else:
            acc = ERR
    return acc


def key_eq(a, b):
    """equality of group-by keys: scalars only (a non-scalar key is its own group)"""
    if a[0] in ('i', 'b') and a[0] == b[0]:
        return a[1] == b[1]
    return a == NA and b == NA


def dedup_keys(ks):
    out = []
    for k in reversed(ks):
        out = [k] + [k2 for k2 in out if not key_eq(k, k2)]
    return out


def ev(n, rho, A):
    """rho: dict name -> value; A: list of dicts (aggregation scope)"""
    k = n[0]
    if k == 'i32':
        return ('i', wrap32(n[1]))
    if k == 'bool':
        return ('b', n[1])
    if k == 'na':
        return NA
    if k == 'ref':
        return rho.get(n[1], ERR)
    if k == 'un':
        return unop(n[1], ev(n[2], rho, A))
    if k == 'bin':
        return binop(n[1], ev(n[2], rho, A), ev(n[3], rho, A))
    if k == 'cmp':
        return cmpop(n[1], ev(n[2], rho, A), ev(n[3], rho, A))
    if k == 'if':
        c = ev(n[1], rho, A)
        if c == ('b', True):
            return ev(n[2], rho, A)
        if c == ('b', False):
            return ev(n[3], rho, A)
        return NA if c == NA else ERR
    if k == 'let':
        r2 = dict(rho)
        r2[n[1]] = ev(n[2], rho, A)
        return ev(n[3], r2, A)
    if k == 'arr':
        return ('arr', [ev(c, rho, A) for c in n[2]])
    if k == 'aref':
        a, i = ev(n[1], rho, A), ev(n[2], rho, A)
        if a == ERR or i == ERR:
            return ERR
        if a == NA or i == NA:
            return NA
        if a[0] == 'arr' and i[0] == 'i':
            return a[1][i[1]] if 0 <= i[1] < len(a[1]) else ERR
        return ERR
    if k == 'alen':
        a = ev(n[1], rho, A)
        return ('i', wrap32(len(a[1]))) if a[0] == 'arr' else NA if a == NA else ERR
    if k in ('toarray', 'tostream'):
        vs, o = as_arr(ev(n[1], rho, A))
        return o if vs is None else ('arr', vs)
    if k in ('map', 'filter'):
        vs, o = as_arr(ev(n[2], rho, A))
        if vs is None:
            return o
        out = []
        for w in vs:
            r2 = dict(rho)
            r2[n[1]] = w
            b = ev(n[3], r2, A)
            if k == 'map':
                out.append(b)
            elif is_true(b):
                out.append(w)
        return ('arr', out)
    if k == 'fold':
        vs, o = as_arr(ev(n[3], rho, A))
        if vs is None:
            return o
        s = ev(n[4], rho, A)
        for w in vs:
            r2 = dict(rho)
            r2[n[1]] = s
            r2[n[2]] = w
            s = ev(n[5], r2, A)
        return s
    if k == 'scan':
        vs, o = as_arr(ev(n[3], rho, A))
        if vs is None:
            return o
        s = ev(n[4], rho, A)
        out = [s]
        for w in vs:
            r2 = dict(rho)
            r2[n[1]] = s
            r2[n[2]] = w
            s = ev(n[5], r2, A)
            out.append(s)
        return ('arr', out)
    if k == 'struct':
        return ('st', [(f, ev(e, rho, A)) for f, e in n[1]])
    if k == 'get':
        o = ev(n[1], rho, A)
        if o[0] == 'st':
            for f, v in o[1]:
                if f == n[2]:
                    return v
            return ERR
        return NA if o == NA else ERR
    if k == 'ins':
        o = ev(n[1], rho, A)
        if o[0] != 'st':
            return NA if o == NA else ERR
        fs = list(o[1])
        for f, e in n[2]:
            v = ev(e, rho, A)
            for j, (g, _) in enumerate(fs):
                if g == f:
                    fs[j] = (g, v)
                    break
            else:
                fs.append((f, v))
        return ('st', fs)
    if k == 'tuple':
        return ('tup', [ev(c, rho, A) for c in n[1]])
    if k == 'gte':
        o = ev(n[1], rho, A)
        if o[0] == 'tup':
            return o[1][n[2]] if n[2] < len(o[1]) else ERR
        return NA if o == NA else ERR
    if k == 'sagg':
        vs, o = as_arr(ev(n[2], rho, A))
        if vs is None:
            return o
        A2 = []
        for w in vs:
            r2 = dict(rho)
            r2[n[1]] = w
            A2.append(r2)
        return ev(n[3], rho, A2)
    if k == 'agglet':
        A2 = []
        for s in A:
            s2 = dict(s)
            s2[n[1]] = ev(n[2], s, [])
            A2.append(s2)
        return ev(n[3], rho, A2)
    if k == 'aggfilter':
        return ev(n[2], rho, [s for s in A if is_true(ev(n[1], s, []))])
    if k == 'agg':
        vs = [ev(n[2], s, []) for s in A]
        return max_vals(vs) if n[1] == 'max' else ('arr', vs)
    if k == 'aggexplode':
        A2 = []
        for s in A:
            vs, _ = as_arr(ev(n[2], s, []))
            for w in (vs or []):
                s2 = dict(s)
                s2[n[1]] = w
                A2.append(s2)
        return ev(n[3], rho, A2)
    if k == 'agggroupby':
        keyed = [(ev(n[1], s, []), s) for s in A]
        return ('dict', [(kv, ev(n[2], rho, [s for kk, s in keyed if key_eq(kk, kv)])) for kv in dedup_keys([kk for kk, _ in keyed])])
    raise ValueError(k)


def show_val(v):
    k = v[0]
    if k == 'i':
        return f'(i {v[1]})'
    if k == 'b':
        return '(b 1)' if v[1] else '(b 0)'
    if k in ('na', 'err'):
        return f'({k})'
    if k == 'arr':
        return '(arr' + ''.join(' ' + show_val(x) for x in v[1]) + ')'
    if k == 'tup':
        return '(tup' + ''.join(' ' + show_val(x) for x in v[1]) + ')'
    if k == 'st':
        return '(st' + ''.join(f' ({f} {show_val(x)})' for f, x in v[1]) + ')'
    if k == 'dict':
        return '(dict' + ''.join(f' ({show_val(a)} {show_val(b)})' for a, b in v[1]) + ')'
    raise ValueError(k)


def val_of_json(j):
    """case JSON value -> evaluator value: int | bool | None | list | {'st': [[f, v]]} | {'tup': [v]}"""
    if j is None:
        return NA
    if isinstance(j, bool):
        return ('b', j)
    if isinstance(j, int):
        return ('i', j)
    if isinstance(j, list):
        return ('arr', [val_of_json(x) for x in j])
    if 'st' in j:
        return ('st', [(f, val_of_json(x)) for f, x in j['st']])
    return ('tup', [val_of_json(x) for x in j['tup']])


# --------------------------------------------------------------------------------------------------------------------
# generator of DAG cases.  Types: 'i32' 'bool' ['arr', t] ['stream', t] ['st', [[f, t]]] ['tup', [t]]

I32, BOOL = 'i32', 'bool'
ST_AB = ['st', [['a', I32], ['b', I32]]]
ST_XS = ['st', [['n', I32], ['xs', ['arr', I32]]]]
TUP = ['tup', [I32, BOOL]]
DICT_II = ['dict', I32, I32]                 # AggGroupBy results
DICT_BA = ['dict', BOOL, ['arr', I32]]
TUP_D = ['tup', [DICT_II, I32]]
TUP_DD = ['tup', [DICT_II, DICT_II]]
GLOBALS = {'g0': I32, 'g1': I32, 'ga': ['arr', I32], 'gs': ST_AB, 'gb': BOOL}
ROOT_TYPES = [I32, I32, BOOL, ['arr', I32], ['arr', I32], ['arr', ST_AB], ST_XS, ST_AB, TUP]
AGG_ROOT_TYPES = [I32, I32, I32, ['arr', I32], DICT_II, DICT_BA, TUP_D, TUP_DD]


def tkey(t):
    return json.dumps(t)


class Scope:
    def __init__(self, ev, ag):
        self.ev = ev        # name -> type (value scope)
        self.ag = ag        # name -> type (aggregation scope) or None


class Gen:
    """builds one DAG (list of node records in topological order) with deliberate sharing of node indices"""

    def __init__(self, rng, share, shadow, use_agg):
        self.rng = rng
        self.nodes = []
        self.info = []      # per node: (type key, fv {name: tkey}, fav {name: tkey}, uses_agg)
        self.share = share
        self.shadow = shadow
        self.use_agg = use_agg
        self.counter = 0
        self.names_used = []

    def add(self, node, t, fv_, fav, agg):
        self.nodes.append(node)
        self.info.append((tkey(t), fv_, fav, agg))
        return len(self.nodes) - 1

    # ---- bookkeeping of free variables --------------------------------------------------------------------------
    def merge(self, kids, bound=()):
        fv_, fav, agg = {}, {}, False
        for i in kids:
            _, f, a, g = self.info[i]
            fv_.update(f)
            fav.update(a)
            agg = agg or g
        for b in bound:
            fv_.pop(b, None)
        return fv_, fav, agg

    def fresh_name(self, scope):
        rng = self.rng
        if self.names_used and rng.random() < self.shadow:
            return rng.choice(self.names_used)
        self.counter += 1
        n = f'x{self.counter}'
        self.names_used.append(n)
        return n

    # ---- reuse -------------------------------------------------------------------------------------------------
    def candidates(self, t, scope):
        tk = tkey(t)
        out = []
        for i, (ti, f, a, g) in enumerate(self.info):
            if ti != tk:
                continue
            if any(tkey(scope.ev.get(n)) != ty if n in scope.ev else True for n, ty in f.items()):
                continue
            if g or a:
                if scope.ag is None:
                    continue
                if any(tkey(scope.ag.get(n)) != ty if n in scope.ag else True for n, ty in a.items()):
                    continue
            out.append(i)
        return out

    def expr(self, t, scope, depth):
        rng = self.rng
        if rng.random() < self.share:
            cs = self.candidates(t, scope)
            if cs:
                # prefer non-leaf nodes: sharing a literal or a Ref is legal but less interesting
                big = [i for i in cs if self.nodes[i][0] not in ('i32', 'bool', 'ref', 'na')]
                pool = big if big and rng.random() < 0.85 else cs
                return rng.choice(pool)
        return self.fresh(t, scope, depth)

    # ---- fresh nodes -------------------------------------------------------------------------------------------
    def leaf(self, t, scope):
        rng = self.rng
        vs = [n for n, ty in scope.ev.items() if tkey(ty) == tkey(t)]
        if vs and rng.random() < 0.6:
            n = rng.choice(vs)
            return self.add(['ref', n, t], t, {n: tkey(t)}, {}, False)
        if t == I32:
            return self.add(['i32', rng.choice([0, 1, 2, 3, 5, -1, 7, 100, 2147483647, -2147483648])], t, {}, {}, False)
        if t == BOOL:
            return self.add(['bool', rng.random() < 0.5], t, {}, {}, False)
        if t[0] == 'arr':
            k = rng.choice([0, 1, 2, 2, 3])
            kids = [self.leaf(t[1], scope) for _ in range(k)]
            return self.add(['arr', t[1], kids], t, *self.merge(kids))
        if t[0] == 'stream':
            a = self.leaf(['arr', t[1]], scope)
            return self.add(['tostream', a], t, *self.merge([a]))
        if t[0] == 'st':
            kids = [self.leaf(ft, scope) for _, ft in t[1]]
            return self.add(['struct', [[f, k] for (f, _), k in zip(t[1], kids)]], t, *self.merge(kids))
        if t[0] == 'tup':
            kids = [self.leaf(et, scope) for et in t[1]]
            return self.add(['tuple', kids], t, *self.merge(kids))
        if t[0] == 'dict':
            # no literal of dict type: the smallest producer is a group-by (inside a query) / a StreamAgg around one (outside)
            return self.fresh(t, scope, 1)
        raise ValueError(t)

    def lam(self, scope, name, ty):
        ev = dict(scope.ev)
        ev[name] = ty
        # aggregations are not generated below a lambda inside a query
        return Scope(ev, None)

    def fresh(self, t, scope, depth):
        rng = self.rng
        if depth <= 0 and t[0] != 'dict':
            return self.leaf(t, scope)
        d = max(depth - 1, 0)
        opts = ['leaf', 'if', 'let']
        if t == I32:
            opts += ['bin', 'bin', 'bin', 'neg', 'aref', 'alen', 'fold', 'get', 'gte']
            if scope.ag is not None:
                opts = (['aggmax'] * 5 + ['aggfilter'] * 3 + ['agglet'] * 3 + ['bin'] * 4 + ['if', 'let', 'leaf', 'neg'] + ['aggshare'] * 5
                        + ['aggexplode'] * 3 + ['alen'] * 2 + ['bindshare'] * 4)
            elif self.use_agg:
                opts += ['sagg'] * 4
        elif t == BOOL:
            opts += ['cmp', 'cmp', 'not', 'gte']
        elif t[0] == 'arr':
            opts += ['mk', 'mk', 'toarray', 'toarray', 'toarray']
            if t[1] == I32:
                opts += ['get']
            if scope.ag is not None:
                opts = ['aggcollect'] * 4 + ['aggfilter'] * 2 + ['agglet'] * 2 + ['aggexplode'] * 2 + ['mk', 'if', 'let']
        elif t[0] == 'stream':
            opts = ['tostream', 'map', 'map', 'filter'] + (['scan', 'scan'] if t[1] == I32 else [])
        elif t[0] == 'st':
            opts += ['mk', 'mk', 'ins', 'ins'] if t[1] else ['mk']
        elif t[0] == 'tup':
            opts += ['mk', 'mk']
            if t in (TUP_D, TUP_DD):
                if scope.ag is not None:
                    opts += ['tupshare' if t == TUP_D else 'dictshare'] * 4
                elif self.use_agg:
                    opts += ['sagg'] * 5
        elif t[0] == 'dict':
            if scope.ag is not None:
                opts = ['agggroupby'] * 5 + ['groupshare'] * 3 + (['aggfilter', 'agglet', 'aggexplode', 'if', 'let'] if depth > 0 else [])
            else:
                opts = ['sagg'] * 4 + (['if', 'let'] if depth > 0 else [])
        o = rng.choice(opts)
        if o in ('aggshare', 'groupshare', 'tupshare', 'dictshare'):
            # ONE aggregation object used under an AggFilter / AggExplode / AggGroupBy and outside it (or twice under it, or under
            # two of them): its meaning differs per occurrence, so it must not be lifted across that boundary
            agg_scope = Scope(dict(scope.ag), None)
            a = self.expr(I32, agg_scope, d)
            fa, _, _ = self.merge([a])
            if rng.random() < 0.6:
                agg = self.add(['agg', 'Max', a], I32, {}, fa, True)
            else:
                coll = self.add(['agg', 'Collect', a], ['arr', I32], {}, dict(fa), True)
                agg = self.add(['alen', coll], I32, {}, dict(fa), True)

            def boundary(body, body_t, kind):
                """body under a fresh boundary node of the given kind -> (node, type)"""
                _, fav_b, _ = self.merge([body])
                fav = dict(fav_b)
                if kind == 'filter':
                    c = self.expr(BOOL, agg_scope, max(d, 1))
                    fav.update(self.merge([c])[0])
                    return self.add(['aggfilter', c, body], body_t, {}, fav, True), body_t
                if kind == 'explode':
                    st = self.expr(['stream', I32], agg_scope, max(d, 1))
                    fav.update(self.merge([st])[0])
                    self.counter += 1            # a brand-new name: the body exists already and must not be captured
                    nm = f'x{self.counter}'
                    self.names_used.append(nm)
                    return self.add(['aggexplode', nm, st, body], body_t, {}, fav, True), body_t
                kt = I32 if kind == 'group-i32' else rng.choice([I32, BOOL])
                kx = self.expr(kt, agg_scope, max(d, 1))
                fav.update(self.merge([kx])[0])
                dt = ['dict', kt, body_t]
                return self.add(['agggroupby', kx, body], dt, {}, fav, True), dt

            if rng.random() < 0.35:
                # the shared object is itself an AggFilter / AggExplode node (they carry the capability themselves)
                agg = boundary(agg, I32, rng.choice(['filter', 'explode']))[0]
                fa = dict(self.info[agg][2])
            if o == 'dictshare':
                # ONE AggGroupBy object (it carries the capability itself) under an AggFilter / AggExplode and outside it
                g0, _ = boundary(agg, I32, 'group-i32')
                g1, _ = boundary(g0, DICT_II, rng.choice(['filter', 'explode']))
                kids = [g1, g0] if rng.random() < 0.5 else [g0, g1]
                return self.add(['tuple', kids], t, *self.merge(kids))
            if o == 'tupshare':
                # (group-by of the aggregation, the same aggregation outside the group-by)
                g1, _ = boundary(agg, I32, 'group-i32')
                return self.add(['tuple', [g1, agg]], t, *self.merge([g1, agg]))
            if o == 'groupshare':
                # t is a dict<K, I32> / dict<K, arr<I32>> type: the aggregation twice under ONE group-by (the binding belongs inside)
                if t[2] == I32:
                    body = self.add(['bin', rng.choice(['+', '*', '-']), agg, agg], I32, {}, dict(fa), True)
                else:
                    body = self.add(['arr', I32, [agg, agg]], ['arr', I32], {}, dict(fa), True)
                kx = self.expr(t[1], agg_scope, max(d, 1))
                fav = dict(fa)
                fav.update(self.merge([kx])[0])
                return self.add(['agggroupby', kx, body], t, {}, fav, True)
            kind = rng.choice(['filter', 'filter', 'explode'])
            shape = rng.choice(['under+outside', 'twice-under', 'two-boundaries'])
            if shape == 'twice-under':
                body = self.add(['bin', rng.choice(['+', '*', '-']), agg, agg], I32, {}, dict(fa), True)
                return boundary(body, I32, kind)[0]
            f1, _ = boundary(agg, I32, kind)
            other = boundary(agg, I32, rng.choice(['filter', 'explode']))[0] if shape == 'two-boundaries' else agg
            return self.add(['bin', rng.choice(['+', '-', '*']), f1, other], I32, *self.merge([f1, other]))
        if o == 'leaf':
            return self.leaf(t, scope)
        if o == 'if':
            c = self.expr(BOOL, scope, d)
            a = self.expr(t, scope, d)
            b = self.expr(t, scope, d)
            return self.add(['if', c, a, b], t, *self.merge([c, a, b]))
        if o == 'let':
            vt = rng.choice([I32, I32, BOOL, ['arr', I32], ST_AB])
            v = self.expr(vt, scope, d)
            x = self.fresh_name(scope)
            ev = dict(scope.ev)
            ev[x] = vt
            b = self.expr(t, Scope(ev, scope.ag), d)
            fb, ab, gb = self.merge([b], [x])
            fv_, fav, g = self.merge([v])
            fv_.update(fb)
            fav.update(ab)
            return self.add(['let', x, v, b], t, fv_, fav, g or gb)
        if o == 'bin':
            a = self.expr(I32, scope, d)
            b = self.expr(I32, scope, d)
            return self.add(['bin', rng.choice(['+', '-', '*']), a, b], t, *self.merge([a, b]))
        if o == 'neg':
            a = self.expr(I32, scope, d)
            return self.add(['un', '-', a], t, *self.merge([a]))
        if o == 'not':
            a = self.expr(BOOL, scope, d)
            return self.add(['un', '!', a], t, *self.merge([a]))
        if o == 'cmp':
            a = self.expr(I32, scope, d)
            b = self.expr(I32, scope, d)
            return self.add(['cmp', rng.choice(['<', '<=', '>', '>=', '==', '!=']), a, b], t, *self.merge([a, b]))
        if o == 'aref':
            a = self.expr(['arr', I32], scope, d)
            i = self.expr(I32, scope, 0) if rng.random() < 0.5 else self.add(['i32', rng.choice([0, 0, 1, 2])], I32, {}, {}, False)
            return self.add(['aref', a, i], t, *self.merge([a, i]))
        if o == 'alen':
            a = self.expr(['arr', rng.choice([I32, ST_AB])], scope, d)
            return self.add(['alen', a], t, *self.merge([a]))
        if o == 'get':
            st = rng.choice([ST_AB, ST_XS])
            fields = [f for f, ft in st[1] if tkey(ft) == tkey(t)]
            if not fields:
                st = ST_XS if t != I32 else ST_AB
                fields = [f for f, ft in st[1] if tkey(ft) == tkey(t)]
            s = self.expr(st, scope, d)
            return self.add(['get', s, rng.choice(fields)], t, *self.merge([s]))
        if o == 'gte':
            s = self.expr(TUP, scope, d)
            return self.add(['gte', s, 0 if t == I32 else 1], t, *self.merge([s]))
        if o in ('fold', 'scan'):
            et = rng.choice([I32, I32, ST_AB])
            s = self.expr(['stream', et], scope, d)
            z = self.expr(I32, scope, d)
            acc = self.fresh_name(scope)
            v = self.fresh_name(scope)
            ev = dict(scope.ev)
            ev[acc] = I32
            ev[v] = et
            r = rng.random()
            if r < 0.45:
                # ONE sub-expression that depends on the accumulator only (or on the element only), used several times in the body:
                # d = acc * k;  (d + x) * (d - x) + d   — its binding belongs inside the body, below the binder of the accumulator
                dep = acc if r < 0.3 or et != I32 else v
                rd = self.add(['ref', dep, I32], I32, {dep: tkey(I32)}, {}, False)
                k = self.expr(I32, Scope(dict(scope.ev), None), 0)
                dd = self.add(['bin', rng.choice(['*', '+', '-']), rd, k], I32, *self.merge([rd, k]))
                other = self.expr(I32, Scope(ev, None), min(d, 1))
                p1 = self.add(['bin', '+', dd, other], I32, *self.merge([dd, other]))
                p2 = self.add(['bin', '-', dd, other], I32, *self.merge([dd, other]))
                pm = self.add(['bin', '*', p1, p2], I32, *self.merge([p1, p2]))
                b = self.add(['bin', '+', pm, dd], I32, *self.merge([pm, dd]))
            else:
                b = self.expr(I32, Scope(ev, None), d)
            fb, ab, gb = self.merge([b], [acc, v])
            fv_, fav, g = self.merge([s, z])
            fv_.update(fb)
            return self.add([o, acc, v, s, z, b], t, fv_, fav, g)
        if o == 'mk':
            if t[0] == 'arr':
                kids = [self.expr(t[1], scope, d) for _ in range(rng.choice([1, 2, 2, 3]))]
                return self.add(['arr', t[1], kids], t, *self.merge(kids))
            if t[0] == 'st':
                kids = [self.expr(ft, scope, d) for _, ft in t[1]]
                return self.add(['struct', [[f, k] for (f, _), k in zip(t[1], kids)]], t, *self.merge(kids))
            kids = [self.expr(et, scope, d) for et in t[1]]
            return self.add(['tuple', kids], t, *self.merge(kids))
        if o == 'ins':
            k = rng.randint(0, len(t[1]) - 1)
            old_t = ['st', t[1][:k]] if rng.random() < 0.6 else t
            old = self.expr(old_t, scope, d)
            new = t[1][k:] if old_t is not t else [rng.choice(t[1])]
            kids = [self.expr(ft, scope, d) for _, ft in new]
            return self.add(['ins', old, [[f, c] for (f, _), c in zip(new, kids)]], t, *self.merge([old] + kids))
        if o == 'toarray':
            s = self.expr(['stream', t[1]], scope, d)
            return self.add(['toarray', s], t, *self.merge([s]))
        if o == 'tostream':
            a = self.expr(['arr', t[1]], scope, d)
            return self.add(['tostream', a], t, *self.merge([a]))
        if o in ('map', 'filter'):
            et = t[1] if o == 'filter' else rng.choice([I32, I32, ST_AB])
            s = self.expr(['stream', et], scope, d)
            x = self.fresh_name(scope)
            b = self.expr(BOOL if o == 'filter' else t[1], self.lam(scope, x, et), d)
            fb, ab, gb = self.merge([b], [x])
            fv_, fav, g = self.merge([s])
            fv_.update(fb)
            return self.add([o, x, s, b], t, fv_, fav, g)
        if o == 'sagg':
            et = rng.choice([I32, I32, ST_AB])
            s = self.expr(['stream', et], scope, d)
            x = self.fresh_name(scope)
            ag = dict(scope.ev)
            ag[x] = et
            q = self.fresh(t, Scope(dict(scope.ev), ag), max(d, 2))
            fq, aq, _ = self.merge([q])
            aq.pop(x, None)
            fv_, fav, g = self.merge([s])
            fv_.update(fq)
            fv_.update(aq)      # agg-scope variables of the query other than x are value-scope variables out here
            return self.add(['sagg', x, s, q], t, fv_, fav, g)
        if o in ('aggmax', 'aggcollect'):
            at = I32 if o == 'aggmax' else t[1]
            a = self.expr(at, Scope(dict(scope.ag), None), d)
            fa, _, _ = self.merge([a])
            return self.add(['agg', 'Max' if o == 'aggmax' else 'Collect', a], t, {}, fa, True)
        if o == 'aggfilter':
            c = self.expr(BOOL, Scope(dict(scope.ag), None), d)
            q = self.expr(t, scope, d)
            fc, _, _ = self.merge([c])
            fq, aq, _ = self.merge([q])
            aq.update(fc)
            return self.add(['aggfilter', c, q], t, fq, aq, True)
        if o == 'bindshare':
            # an aggregation-scope binder (AggLet / AggExplode) whose variable is used by ONE argument expression shared between two
            # aggregation-scope positions of its body: the AggLet that CSE introduces for it belongs inside the binder
            agg_scope = Scope(dict(scope.ag), None)
            x = self.fresh_name(scope)
            if rng.random() < 0.5:
                src = self.expr(I32, agg_scope, d)
                mk = lambda body, fav: self.add(['agglet', x, src, body], I32, {}, fav, True)
            else:
                src = self.expr(['stream', I32], agg_scope, max(d, 1))
                mk = lambda body, fav: self.add(['aggexplode', x, src, body], I32, {}, fav, True)
            inner = dict(scope.ag)
            inner[x] = I32
            rx = self.add(['ref', x, I32], I32, {x: tkey(I32)}, {}, False)
            other = self.expr(I32, Scope(inner, None), min(d, 1))
            arg = self.add(['bin', rng.choice(['+', '*', '-']), rx, other], I32, *self.merge([rx, other]))
            farg, _, _ = self.merge([arg])
            m1 = self.add(['agg', 'Max', arg], I32, {}, dict(farg), True)
            if rng.random() < 0.5:
                lim = self.expr(I32, Scope(inner, None), 0)
                c = self.add(['cmp', rng.choice(['<', '>=', '!=']), arg, lim], BOOL, *self.merge([arg, lim]))
                m2 = self.add(['agg', 'Max', arg], I32, {}, dict(farg), True)
                fav2 = dict(farg)
                fav2.update(self.merge([c])[0])
                m2 = self.add(['aggfilter', c, m2], I32, {}, fav2, True)
            else:
                coll = self.add(['agg', 'Collect', arg], ['arr', I32], {}, dict(farg), True)
                m2 = self.add(['alen', coll], I32, {}, dict(farg), True)
            body = self.add(['bin', rng.choice(['+', '-', '*']), m1, m2], I32, *self.merge([m1, m2]))
            fav = dict(self.info[body][2])
            fav.pop(x, None)
            fav.update(self.merge([src])[0])
            return mk(body, fav)
        if o == 'aggexplode':
            et = rng.choice([I32, I32, ST_AB])
            st = self.expr(['stream', et], Scope(dict(scope.ag), None), d)
            x = self.fresh_name(scope)
            ag = dict(scope.ag)
            ag[x] = et
            b = self.expr(t, Scope(scope.ev, ag), d)
            fs, _, _ = self.merge([st])
            fb, ab, _ = self.merge([b])
            ab.pop(x, None)
            ab.update(fs)
            return self.add(['aggexplode', x, st, b], t, fb, ab, True)
        if o == 'agggroupby':
            kx = self.expr(t[1], Scope(dict(scope.ag), None), d)
            b = self.expr(t[2], scope, d)
            fk, _, _ = self.merge([kx])
            fb, ab, _ = self.merge([b])
            ab.update(fk)
            return self.add(['agggroupby', kx, b], t, fb, ab, True)
        if o == 'agglet':
            vt = rng.choice([I32, BOOL])
            v = self.expr(vt, Scope(dict(scope.ag), None), d)
            x = self.fresh_name(scope)
            ag = dict(scope.ag)
            ag[x] = vt
            b = self.expr(t, Scope(scope.ev, ag), d)
            fvv, _, _ = self.merge([v])
            fb, ab, _ = self.merge([b])
            ab.pop(x, None)
            ab.update(fvv)
            return self.add(['agglet', x, v, b], t, fb, ab, True)
        raise ValueError(o)


def gen_value(rng, t):
    if rng.random() < 0.07:
        return None
    if t == I32:
        return rng.choice([0, 1, 2, 3, -1, -5, 4, 10, 2147483647, -2147483648, rng.randint(-50, 50)])
    if t == BOOL:
        return rng.random() < 0.5
    if t[0] == 'arr':
        return [gen_value(rng, t[1]) for _ in range(rng.choice([0, 1, 2, 3, 4]))]
    if t[0] == 'st':
        return {'st': [[f, gen_value(rng, ft)] for f, ft in t[1]]}
    if t[0] == 'tup':
        return {'tup': [gen_value(rng, et) for et in t[1]]}
    raise ValueError(t)


def prune(nodes, root):
    """keep only the nodes reachable from root, renumbered"""
    keep = []
    seen = set()

    def kids(n):
        k = n[0]
        if k in ('i32', 'bool', 'na', 'ref'):
            return []
        if k == 'un':
            return [n[2]]
        if k in ('bin', 'cmp'):
            return [n[2], n[3]]
        if k == 'if':
            return [n[1], n[2], n[3]]
        if k == 'let':
            return [n[2], n[3]]
        if k == 'arr':
            return list(n[2])
        if k == 'aref':
            return [n[1], n[2]]
        if k in ('alen', 'toarray', 'tostream'):
            return [n[1]]
        if k in ('map', 'filter'):
            return [n[2], n[3]]
        if k in ('fold', 'scan'):
            return [n[3], n[4], n[5]]
        if k == 'struct':
            return [c for _, c in n[1]]
        if k == 'get':
            return [n[1]]
        if k == 'ins':
            return [n[1]] + [c for _, c in n[2]]
        if k == 'tuple':
            return list(n[1])
        if k == 'gte':
            return [n[1]]
        if k == 'sagg':
            return [n[2], n[3]]
        if k in ('agglet', 'aggexplode'):
            return [n[2], n[3]]
        if k in ('aggfilter', 'agggroupby'):
            return [n[1], n[2]]
        if k == 'agg':
            return [n[2]]
        raise ValueError(k)

    def visit(i):
        if i in seen:
            return
        seen.add(i)
        for c in kids(nodes[i]):
            visit(c)
        keep.append(i)

    visit(root)
    keep.sort()
    ren = {old: new for new, old in enumerate(keep)}

    def rn(n):
        k = n[0]
        m = lambda i: ren[i]
        if k in ('i32', 'bool', 'na', 'ref'):
            return list(n)
        if k == 'un':
            return ['un', n[1], m(n[2])]
        if k in ('bin', 'cmp'):
            return [k, n[1], m(n[2]), m(n[3])]
        if k == 'if':
            return ['if', m(n[1]), m(n[2]), m(n[3])]
        if k == 'let':
            return ['let', n[1], m(n[2]), m(n[3])]
        if k == 'arr':
            return ['arr', n[1], [m(c) for c in n[2]]]
        if k == 'aref':
            return ['aref', m(n[1]), m(n[2])]
        if k in ('alen', 'toarray', 'tostream'):
            return [k, m(n[1])]
        if k in ('map', 'filter'):
            return [k, n[1], m(n[2]), m(n[3])]
        if k in ('fold', 'scan'):
            return [k, n[1], n[2], m(n[3]), m(n[4]), m(n[5])]
        if k == 'struct':
            return ['struct', [[f, m(c)] for f, c in n[1]]]
        if k == 'get':
            return ['get', m(n[1]), n[2]]
        if k == 'ins':
            return ['ins', m(n[1]), [[f, m(c)] for f, c in n[2]]]
        if k == 'tuple':
            return ['tuple', [m(c) for c in n[1]]]
        if k == 'gte':
            return ['gte', m(n[1]), n[2]]
        if k == 'sagg':
            return ['sagg', n[1], m(n[2]), m(n[3])]
        if k in ('agglet', 'aggexplode'):
            return [k, n[1], m(n[2]), m(n[3])]
        if k in ('aggfilter', 'agggroupby'):
            return [k, m(n[1]), m(n[2])]
        if k == 'agg':
            return ['agg', n[1], m(n[2])]
        raise ValueError(k)

    return [rn(nodes[i]) for i in keep], ren[root], kids


# minimal witness of the one class of failures that is a known defect of the unchanged tree (known_findings.json):
# StreamAgg.free_vars omits the value-scope free variables of its query, so a shared StreamAgg whose query mentions a lambda
# variable in value position is lifted above the lambda that binds it.
STREAMAGG_WITNESS = {
    'nodes': [['i32', 1], ['arr', 'i32', [0]], ['tostream', 1], ['ref', 'y', 'i32'], ['ref', 'e', 'i32'], ['agg', 'Max', 4],
              ['bin', '+', 5, 3], ['sagg', 'e', 2, 6], ['bin', '*', 7, 7], ['map', 'y', 2, 8], ['toarray', 9]],
    'root': 10, 'free': {}, 'envs': [{}]}


# second known defect: CSEPrintPass identifies a binding site by (id(node), depth).  `StackFrame.make` registers the site in
# `bindings_stack[depth]` as soon as a child frame is *made*; when that child turns out to be an already printed lifted node
# the frame is dropped and the entry stays behind (stale), or — first occurrence — the frame is pushed as a lifted frame with
# insert_lets set (AssertionError).  A later subtree at the same depth then finds the stale entry and prints (Ref __cse_k) for a
# binding that only exists inside another If branch.   M = g0 + 1, N = M * M:  (N + (0 + N)) + (7 + If(gb, 5 - M, N))
STALE_SITE_WITNESS = {
    'nodes': [['ref', 'g0', 'i32'], ['i32', 1], ['bin', '+', 0, 1], ['bin', '*', 2, 2], ['i32', 0], ['bin', '+', 4, 3], ['bin', '+', 3, 5],
              ['ref', 'gb', 'bool'], ['i32', 5], ['bin', '-', 8, 2], ['if', 7, 9, 3], ['i32', 7], ['bin', '+', 11, 10], ['bin', '+', 6, 12]],
    'root': 13, 'free': {'g0': 'i32', 'gb': 'bool'}, 'envs': [{'g0': 3, 'gb': True}]}

KNOWN_CLASSES = {'streamagg-query-free-vars': STREAMAGG_WITNESS, 'stale-binding-site': STALE_SITE_WITNESS}


def patched_print_call(cls):
    """CSEPrintPass.__call__ with the candidate fix for the stale binding-site defect (source transformation of the CURRENT
    method; None when the anchor line is not there): the speculative registration made by the first `make_child_frame` is undone;
    the ordinary path registers again when it really pushes the frame."""
    src = textwrap.dedent(inspect.getsource(cls.__call__))
    anchor = 'child_frame = frame.make_child_frame(self.renderer, binding_sites, bindings_stack)\n'
    i = src.find(anchor)
    if i < 0:
        return None
    line_start = src.rfind('\n', 0, i) + 1
    ind = src[line_start:i]
    fix = (ind + 'if child_frame.insert_lets:\n' + ind + '    del bindings_stack[child_frame.depth]\n'
           + ind + '    child_frame.insert_lets = False\n')
    src2 = src[:i + len(anchor)] + fix + src[i + len(anchor):]
    ns = {}
    exec(compile(src2, '<patched CSEPrintPass.__call__>', 'exec'), vars(inspect.getmodule(cls)), ns)
    return ns['__call__']


# --------------------------------------------------------------------------------------------------------------------
# relational nodes with value children (TableParallelize, TableMapRows, TableFilter …): the value child of a relational node is
# evaluated by the engine in a FRESH scope — only the node's own bindings (`_compute_type`: TableParallelize: nothing;
# TableMapRows / TableFilter: global, row) — and the rendering of a relational node is that node, never a value Let around it

REL_ARITY = {'TableParallelize': 1, 'TableMapRows': 2, 'TableFilter': 2, 'TableCollect': 1, 'TableCount': 1, 'TableGetGlobals': 1, 'TableRange': 0}
REL_OWN = {('TableParallelize', 0): [], ('TableMapRows', 1): ['global', 'row'], ('TableFilter', 1): ['global', 'row']}


def top_elements(text):
    """the top-level elements of a parenthesised text `(a b (c d) "e f")` -> ['a', 'b', '(c d)', '"e f"']"""
    text = text.strip()
    assert text[0] == '(' and text[-1] == ')', text[:40]
    out, i, n = [], 1, len(text) - 1
    while i < n:
        c = text[i]
        if c in ' \n\t':
            i += 1
            continue
        j = i
        if c == '(':
            depth = 0
            while True:
                ch = text[j]
                if ch in '"`':
                    j += 1
                    while text[j] != ch:
                        j += 2 if text[j] == '\\' else 1
                elif ch == '(':
                    depth += 1
                elif ch == ')':
                    depth -= 1
                    if depth == 0:
                        break
                j += 1
            j += 1
        elif c in '"`':
            j += 1
            while text[j] != c:
                j += 2 if text[j] == '\\' else 1
            j += 1
        else:
            while j < n and text[j] not in ' \n\t()':
                j += 1
        out.append(text[i:j])
        i = j
    return out


def rel_walk(rendered, plain):
    """parallel walk over the rendered and the plain text of a relational tree ->
    (problem | None, [(node head, child index, own bindings, rendered child text, plain child text)], skeleton rendered, skeleton plain)"""
    out = []

    def go(r, p):
        pe = top_elements(p)
        head = pe[0]
        if head not in REL_ARITY:
            raise ValueError(f'harness: relational node {head} is outside the generated set')
        re_ = top_elements(r)
        if re_[0] != head:
            return (f'the rendering of the relational node ({head} …) is ({re_[0]} {" ".join(re_[1:3])[:60]} …): a relational node must be '
                    'rendered as that node, a value binding cannot enclose it'), f'({re_[0]} …)', f'({head} …)'
        k = REL_ARITY[head]
        if len(re_) != len(pe) or re_[:len(re_) - k] != pe[:len(pe) - k]:
            return f'the rendering of ({head} …) differs from the node in its head', ' '.join(re_[:len(re_) - k]), ' '.join(pe[:len(pe) - k])
        rs, ps, prob = [], [], None
        for i in range(k):
            rc, pc = re_[len(re_) - k + i], pe[len(pe) - k + i]
            if (head, i) in REL_OWN:
                out.append((head, i, REL_OWN[(head, i)], rc, pc))
                rs.append('_')
                ps.append('_')
            else:
                q, a, b = go(rc, pc)
                prob = prob or q
                rs.append(a)
                ps.append(b)
        mk = lambda xs, cs: '(' + ' '.join(xs[:len(xs) - k] + cs) + ')'
        return prob, mk(re_, rs), mk(pe, ps)

    prob, a, b = go(rendered, plain)
    return prob, out, a, b


def find_node(text, head):
    """(start, end) of the first `(head …)` element of the text"""
    i = text.find('(' + head + ' ')
    if i < 0:
        return None
    depth, j = 0, i
    while True:
        ch = text[j]
        if ch in '"`':
            j += 1
            while text[j] != ch:
                j += 2 if text[j] == '\\' else 1
        elif ch == '(':
            depth += 1
        elif ch == ')':
            depth -= 1
            if depth == 0:
                return i, j + 1
        j += 1


def fold_parts(text):
    """(outer text with the AggFold replaced by its zero, seq_op text, comb_op text, accumulator names) of a text with ONE AggFold"""
    span = find_node(text, 'AggFold')
    if span is None:
        return None
    el = top_elements(text[span[0]:span[1]])
    acc, acc2, zero, seq, comb = el[1], el[2], el[4], el[5], el[6]
    return text[:span[0]] + zero + text[span[1]:], seq, comb, (acc, acc2)


def ensure_reader_built():
    """the driver imports Model/ExprIRRead.lean, which no Props module imports: `lake build <Props>` alone would leave a stale
    reader behind after an edit (the driver would then answer from the old olean).  Cheap when up to date."""
    lean = os.path.join(os.path.dirname(os.path.dirname(os.path.dirname(os.path.abspath(__file__)))), 'lean')
    subprocess.run(['lake', 'build', 'HailVerif.Model.ExprIRRead'], cwd=lean, capture_output=True, text=True)


class C35(Prop):
    id = 'C35'
    title = 'Common-subexpression rendering preserves meaning'
    lean_props = ['HailVerif.Props.C35']
    driver = 'Driver/C35.lean'
    level = 'translation_validation'
    engine = 'E4-frontend'
    design_ref = 'DESIGN.md §4 C35'
    technique = ('translation validation of every generated program by a validator proved sound in Lean 4 (coincidence for free_vars / '
                 'free_agg_vars, substitution lemmas for the value scope and the aggregation scope, inlining of the lifted Let / AggLet '
                 'bindings, decision procedure for well-scopedness) + evaluation of rendered vs inlined IR on '
                 'sampled environments by two independent evaluators (Lean model, Python)')
    level_text = ('Every generated DAG (real hail.ir node objects with shared sub-objects) is rendered by the real CSERenderer and by the '
                  'real PlainRenderer; the Lean driver parses both texts into the model IR and runs (a) the validator `validate` — '
                  'proved in Lean (validate_sound): accepted => rendered and inlined IR have the same value in EVERY environment; '
                  '(b) the scope checker `scopeOk`, proved to decide WellScoped (value scope and aggregation scope); (c) the check that no '
                  'lifted binding is referenced from inside an If branch that does not contain it; (d) both programs evaluated on sampled '
                  'environments.  The validator covers aggregation contexts: value-scope bindings of aggregations inside StreamAgg queries '
                  '(never used across an AggFilter / AggExplode / AggGroupBy, nor across an AggLet that binds one of their free aggregation variables — the '
                  'agg_capability rule, modelled by usesAgg / fva and proved sound) and aggregation-scope bindings (AggLet __cse); EVERY '
                  'generated program must be accepted by it (the evidence counts accepted programs; a rejected one is a violation).  No '
                  'theorem is claimed about the renderer\'s stack machine itself: at the specification level only ONE lifting step is proved '
                  'meaning-preserving (cse_step_preserves: binding any subterm once above a site and replacing its occurrences, except below '
                  'binders that rebind its variables); that the stack machine iterates exactly such steps is not proved.')
    level_note = ('What is proved is about the model: substitution lemma, soundness of the validator, soundness+completeness of the scope '
                  'checker.  What ties it to the code is per-program checking of the real renderer\'s output on generated DAGs only. '
                  'The meaning of IR nodes (eval) is written from the node classes — there is no engine to compare with; failures are '
                  'values, so the model cannot see that the engine evaluates a Let eagerly (only the If-branch rule (c) speaks about it).')
    budget = {'quick': 2500, 'thorough': 40000}
    search_budget = {'quick': 2500, 'thorough': 40000}
    rule = ('case = a DAG over I32/True/False/Ref/ApplyBinaryPrimOp/ApplyUnaryPrimOp/ApplyComparisonOp/If/Let/MakeArray/ArrayRef/ArrayLen/'
            'ToArray/ToStream/StreamMap/StreamFilter/StreamFold/StreamScan/MakeStruct/GetField/InsertFields/MakeTuple/GetTupleElement/StreamAgg/AggLet/'
            'AggFilter/AggExplode/AggGroupBy/ApplyAggOp(Max,Collect) built with the real constructors; a typed random generator reuses already built node '
            'objects wherever they are well-scoped (under lambdas, in If branches, in Let bodies, across binders of the same name, in '
            'aggregation scope; one aggregation / AggFilter / AggExplode / AggGroupBy object under and outside such a node, twice under it, '
            'under two of them; a binder variable of AggLet / AggExplode inside an argument shared by two aggregation-scope positions), '
            'plus 3 random environments for the free variables; 12% `rel` cases: a relational tree TableParallelize / TableRange -> TableMapRows -> '
            'TableFilter under TableCollect / TableCount / TableGetGlobals or bare, whose value children are roots of one DAG (closed sub-DAGs '
            'shared inside and across them), checked child by child in the fresh scope of the node own bindings plus the relational skeleton; '
            'non-trivial = the real renderer lifted at least one '
            'binding; distinct by full case')
    trusted = ['harness/hailenv.py StubBackend (no engine); decorator / deprecated / parsimonious shims on the import path of `hail`',
               'Model/ExprIRRead.lean (reader of the renderer text, n-ary nodes -> cons cells) and its Python twin in harness/props/c35.py',
               'the semantics `ExprIR.eval` (and its Python twin) of the IR nodes, written from hail/ir/ir.py']
    assumptions = ['evaluation is total and pure: a failing operation (ArrayRef out of bounds) is a value, so moving a binding never '
                   'changes an outcome by itself.  The real renderer hoists loop-invariant shared nodes out of stream lambdas '
                   '(StreamMap/Filter/Fold bodies are not blocks); with an eager Let and a zero-iteration stream the engine would '
                   'evaluate (and could fail on) a binding the inlined IR never evaluates — not visible in this model, not claimed',
                   'variable names built by users never start with __cse_',
                   'boundary of the generated language, by the node classes of hail/ir that override a renderable_* hook (new_block / bindings / '
                   'agg_bindings / scan_bindings / uses_agg_context): GENERATED — If, Let, AggLet(False), StreamMap, StreamFilter, StreamFold, '
                   'StreamAgg, AggFilter, AggExplode, AggGroupBy, ApplyAggOp(Max, Collect), AggFold(False) (cut into zero / seq_op / comb_op, each '
                   'checked in the scope AggFold._compute_type gives it), TableParallelize, TableMapRows, TableFilter (+ TableRange, TableCollect, '
                   'TableCount, TableGetGlobals); NOT generated, no statement: every scan context (ApplyScanOp, StreamAggScan, AggLet True, '
                   'AggFold True, scan_bindings of TableMapRows / MatrixMapRows / MatrixMapCols), AggArrayPerElement, TailLoop, '
                   'ArrayMaximalIndependentSet, NDArrayMap, NDArrayMap2, ArraySort, StreamZip, StreamZipJoin, StreamZipJoinProducers, '
                   'StreamFlatMap, StreamJoinRightDistinct, StreamFor, init-op arguments of ApplyAggOp, TableAggregate, '
                   'MatrixAggregate, TableMapGlobals, TableMapPartitions, TableKeyByAndAggregate, TableAggregateByKey, TableGen, all MatrixIR '
                   'and BlockMatrixIR nodes, randomness; AggGroupBy keys are int32 / bool (the model decides key equality for scalars only); '
                   'no statement about CSERenderer on node kinds outside the generated set, nor about the engine\'s parser or evaluator']


    # ---- set-up ---------------------------------------------------------------------------------------------------
    def setup(self, repo):
        ensure_reader_built()
        self.hl = hailenv.init(repo)
        from hail import ir
        import hail.expr.types as T
        from hail.ir.renderer import CSERenderer
        self.ir, self.T, self.CSERenderer = ir, T, CSERenderer
        self.cache = {}
        self.stats = {'verified': 0, 'eval_only': 0, 'programs': 0, 'disagreements': 0, 'known': {}}

    def htype(self, t):
        T = self.T
        if t == I32:
            return T.tint32
        if t == BOOL:
            return T.tbool
        if t[0] == 'arr':
            return T.tarray(self.htype(t[1]))
        if t[0] == 'stream':
            return T.tstream(self.htype(t[1]))
        if t[0] == 'st':
            return T.tstruct(**{f: self.htype(ft) for f, ft in t[1]})
        if t[0] == 'tup':
            return T.ttuple(*[self.htype(et) for et in t[1]])
        if t[0] == 'dict':
            return T.tdict(self.htype(t[1]), self.htype(t[2]))
        raise ValueError(t)

    def build(self, case, all_objs=False):
        """the DAG as real hail.ir objects: node i is ONE Python object however often it is referenced"""
        ir = self.ir
        objs = []
        for n in case['nodes']:
            k = n[0]
            g = lambda i: objs[i]
            if k == 'i32':
                o = ir.I32(n[1])
            elif k == 'bool':
                o = ir.TrueIR() if n[1] else ir.FalseIR()
            elif k == 'na':
                o = ir.NA(self.htype(n[1]))
            elif k == 'ref':
                o = ir.Ref(n[1], self.htype(n[2]))
            elif k == 'un':
                o = ir.ApplyUnaryPrimOp(n[1], g(n[2]))
            elif k == 'bin':
                o = ir.ApplyBinaryPrimOp(n[1], g(n[2]), g(n[3]))
            elif k == 'cmp':
                o = ir.ApplyComparisonOp(n[1], g(n[2]), g(n[3]))
            elif k == 'if':
                o = ir.If(g(n[1]), g(n[2]), g(n[3]))
            elif k == 'let':
                o = ir.Let(n[1], g(n[2]), g(n[3]))
            elif k == 'arr':
                o = ir.MakeArray([g(c) for c in n[2]], self.htype(['arr', n[1]]))
            elif k == 'aref':
                o = ir.ArrayRef(g(n[1]), g(n[2]))
            elif k == 'alen':
                o = ir.ArrayLen(g(n[1]))
            elif k == 'toarray':
                o = ir.ToArray(g(n[1]))
            elif k == 'tostream':
                o = ir.ToStream(g(n[1]))
            elif k == 'map':
                o = ir.StreamMap(g(n[2]), n[1], g(n[3]))
            elif k == 'filter':
                o = ir.StreamFilter(g(n[2]), n[1], g(n[3]))
            elif k == 'fold':
                o = ir.StreamFold(g(n[3]), g(n[4]), n[1], n[2], g(n[5]))
            elif k == 'scan':
                o = ir.StreamScan(g(n[3]), g(n[4]), n[1], n[2], g(n[5]))
            elif k == 'struct':
                o = ir.MakeStruct([(f, g(c)) for f, c in n[1]])
            elif k == 'get':
                o = ir.GetField(g(n[1]), n[2])
            elif k == 'ins':
                o = ir.InsertFields(g(n[1]), [(f, g(c)) for f, c in n[2]], None)
            elif k == 'tuple':
                o = ir.MakeTuple([g(c) for c in n[1]])
            elif k == 'gte':
                o = ir.GetTupleElement(g(n[1]), n[2])
            elif k == 'sagg':
                o = ir.StreamAgg(g(n[2]), n[1], g(n[3]))
            elif k == 'agglet':
                o = ir.AggLet(n[1], g(n[2]), g(n[3]), False)
            elif k == 'aggfilter':
                o = ir.AggFilter(g(n[1]), g(n[2]), False)
            elif k == 'agg':
                o = ir.ApplyAggOp(n[1], [], [g(n[2])])
            elif k == 'aggexplode':
                o = ir.AggExplode(g(n[2]), n[1], g(n[3]), False)
            elif k == 'agggroupby':
                o = ir.AggGroupBy(g(n[1]), g(n[2]), False)
            else:
                raise ValueError(k)
            objs.append(o)
        return objs if all_objs else objs[case['root']]

    def build_rel(self, case):
        """the relational tree of a `rel` case as real hail.ir objects (value children built from ONE DAG: node objects are shared
        inside and ACROSS the value children)"""
        ir, T = self.ir, self.T
        objs = self.build(case, all_objs=True)
        rel = case['rel']
        if rel['par']:
            fields = [(f'a{i}', objs[r]) for i, r in enumerate(rel['par'])]
            row_t = T.tstruct(**{f: o.typ for f, o in fields})
            rows = ir.MakeArray([ir.MakeStruct(fields) for _ in range(rel.get('nrows', 1))], T.tarray(row_t))
            glob = ir.MakeStruct([('gl', objs[rel['glob']])] if rel.get('glob') is not None else [])
            t = ir.TableParallelize(ir.MakeStruct([('rows', rows), ('global', glob)]), None)
            key_field = 'a0'
        else:
            t = ir.TableRange(5, None)
            key_field = 'idx'
        if rel['map']:
            row = ir.Ref('row', t.typ.row_type)
            t = ir.TableMapRows(t, ir.Let('g0', ir.GetField(row, key_field),
                                          ir.InsertFields(ir.Ref('row', t.typ.row_type), [(f'm{i}', objs[r]) for i, r in enumerate(rel['map'])], None)))
        if rel.get('filt') is not None:
            row = ir.Ref('row', t.typ.row_type)
            t = ir.TableFilter(t, ir.Let('g0', ir.GetField(row, key_field), objs[rel['filt']]))
        return {'bare': lambda: t, 'collect': lambda: ir.TableCollect(t), 'count': lambda: ir.TableCount(t),
                'globals': lambda: ir.TableGetGlobals(t)}[rel['top']]()

    def build_fold(self, case):
        """(StreamAgg x stream (… (AggFold acc acc2 False zero seq_op comb_op) …)) as real hail.ir objects, all parts from ONE DAG"""
        ir = self.ir
        objs = self.build(case, all_objs=True)
        f = case['fold']
        fold = ir.AggFold(objs[f['zero']], objs[f['seq']], objs[f['comb']], 'acc', 'acc2', False)
        q = fold if f.get('extra') is None else ir.ApplyBinaryPrimOp(f['op'], fold, objs[f['extra']])
        if f.get('twice'):
            q = ir.MakeTuple([q, objs[f['extra']]]) if f.get('extra') is not None else q
        return ir.StreamAgg(objs[f['stream']], 'x', q)

    def render(self, case):
        key = json.dumps(case, sort_keys=True)
        r = self.cache.get(key)
        if r is None and case.get('fold'):
            root = self.build_fold(case)
            r = self.cache[key] = (' '.join(self.CSERenderer()(root).split()), ' '.join(str(root).split()))
        if r is None and case.get('rel'):
            root = self.build_rel(case)
            r = self.cache[key] = (' '.join(self.CSERenderer()(root).split()), ' '.join(str(root).split()))
        if r is None:
            root = self.build(case)
            rendered = self.CSERenderer()(root)
            plain = str(root)                      # PlainRenderer: the DAG printed as a tree
            if len(self.cache) > 4000:
                self.cache.clear()
            r = self.cache[key] = (rendered, plain)
        return r

    # ---- cases ----------------------------------------------------------------------------------------------------
    def gen_case(self, rng, size):
        use_agg = rng.random() < 0.4
        g = Gen(rng, share=rng.choice([0.25, 0.4, 0.55]), shadow=rng.choice([0.0, 0.0, 0.15, 0.4]), use_agg=use_agg)
        t = rng.choice(ROOT_TYPES)
        free = {n: ty for n, ty in GLOBALS.items() if rng.random() < 0.6}
        if use_agg and rng.random() < 0.5:
            # aggregation-heavy program: [ (StreamAgg x stream query), … ] under a lambda or at the top
            t = rng.choice(AGG_ROOT_TYPES)
            g.share = 0.55
        root = g.expr(t, Scope(dict(free), None), size)
        nodes, root, _ = prune(g.nodes, root)
        envs = [{n: gen_value(rng, ty) for n, ty in free.items()} for _ in range(3)]
        return {'nodes': nodes, 'root': root, 'free': free, 'envs': envs}

    def gen_rel_case(self, rng, size):
        """a relational tree TableParallelize / TableRange -> TableMapRows -> TableFilter (-> TableCollect / TableCount / TableGetGlobals)
        whose value children are roots of ONE DAG: closed roots (TableParallelize's rows and globals — no variable at all is in scope
        there) and roots over g0 = a field of the row (TableMapRows / TableFilter); closed sub-DAGs are shared across the value children"""
        g = Gen(rng, share=rng.choice([0.4, 0.55, 0.7]), shadow=rng.choice([0.0, 0.15]), use_agg=False)
        closed, opened = Scope({}, None), Scope({'g0': I32}, None)
        par = [g.expr(I32, closed, size)] + [g.expr(rng.choice([I32, BOOL, ['arr', I32]]), closed, size) for _ in range(rng.choice([0, 1, 2]))]
        if rng.random() < 0.15:
            par = []
        glob = g.expr(rng.choice([I32, ['arr', I32]]), closed, size) if par and rng.random() < 0.4 else None
        mp = [g.expr(rng.choice([I32, I32, BOOL, ['arr', I32]]), opened, size) for _ in range(rng.choice([0, 1, 2, 2]))]
        filt = g.expr(BOOL, opened, size) if rng.random() < 0.5 else None
        roots = par + ([glob] if glob is not None else []) + mp + ([filt] if filt is not None else [])
        if not roots:
            return self.gen_rel_case(rng, size)
        top = g.add(['tuple', roots], ['tup', []], {}, {}, False)
        nodes, root, _ = prune(g.nodes, top)
        rs = list(nodes[root][1])
        k = 0
        rel = {'par': rs[k:k + len(par)], 'nrows': rng.choice([1, 1, 2])}
        k += len(par)
        if glob is not None:
            rel['glob'] = rs[k]
            k += 1
        rel['map'] = rs[k:k + len(mp)]
        k += len(mp)
        rel['filt'] = rs[k] if filt is not None else None
        rel['top'] = rng.choice(['bare', 'bare', 'collect', 'count'] + (['globals'] if par else []))
        return {'nodes': nodes, 'root': root, 'free': {'g0': 'i32'}, 'envs': [], 'rel': rel}

    def gen_fold_case(self, rng, size):
        """hl.agg.fold: (StreamAgg x stream (AggFold acc acc2 False zero seq_op comb_op) [op extra]) — zero in the value scope, seq_op in
        the aggregation scope + acc, comb_op with NOTHING but the two accumulators in scope; closed sub-expressions are generated first and
        re-used inside comb_op, across seq_op and comb_op, and by the rest of the query"""
        g = Gen(rng, share=rng.choice([0.55, 0.7, 0.85]), shadow=0.0, use_agg=False)
        free = {n: ty for n, ty in GLOBALS.items() if ty == I32 and rng.random() < 0.5}
        closed = Scope({}, None)
        for _ in range(rng.choice([1, 2, 3])):
            g.expr(I32, closed, rng.choice([1, 2]))          # closed material ("cap = hl.int32(7) * 3")
        comb = g.fresh(I32, Scope({'acc': I32, 'acc2': I32}, None), max(size, 2))
        seq = g.fresh(I32, Scope({**free, 'x': I32, 'acc': I32}, None), max(size, 2))
        zero = g.expr(I32, Scope(dict(free), None), 1)
        extra = g.expr(I32, Scope(dict(free), None), size) if rng.random() < 0.6 else None
        stream = g.leaf(['stream', I32], Scope(dict(free), None))
        roots = [zero, seq, comb, stream] + ([extra] if extra is not None else [])
        top = g.add(['tuple', roots], ['tup', []], {}, {}, False)
        nodes, root, _ = prune(g.nodes, top)
        rs = list(nodes[root][1])
        f = {'zero': rs[0], 'seq': rs[1], 'comb': rs[2], 'stream': rs[3], 'extra': rs[4] if extra is not None else None,
             'op': rng.choice(['+', '*', '-']), 'twice': rng.random() < 0.3}
        return {'nodes': nodes, 'root': root, 'free': free, 'envs': [], 'fold': f}

    def cases(self, rng, n, tier):
        made = 0
        while made < n:
            if rng.random() < 0.06:
                c = self.gen_fold_case(rng, rng.choice([2, 2, 3, 3]))
                if len(c['nodes']) <= 160:
                    made += 1
                    yield c
                continue
            if rng.random() < 0.12:
                c = self.gen_rel_case(rng, rng.choice([1, 2, 2, 3, 3]))
                if len(c['nodes']) <= 160:
                    made += 1
                    yield c
                continue
            c = self.gen_case(rng, rng.choice([2, 3, 4, 4, 5, 5, 6]))
            if len(c['nodes']) > 160:
                continue
            made += 1
            yield c

    # ---- lines ----------------------------------------------------------------------------------------------------
    @staticmethod
    def env_text(env):
        def sv(j):
            return show_val(val_of_json(j))
        return '(' + ' '.join(f'({n} {sv(v)})' for n, v in sorted(env.items())) + ')'

    def rel_parts(self, c):
        r, p = self.render(c)
        if c.get('fold'):
            # the AggFold is cut out: the rest (with the zero in its place) is validated as a whole; seq_op and comb_op are new blocks with
            # their own scopes (`AggFold._compute_type`: seq_op in agg_env + accum; comb_op in {accum, other_accum} ONLY)
            fr, fp = fold_parts(r), fold_parts(p)
            if fr is None or fp is None:
                return r, p, 'the rendering has no AggFold node', [], '-', '-'
            free = sorted(c['free'])
            kids = [('StreamAgg query with AggFold replaced by its zero', 0, free, fr[0], fp[0]),
                    ('AggFold seq_op', 1, free + ['x', fp[3][0]], fr[1], fp[1]),
                    ('AggFold comb_op', 2, list(fp[3]), fr[2], fp[2])]
            return r, p, None, kids, '(AggFold ' + ' '.join(fr[3]) + ')', '(AggFold ' + ' '.join(fp[3]) + ')'
        return (r, p) + rel_walk(r, p)

    def model_lines(self, c):
        if c.get('rel') or c.get('fold'):
            try:
                r, p, prob, kids, sr, sp = self.rel_parts(c)
            except Exception as e:
                return [f'echo ||| render-exc {type(e).__name__}']
            return [f'skel ||| {sr} ||| {sp}'] + [f'val ||| {",".join(own) or "-"} ||| {rc} ||| {pc}' for _, _, own, rc, pc in kids]
        try:
            r, p = self.render(c)
        except Exception as e:
            return [f'echo ||| render-exc {type(e).__name__}']
        r1, p1 = ' '.join(r.split()), ' '.join(p.split())
        free = ','.join(sorted(c['free'])) or '-'
        lines = [f'val ||| {free} ||| {r1} ||| {p1}']
        for env in c['envs']:
            e = self.env_text(env)
            lines.append(f'eval ||| {e} ||| {r1}')
            lines.append(f'eval ||| {e} ||| {p1}')
        return lines

    def analyse(self, c):
        r, p = self.render(c)
        R, P = read_ir(r), read_ir(p)
        G = frozenset(c['free'])
        return R, P, G

    def impl(self, c):
        if c.get('rel') or c.get('fold'):
            try:
                r, p, prob, kids, sr, sp = self.rel_parts(c)
            except Exception as e:
                return [f'render-exc {type(e).__name__}']
            out = [str(int(sr == sp and not sr.startswith('(Let ')))]
            for _, _, own, rc, pc in kids:
                R, P, G = read_ir(rc), read_ir(pc), frozenset(own)
                bs = cse_binders(R)
                flags = (validate(R, P), scope_ok(R, G, None), scope_ok(P, G, None), branch_local(R))
                out.append('v=%d s=%d p=%d g=%d b=%s' % (*map(int, flags), ','.join(f'{n}:{k}' for n, k in bs) or '-'))
            return out
        try:
            R, P, G = self.analyse(c)
        except Exception as e:      # the real renderer raised: canonical line (the model side echoes it), judged by the oracle
            return [f'render-exc {type(e).__name__}']
        bs = cse_binders(R)
        flags = (validate(R, P), scope_ok(R, G, None), scope_ok(P, G, None), branch_local(R))
        out = ['v=%d s=%d p=%d g=%d b=%s' % (*map(int, flags), ','.join(f'{n}:{k}' for n, k in bs) or '-')]
        for env in c['envs']:
            rho = {n: val_of_json(v) for n, v in env.items()}
            out.append(show_val(ev(R, rho, [])))
            out.append(show_val(ev(P, rho, [])))
        return out

    # ---- oracle ---------------------------------------------------------------------------------------------------
    def check_rel(self, c):
        r, p, prob, kids, sr, sp = self.rel_parts(c)
        if prob:
            return prob + '; rendered = ' + r[:400]
        if sr != sp:
            return 'the relational skeleton of the rendering differs from the tree: ' + sr[:200] + ' vs ' + sp[:200]
        for head, i, own, rc, pc in kids:
            R, P, G = read_ir(rc), read_ir(pc), frozenset(own)
            where = (f'value child {i} of {head}' if c.get('rel') else head) + f' (the engine evaluates it with only {sorted(own) or "NOTHING"} in scope)'
            if not scope_ok(P, G, None):
                return 'harness: the generated value child itself is ill-scoped ' + repr(unbound_refs(P, G, None, []))
            if not scope_ok(R, G, None):
                return (f'{where}: the rendering uses {sorted(set(unbound_refs(R, G, None, [])))} bound outside the node; rendered = ' + r[:400])
            if not validate(R, P):
                return f'{where}: the verified validator rejects the rendering of the child; rendered child = ' + rc[:400]
            if not branch_local(R):
                return f'{where}: a lifted binding is referenced from inside an If branch but bound outside it; rendered child = ' + rc[:400]
        return None

    def check(self, c):
        """the property on the real renderer's output -> None or message"""
        if c.get('rel') or c.get('fold'):
            return self.check_rel(c)
        R, P, G = self.analyse(c)
        if not scope_ok(P, G, None):
            return 'harness: the generated DAG itself is ill-scoped ' + repr(unbound_refs(P, G, None, []))
        if not scope_ok(R, G, None):
            bad = sorted(set(unbound_refs(R, G, None, [])))
            return (f'rendered IR is ill-scoped: {bad} used where not in scope (or in the wrong aggregation context); rendered = '
                    + ' '.join(self.render(c)[0].split())[:400])
        for env in c['envs']:
            rho = {n: val_of_json(v) for n, v in env.items()}
            a, b = ev(R, rho, []), ev(P, rho, [])
            if a != b:
                return (f'rendered IR evaluates to {show_val(a)} but the inlined IR to {show_val(b)} in environment {json.dumps(env)}; '
                        'rendered = ' + ' '.join(self.render(c)[0].split())[:400])
        if not validate(R, P):
            why = ('a lifted binding is used where it does not mean what it meant at its site: below a binder that rebinds one of its '
                   'variables, or — an aggregation — below an AggFilter/AggExplode/AggGroupBy/AggLet that changes the aggregation scope '
                   '(agg_capability rule)'
                   if not inline_ok(R) else 'inlining the lifted bindings does not give back the DAG printed as a tree')
            return ('the verified validator rejects the rendering: ' + why + '; rendered = '
                    + ' '.join(self.render(c)[0].split())[:400])
        if not branch_local(R):
            return ('a lifted binding is referenced from inside an If branch but bound outside it (the engine would evaluate it even '
                    'when the branch is not taken); rendered = ' + ' '.join(self.render(c)[0].split())[:400])
        return None

    def oracle(self, c, out):
        if out and out[0].startswith('IMPL-EXC'):
            return out[0]
        msg = self.safe_check(c)
        if msg is None:
            return None
        # counterfactual attribution to the known defects of the unchanged tree: the failure must disappear under the candidate
        # fix of exactly that defect (anything that still fails is NOT attributed and is a violation)
        # (the StreamAgg.free_vars defect this check found is fixed in /repo since d283d7328: nothing is attributed to it any more;
        #  corpus/c35/01 stays as its regression case)
        for cls in (('stale-binding-site',),):
            if self.holds_with_fixes(c, cls):
                k = '+'.join(cls)
                self.stats['known'][k] = self.stats['known'].get(k, 0) + 1
                return f'[class={k}] ' + msg
        return msg

    def safe_check(self, c):
        try:
            return self.check(c)
        except Exception as e:
            return f'the renderer raises {type(e).__name__}: {e} on a well-scoped DAG'

    def holds_with_fixes(self, c, classes):
        ir = self.ir
        import hail.ir.renderer as rmod
        undo = []
        try:
            if 'streamagg-query-free-vars' in classes:
                orig = ir.StreamAgg.__dict__['free_vars']

                def fixed(self_, orig=orig):
                    return orig.fget(self_) | (self_.body.free_vars - {ir.BaseIR.agg_capability})
                ir.StreamAgg.free_vars = property(fixed)
                undo.append(lambda: setattr(ir.StreamAgg, 'free_vars', orig))
            if 'stale-binding-site' in classes:
                orig_call = rmod.CSEPrintPass.__dict__['__call__']
                fn = patched_print_call(rmod.CSEPrintPass)
                if fn is None:
                    return False
                rmod.CSEPrintPass.__call__ = fn
                undo.append(lambda: setattr(rmod.CSEPrintPass, '__call__', orig_call))
            saved = self.cache
            self.cache = {}
            try:
                return self.safe_check(c) is None
            finally:
                self.cache = saved
        finally:
            for u in undo:
                u()

    def finding_key(self, c, msg):
        m = re.match(r'\[class=([\w+-]+)\]', msg)
        if m:
            cls = m.group(1).split('+')[0]
            return json.dumps({'class': cls, 'witness': KNOWN_CLASSES[cls]}, sort_keys=True)
        return json.dumps({'nodes': c['nodes'], 'root': c['root']}, sort_keys=True)

    # ---- distribution ---------------------------------------------------------------------------------------------
    def classify(self, c, out):
        if c.get('fold'):
            if not out or out[0] not in ('0', '1'):
                return (None, ['renderer-raised' if out and out[0].startswith('render-exc') else 'impl-error'])
            lifted = [0 if m.group(1) == '-' else len(m.group(1).split(',')) for m in (re.search(r'b=(\S+)', o) for o in out[1:]) if m]
            tags = ['aggfold', 'aggfold-lifted-outside=%d' % min(lifted[0], 4), 'aggfold-lifted-in-seq_op=%d' % min(lifted[1], 4),
                    'aggfold-lifted-in-comb_op=%d' % min(lifted[2], 4)]
            self.stats['programs'] += 1
            self.stats['verified'] += int(all(o.startswith('v=1') for o in out[1:]))
            return (json.dumps(c, sort_keys=True) if sum(lifted) else None, tags)
        if c.get('rel'):
            if not out or out[0] not in ('0', '1'):
                return (None, ['renderer-raised' if out and out[0].startswith('render-exc') else 'impl-error'])
            rel = c['rel']
            lifted = sum(0 if m.group(1) == '-' else len(m.group(1).split(',')) for m in (re.search(r'b=(\S+)', o) for o in out[1:]) if m)
            tags = ['relational', 'rel-top:' + rel['top'], 'rel-value-children=%d' % (len(out) - 1), 'rel-lifted=%s' % min(lifted, 6),
                    'rel-source:' + ('TableParallelize' if rel['par'] else 'TableRange')]
            self.stats['programs'] += 1
            self.stats['verified'] += int(all(o.startswith('v=1') for o in out[1:]))
            return (json.dumps(c, sort_keys=True) if lifted else None, tags)
        if not out or not out[0].startswith('v='):
            return (None, ['renderer-raised' if out and out[0].startswith('render-exc') else 'impl-error'])
        m = re.match(r'v=(\d) s=(\d) p=(\d) g=(\d) b=(\S+)', out[0])
        bs = [] if m.group(5) == '-' else [x.split(':') for x in m.group(5).split(',')]
        R, P, G = self.analyse(c)
        kinds = {n[0] for n in c['nodes']}
        tags = ['lifted=%s' % (len(bs) if len(bs) < 6 else '6+')]
        tags += ['kind:' + k for k in sorted(kinds)]
        refs = {}
        for n in c['nodes']:
            for ch in self._kids(n):
                refs[ch] = refs.get(ch, 0) + 1
        shared = sum(1 for v in refs.values() if v > 1)
        tags.append('shared-nodes=%s' % (shared if shared < 8 else '8+'))
        tags.append('nodes=%s' % ('<10' if len(c['nodes']) < 10 else '<30' if len(c['nodes']) < 30 else '<80' if len(c['nodes']) < 80 else '80+'))
        if bs:
            ds = binder_depths(R)
            tags.append('max-binder-depth-of-a-lifted-let=%d' % min(max(ds), 6))
            if any(int(k) < 2 for _, k in bs):
                tags.append('binding-used-less-than-twice')
            agg_b = any(True for x in self._agg_lets(R))
            tags.append('lifted-into-agg-scope' if agg_b else 'lifted-in-value-scope-only')
            tags.append('validated-by=verified-validator' if m.group(1) == '1' else 'rejected-by-the-validator')
            names = [n[1] for n in c['nodes'] if n[0] in ('let', 'map', 'filter', 'sagg', 'agglet', 'aggexplode')] + \
                    [x for n in c['nodes'] if n[0] in ('fold', 'scan') for x in (n[1], n[2])]
            if len(names) != len(set(names)):
                tags.append('binder-names-reused')
        self.stats['programs'] += 1
        if m.group(1) == '1':
            self.stats['verified'] += 1
        else:
            self.stats['eval_only'] += 1
        return (json.dumps(c, sort_keys=True) if bs else None, tags)

    @staticmethod
    def _kids(n):
        k = n[0]
        if k in ('i32', 'bool', 'na', 'ref'):
            return []
        if k == 'un':
            return [n[2]]
        if k in ('bin', 'cmp'):
            return [n[2], n[3]]
        if k == 'if':
            return [n[1], n[2], n[3]]
        if k in ('let', 'map', 'filter', 'sagg', 'agglet', 'aggexplode'):
            return [n[2], n[3]]
        if k == 'arr':
            return list(n[2])
        if k == 'aref':
            return [n[1], n[2]]
        if k in ('alen', 'toarray', 'tostream', 'get', 'gte'):
            return [n[1]]
        if k in ('fold', 'scan'):
            return [n[3], n[4], n[5]]
        if k == 'struct':
            return [ch for _, ch in n[1]]
        if k == 'ins':
            return [n[1]] + [ch for _, ch in n[2]]
        if k == 'tuple':
            return list(n[1])
        if k in ('aggfilter', 'agggroupby'):
            return [n[1], n[2]]
        if k == 'agg':
            return [n[2]]
        raise ValueError(k)

    @staticmethod
    def _agg_lets(n):
        if n[0] == 'agglet' and is_cse(n[1]):
            yield n
        for ch, _, _ in slots(n):
            yield from C35._agg_lets(ch)

    def extra_coverage(self):
        s = getattr(self, 'stats', {'verified': 0, 'eval_only': 0, 'programs': 0, 'known': {}})
        return {'programs': s['programs'], 'disagreements_checked': s['programs'],
                'programs_accepted_by_verified_validator': s['verified'],
                'programs_rejected_by_the_validator': s['eval_only'],
                'failures_attributed_to_known_defects': dict(s['known']),
                'explanation': 'programs = generated DAGs rendered by the real CSERenderer; each one is checked (validator AND '
                               'evaluation on 3 environments, scope check, branch rule) by the Lean driver and by the Python twin; '
                               'disagreements_checked = programs for which the two sides\' verdict lines were compared'}

    # ---- shrinking ------------------------------------------------------------------------------------------------
    def shrink(self, c, fails):
        if c.get('fold'):
            cur = c
            for upd in ({'extra': None}, {'twice': False}):
                cand = dict(cur, fold=dict(cur['fold'], **upd))
                if fails(cand):
                    cur = cand
            return cur
        if c.get('rel'):
            cur = c
            for fld in ('filt', 'glob'):
                if cur['rel'].get(fld) is not None:
                    cand = dict(cur, rel=dict(cur['rel'], **{fld: None}))
                    if fails(cand):
                        cur = cand
            for fld in ('map', 'par'):
                changed = True
                while changed:
                    changed = False
                    lst = cur['rel'][fld]
                    for i in range(len(lst) - 1, 0 if fld == 'par' else -1, -1):
                        cand = dict(cur, rel=dict(cur['rel'], **{fld: lst[:i] + lst[i + 1:]}))
                        if fails(cand):
                            cur, changed = cand, True
                            break
            if cur['rel'].get('nrows', 1) > 1:
                cand = dict(cur, rel=dict(cur['rel'], nrows=1))
                if fails(cand):
                    cur = cand
            return cur
        cur = c
        changed = True
        while changed:
            changed = False
            # 1. a smaller root
            for i in range(len(cur['nodes'])):
                if i == cur['root']:
                    continue
                try:
                    nodes, root, _ = prune(cur['nodes'], i)
                except Exception:
                    continue
                cand = {'nodes': nodes, 'root': root, 'free': cur['free'], 'envs': cur['envs']}
                if len(nodes) < len(cur['nodes']) and self._well_formed(cand) and fails(cand):
                    cur = cand
                    changed = True
                    break
            if changed:
                continue
            # 2. replace a node by one of its children of the same type (drop a layer)
            try:
                types = [o.typ for o in self.build(cur, all_objs=True)]
            except Exception:
                break
            for i, n in enumerate(cur['nodes']):
                for ch in self._kids(n):
                    if types[i] != types[ch]:
                        continue
                    nodes = [list(x) for x in cur['nodes']]
                    nodes[i] = list(cur['nodes'][ch])
                    try:
                        nodes2, root2, _ = prune(nodes, cur['root'])
                    except Exception:
                        continue
                    cand = {'nodes': nodes2, 'root': root2, 'free': cur['free'], 'envs': cur['envs']}
                    if len(nodes2) < len(cur['nodes']) and self._well_formed(cand) and fails(cand):
                        cur = cand
                        changed = True
                        break
                if changed:
                    break
        if len(cur['envs']) > 1:
            for e in cur['envs']:
                cand = dict(cur, envs=[e])
                if fails(cand):
                    cur = cand
                    break
        return cur

    def _well_formed(self, c):
        try:
            objs = self.build(c, all_objs=True)
            for o in objs:
                o.typ
            root = objs[c['root']]
            p = read_ir(str(root))
            return scope_ok(p, frozenset(c['free']), None)
        except Exception:
            return False


PROP = C35()

"""Type-directed Hail values for the E4 value properties (C32 JSON, C33 binary encoding): generator, construction of the real
Python value, canonical text of a real value, line-protocol tokens.  Not a property module.

Case types are the trees of harness/props/c31.py (`['array', T]`, `['struct', [[name, T], …]]`, …).  Case values:
    None | ['pdna']                        missing (spelled None / pandas.NA — HailType._missing accepts both; C33 only)
    int / bool / str                       int32, int64 / bool / str
    ['f', bits]                            float (bits = IEEE-754 binary64 pattern of the Python float; NaN is canonicalised)
    ['call', [alleles], phased]
    ['locus', contig, position]
    ['iv', start, end, includes_start, includes_end]
    ['arr', [v…]]  ['set', [v…]]  ['dict', [[k, v]…]]  ['tup', [v…]]  ['st', [v… in the TYPE's field order] (, [insertion order of the
    Mapping that is built: a permutation of the field indices], 'Struct' | 'dict')]
    ['nd', [dims…], [v… in C (row-major) order], 'C' | 'F' (, numpy dtype name)]   (memory order — and, optionally, a numpy dtype
                                           other than the element type's own — of the numpy array that is built)
"""
import math
import struct

from . import c31 as _c31

cps = _c31.cps
ty_tokens = _c31.ty_tokens
NUMERIC = ('i32', 'i64', 'f32', 'f64', 'bool')
NAN_BITS = 0x7ff8000000000000


def f2bits(x):
    if x != x:
        return NAN_BITS
    return struct.unpack('<Q', struct.pack('<d', x))[0]


def bits2f(b):
    return struct.unpack('<d', struct.pack('<Q', b))[0]


def f32round(x):
    return struct.unpack('<f', struct.pack('<f', x))[0]


# --------------------------------------------------------------------------------------------------------------------
# generators

STRS = ['', 'a', 'chr1', 'é', '中文', '\U0001f600', 'a b', '"', '\\', '\n', '\x00', 'None', 'nan', '-', '|']
FLOATS64 = [0.0, -0.0, 1.0, -1.5, 0.1, 1e-5, 1e300, -1e-300, 5e-324, 1.7976931348623157e308, 2.0 ** 53, 3.0, float('nan'), float('inf'),
            float('-inf')]
FLOATS32 = [0.0, -0.0, 1.0, -1.5, f32round(0.1), 1.401298464324817e-45, 3.4028234663852886e38, 16777216.0, float('nan'), float('inf'),
            float('-inf')]


PY_ATTR_NAMES = ['values', 'items', 'keys', 'get', 'drop', 'select', 'annotate', '_fields', '_get_field', '__class__', '__dict__',
                 '__len__', '__init__', '__getitem__', '__hash__', 'd', 'position', 'end', 'self', 'kwargs', 'fields', '__original_func']


# numpy dtypes, other than the element type's own, whose arrays the encoder accepts for a numeric element type
ALT_DTYPES = {'i32': ['int8', 'int16', 'int64', 'uint8', 'uint16', 'uint32', 'uint64'],
              'i64': ['int8', 'int16', 'int32', 'uint8', 'uint16', 'uint32', 'uint64'],
              'f32': ['float16', 'float64'], 'f64': ['float16', 'float32']}
F16_VALUES = [0.0, -0.0, 1.0, -1.5, 0.5, 2.0, 65504.0, 6.103515625e-05, float('nan'), float('inf'), float('-inf')]   # exact in binary16


def gen_type(rng, depth, *, locus=True, ndarray=True, numeric_nd=False, key=False):
    """a type with values (no void / rng_state / stream)"""
    if depth <= 1 or rng.random() < 0.3:
        r = rng.random()
        if r < 0.12 and locus:
            return ['locus', rng.choice(['GRCh37', 'GRCh37', 'my ref'])]
        return [rng.choice(['i32', 'i64', 'f32', 'f64', 'bool', 'str', 'call', 'i32', 'str', 'f64'])]
    k = rng.choice(['array', 'array', 'set', 'interval', 'ndarray', 'dict', 'dict', 'struct', 'struct', 'struct', 'tuple'])
    if k == 'ndarray' and (not ndarray or key):
        k = 'array'
    sub = dict(locus=locus, ndarray=ndarray, numeric_nd=numeric_nd)
    if k == 'array':
        return ['array', gen_type(rng, depth - 1, key=key, **sub)]
    if k == 'set':
        return ['set', gen_type(rng, depth - 1, key=True, **sub)]
    if k == 'interval':
        return ['interval', gen_type(rng, depth - 1, key=key, **sub)]
    if k == 'ndarray':
        if numeric_nd or rng.random() < 0.75:
            et = [rng.choice(NUMERIC)]
        else:
            et = gen_type(rng, min(depth - 1, 2), key=True, locus=locus, ndarray=False, numeric_nd=numeric_nd)
        return ['ndarray', et, rng.choice([0, 1, 1, 2, 2, 3])]
    if k == 'dict':
        return ['dict', gen_type(rng, depth - 1, key=True, **sub), gen_type(rng, depth - 1, key=key, **sub)]
    if k == 'struct':
        n = rng.choice([0, 1, 2, 2, 3, 3, 8, 9])
        pool = ['a', 'b', 'c', 'x y', 'é', 'key', 'value', 'f1', 'f2', 'f3', 'contig', 'start', '']
        if rng.random() < 0.35:
            # names that are also attributes / methods of hl.Struct, Mapping or object: a field must be fetched by item, never by
            # attribute (`getattr(x, 'values')` is the bound method Mapping.values)
            pool = pool[:6] + PY_ATTR_NAMES
        names = rng.sample(pool, n)
        return ['struct', [[nm, gen_type(rng, depth - 1 if n < 8 else 1, key=key, **sub)] for nm in names]]
    n = rng.choice([0, 1, 2, 3, 9])
    return ['tuple', [gen_type(rng, depth - 1 if n < 9 else 1, key=key, **sub) for _ in range(n)]]


def gen_value(rng, t, p_missing=0.15, top=True, allow_missing=True):
    k = t[0]
    if allow_missing and rng.random() < p_missing:
        return None
    if k == 'i32':
        return rng.choice([0, 1, -1, 2 ** 31 - 1, -2 ** 31, 255, 256, -129, rng.randint(-2 ** 31, 2 ** 31 - 1)])
    if k == 'i64':
        return rng.choice([0, 1, -1, 2 ** 63 - 1, -2 ** 63, 2 ** 31, 2 ** 53 + 1, rng.randint(-2 ** 63, 2 ** 63 - 1)])
    if k == 'bool':
        return rng.random() < 0.5
    if k == 'str':
        return rng.choice(STRS)
    if k == 'f64':
        x = rng.choice(FLOATS64) if rng.random() < 0.8 else rng.uniform(-1e6, 1e6)
        return ['f', f2bits(x)]
    if k == 'f32':
        x = rng.choice(FLOATS32) if rng.random() < 0.8 else f32round(rng.uniform(-1e6, 1e6))
        return ['f', f2bits(x)]
    if k == 'call':
        r = rng.random()
        if r < 0.15:
            return ['call', [], rng.random() < 0.5]
        if r < 0.4:
            return ['call', [rng.choice([0, 1, 2, 7, 100])], rng.random() < 0.5]
        a, b = rng.choice([0, 1, 2, 3, 9]), rng.choice([0, 1, 2, 5, 8, 40])
        ph = rng.random() < 0.5
        if not ph and b < a:
            a, b = b, a
        return ['call', [a, b], ph]
    if k == 'locus':
        return ['locus', rng.choice(['1', 'X']), rng.choice([1, 2, 1000, 999])]
    if k == 'interval':
        return ['iv', gen_value(rng, t[1], p_missing, False), gen_value(rng, t[1], p_missing, False), rng.random() < 0.5, rng.random() < 0.5]
    if k == 'array':
        n = rng.choice([0, 1, 2, 3, 7, 8, 9, 17]) if t[1][0] in NUMERIC + ('str',) else rng.choice([0, 1, 2, 3])
        return ['arr', [gen_value(rng, t[1], p_missing, False) for _ in range(n)]]
    if k == 'set':
        n = rng.choice([0, 1, 2, 3, 9])
        out = []
        seen = set()
        for _ in range(n):
            v = gen_value(rng, t[1], p_missing, False)
            key = canon_case(t[1], v).replace('f8000000000000000', 'f0000000000000000').replace('g80000000', 'g00000000')   # -0.0 == 0.0 in a Python set
            if key not in seen:
                seen.add(key)
                out.append(v)
        return ['set', out]
    if k == 'dict':
        n = rng.choice([0, 1, 2, 3, 9])
        out = []
        seen = set()
        for _ in range(n):
            kk = gen_value(rng, t[1], p_missing * 0.5, False)
            key = canon_case(t[1], kk).replace('f8000000000000000', 'f0000000000000000').replace('g80000000', 'g00000000')
            if key not in seen:
                seen.add(key)
                out.append([kk, gen_value(rng, t[2], p_missing, False)])
        return ['dict', out]
    if k == 'struct':
        vals = [gen_value(rng, ft, p_missing, False) for _, ft in t[1]]
        if len(vals) >= 2 and rng.random() < 0.4:
            # the same struct value held by a Mapping that lists its fields in ANOTHER order, as hl.Struct or as a plain dict (both
            # pass the type's typecheck): fields are looked up by NAME, the order of the mapping is not an observable
            perm = list(range(len(vals)))
            while perm == list(range(len(vals))):
                rng.shuffle(perm)
            return ['st', vals, perm, rng.choice(['Struct', 'dict'])]
        if vals and rng.random() < 0.1:
            return ['st', vals, list(range(len(vals))), 'dict']
        return ['st', vals]
    if k == 'tuple':
        return ['tup', [gen_value(rng, et, p_missing, False) for et in t[1]]]
    if k == 'ndarray':
        nd = t[2]
        dims = [rng.choice([0, 1, 2, 3, 3]) if rng.random() < 0.9 else 4 for _ in range(nd)]
        if rng.random() < 0.7:
            dims = [max(d, 1) for d in dims]
        total = 1
        for d in dims:
            total *= d
        order = rng.choice(['C', 'C', 'F'])
        alt = ALT_DTYPES.get(t[1][0])
        if alt and rng.random() < 0.4:
            # the same numbers held in a numpy array of ANOTHER dtype (what `hl.literal(np.array([1, 2]), 'ndarray<int32, 1>')`
            # passes: default int64 data): the width of an encoded element is the Hail element type's, never numpy's
            dt = rng.choice(alt)
            if t[1][0] in ('i32', 'i64'):
                pool = [0, 1, 2, 3, 100, 127] + ([-1, -128] if not dt.startswith('u') else [200, 255])
                data = [rng.choice(pool) for _ in range(total)]
            else:
                data = [['f', f2bits(rng.choice(F16_VALUES))] for _ in range(total)]
            return ['nd', dims, data, order, dt]
        return ['nd', dims, [gen_value(rng, t[1], 0, False, allow_missing=False) for _ in range(total)], order]
    raise ValueError(k)


# --------------------------------------------------------------------------------------------------------------------
# canonical text (the observable that is compared): type-directed, sets / dict entries sorted by their own canonical text


def f32bits(x):
    """binary32 pattern of a Python float that is exactly a float32"""
    return struct.unpack('<I', struct.pack('<f', x))[0]


def _flt(b, wide=True):
    x = bits2f(b)
    if x != x:
        return 'nan'
    if math.isinf(x):
        return 'inf' if x > 0 else '-inf'
    return 'f%016x' % b if wide else 'g%08x' % f32bits(x)


def canon_case(t, v):
    if v is None:
        return 'NA'
    k = t[0]
    if k in ('i32', 'i64'):
        return 'i%d' % v
    if k == 'bool':
        return 'T' if v else 'F'
    if k == 'str':
        return 's' + cps(v)
    if k in ('f32', 'f64'):
        return _flt(v[1], k == 'f64')
    if k == 'call':
        return 'call(%s;%d)' % (','.join(map(str, v[1])), 1 if v[2] else 0)
    if k == 'locus':
        return 'locus(%s;%s;%d)' % (cps(t[1]), cps(v[1]), v[2])
    if k == 'interval':
        return 'iv(%s;%s;%d;%d)' % (canon_case(t[1], v[1]), canon_case(t[1], v[2]), 1 if v[3] else 0, 1 if v[4] else 0)
    if k == 'array':
        return 'arr(' + ','.join(canon_case(t[1], x) for x in v[1]) + ')'
    if k == 'set':
        return 'set(' + ','.join(sorted(canon_case(t[1], x) for x in v[1])) + ')'
    if k == 'dict':
        return 'dict(' + ','.join(sorted(canon_case(t[1], a) + '=>' + canon_case(t[2], b) for a, b in v[1])) + ')'
    if k == 'struct':
        return 'st(' + ','.join(canon_case(ft, x) for (_, ft), x in zip(t[1], v[1])) + ')'
    if k == 'tuple':
        return 'tup(' + ','.join(canon_case(et, x) for et, x in zip(t[1], v[1])) + ')'
    if k == 'ndarray':
        return 'nd(%s;%s)' % ('x'.join(map(str, v[1])), ','.join(canon_case(t[1], x) for x in v[2]))
    raise ValueError(k)


PDNA = ['pdna']


def unspell(v):
    """the case value with every missing value spelled None"""
    if v == PDNA:
        return None
    if isinstance(v, list):
        return [unspell(x) for x in v]
    return v


def spell_missing(rng, t, v, p=0.4, top=True):
    """the case value with some nested missing values spelled pandas.NA (never the top-level value)"""
    if v is None:
        return list(PDNA) if (not top and rng.random() < p) else None
    k = t[0]
    if k == 'interval':
        return ['iv', spell_missing(rng, t[1], v[1], p, False), spell_missing(rng, t[1], v[2], p, False), v[3], v[4]]
    if k in ('array', 'set'):
        return [v[0], [spell_missing(rng, t[1], x, p, False) for x in v[1]]]
    if k == 'dict':
        return ['dict', [[spell_missing(rng, t[1], a, p, False), spell_missing(rng, t[2], b, p, False)] for a, b in v[1]]]
    if k == 'struct':
        return ['st', [spell_missing(rng, ft, x, p, False) for (_, ft), x in zip(t[1], v[1])]] + v[2:]
    if k == 'tuple':
        return ['tup', [spell_missing(rng, et, x, p, False) for et, x in zip(t[1], v[1])]]
    return v


class HailValues:
    """needs hailenv.init() first"""

    def __init__(self, hl, hailenv):
        self.hl = hl
        self.hailenv = hailenv
        import numpy as np
        self.np = np
        from hail.utils import Interval, Struct
        from hail.genetics import Call, Locus
        self.Interval, self.Struct, self.Call, self.Locus = Interval, Struct, Call, Locus
        from hailtop.frozendict import frozendict
        from hailtop.hail_frozenlist import frozenlist
        self.frozendict, self.frozenlist = frozendict, frozenlist
        import hail.expr.types as _T
        self.pdNA = _T.pd.NA          # the very object HailType._missing compares against

    def build_type(self, t):
        hl = self.hl
        k = t[0]
        prim = {'i32': hl.tint32, 'i64': hl.tint64, 'f32': hl.tfloat32, 'f64': hl.tfloat64, 'bool': hl.tbool, 'call': hl.tcall, 'str': hl.tstr}
        if k in prim:
            return prim[k]
        if k == 'locus':
            return hl.tlocus(self.hailenv.reference(t[1]))
        if k == 'array':
            return hl.tarray(self.build_type(t[1]))
        if k == 'set':
            return hl.tset(self.build_type(t[1]))
        if k == 'interval':
            return hl.tinterval(self.build_type(t[1]))
        if k == 'ndarray':
            return hl.tndarray(self.build_type(t[1]), t[2])
        if k == 'dict':
            return hl.tdict(self.build_type(t[1]), self.build_type(t[2]))
        if k == 'struct':
            return hl.tstruct(**{n: self.build_type(ft) for n, ft in t[1]})
        if k == 'tuple':
            return hl.ttuple(*[self.build_type(et) for et in t[1]])
        raise ValueError(k)

    def np_dtype(self, t):
        np = self.np
        return {'i32': np.int32, 'i64': np.int64, 'f32': np.float32, 'f64': np.float64, 'bool': np.bool_}.get(t[0], object)

    def to_py(self, t, v, frozen=False):
        """the real Python value (frozen containers inside sets / dict keys, as Python requires)"""
        if v is None:
            return None
        if v == PDNA:
            return self.pdNA
        k = t[0]
        if k in ('i32', 'i64', 'bool', 'str'):
            return v
        if k in ('f32', 'f64'):
            return bits2f(v[1])
        if k == 'call':
            return self.Call(list(v[1]), phased=v[2])
        if k == 'locus':
            return self.Locus(v[1], v[2], self.hailenv.reference(t[1]))
        if k == 'interval':
            return self.Interval(self.to_py(t[1], v[1], frozen), self.to_py(t[1], v[2], frozen), v[3], v[4],
                                 point_type=self.build_type(t[1]))
        if k == 'array':
            xs = [self.to_py(t[1], x, frozen) for x in v[1]]
            return self.frozenlist(xs) if frozen else xs
        if k == 'set':
            xs = [self.to_py(t[1], x, True) for x in v[1]]
            return frozenset(xs) if frozen else set(xs)
        if k == 'dict':
            d = {self.to_py(t[1], a, True): self.to_py(t[2], b, frozen) for a, b in v[1]}
            return self.frozendict(d) if frozen else d
        if k == 'struct':
            order = v[2] if len(v) > 2 else range(len(v[1]))
            fields = {t[1][i][0]: self.to_py(t[1][i][1], v[1][i], frozen) for i in order}
            if len(v) > 3 and v[3] == 'dict':
                return self.frozendict(fields) if frozen else fields
            return self.Struct(**fields)
        if k == 'tuple':
            return tuple(self.to_py(et, x, frozen) for et, x in zip(t[1], v[1]))
        if k == 'ndarray':
            np = self.np
            dt = self.np_dtype(t[1])
            if dt is object:
                flat = np.empty(len(v[2]), dtype=object)
                for i, x in enumerate(v[2]):
                    flat[i] = self.to_py(t[1], x, True)
            else:
                flat = np.array([self.to_py(t[1], x) for x in v[2]], dtype=(getattr(np, v[4]) if len(v) > 4 else dt))
            a = flat.reshape(v[1]) if v[1] else flat.reshape(())
            if v[3] == 'F' and len(v[1]) >= 2:
                a = np.asfortranarray(a)
            return a
        raise ValueError(k)

    def canon_py(self, t, x):
        """canonical text of a real Python value of type t (same format as canon_case); raises on a value of the wrong shape"""
        np = self.np
        if x is None or x is self.pdNA:
            return 'NA'
        k = t[0]
        if k in ('i32', 'i64'):
            if isinstance(x, bool) or not isinstance(x, (int, np.integer)):
                raise TypeError(f'int expected, got {type(x).__name__}')
            return 'i%d' % int(x)
        if k == 'bool':
            if not isinstance(x, (bool, np.bool_)):
                raise TypeError(f'bool expected, got {type(x).__name__}')
            return 'T' if x else 'F'
        if k == 'str':
            if not isinstance(x, str):
                raise TypeError(f'str expected, got {type(x).__name__}')
            return 's' + cps(x)
        if k in ('f32', 'f64'):
            if isinstance(x, bool) or not isinstance(x, (float, np.floating)):
                raise TypeError(f'float expected, got {type(x).__name__}')
            if k == 'f32' and float(x) == float(x) and not math.isinf(float(x)) and f32round(float(x)) != float(x):
                raise TypeError(f'{x!r} is not a float32')
            return _flt(f2bits(float(x)), k == 'f64')
        if k == 'call':
            if not isinstance(x, self.Call):
                raise TypeError(f'Call expected, got {type(x).__name__}')
            return 'call(%s;%d)' % (','.join(str(int(a)) for a in x.alleles), 1 if x.phased else 0)
        if k == 'locus':
            if not isinstance(x, self.Locus):
                raise TypeError(f'Locus expected, got {type(x).__name__}')
            return 'locus(%s;%s;%d)' % (cps(x.reference_genome.name), cps(x.contig), x.position)
        if k == 'interval':
            if not isinstance(x, self.Interval):
                raise TypeError(f'Interval expected, got {type(x).__name__}')
            return 'iv(%s;%s;%d;%d)' % (self.canon_py(t[1], x.start), self.canon_py(t[1], x.end), 1 if x.includes_start else 0,
                                        1 if x.includes_end else 0)
        if k == 'array':
            if isinstance(x, (str, bytes, dict, set, frozenset)) or not hasattr(x, '__iter__'):
                raise TypeError(f'list expected, got {type(x).__name__}')
            return 'arr(' + ','.join(self.canon_py(t[1], e) for e in x) + ')'
        if k == 'set':
            if not isinstance(x, (set, frozenset)):
                raise TypeError(f'set expected, got {type(x).__name__}')
            return 'set(' + ','.join(sorted(self.canon_py(t[1], e) for e in x)) + ')'
        if k == 'dict':
            if not hasattr(x, 'items') or isinstance(x, self.Struct):
                raise TypeError(f'dict expected, got {type(x).__name__}')
            return 'dict(' + ','.join(sorted(self.canon_py(t[1], a) + '=>' + self.canon_py(t[2], b) for a, b in x.items())) + ')'
        if k == 'struct':
            if not hasattr(x, 'keys'):
                raise TypeError(f'Struct expected, got {type(x).__name__}')
            if sorted(x.keys()) != sorted(n for n, _ in t[1]):      # the order of a Mapping is not an observable (Struct.__eq__)
                raise TypeError(f'struct fields {list(x.keys())}')
            return 'st(' + ','.join(self.canon_py(ft, x[n]) for n, ft in t[1]) + ')'
        if k == 'tuple':
            if not isinstance(x, tuple) or len(x) != len(t[1]):
                raise TypeError(f'tuple of {len(t[1])} expected, got {x!r}')
            return 'tup(' + ','.join(self.canon_py(et, e) for et, e in zip(t[1], x)) + ')'
        if k == 'ndarray':
            if not isinstance(x, np.ndarray):
                raise TypeError(f'ndarray expected, got {type(x).__name__}')
            if x.ndim != t[2]:
                raise TypeError(f'ndarray of {t[2]} dimensions expected, got {x.ndim}')
            want = self.np_dtype(t[1])
            if want is not object and x.dtype != np.dtype(want):
                raise TypeError(f'ndarray dtype {x.dtype}, expected {np.dtype(want)}')
            flat = [x[idx] for idx in np.ndindex(*x.shape)] if x.ndim else [x[()]]
            return 'nd(%s;%s)' % ('x'.join(map(str, x.shape)), ','.join(self.canon_py(t[1], e.item() if isinstance(e, np.generic) else e) for e in flat))
        raise ValueError(k)


# --------------------------------------------------------------------------------------------------------------------
# line-protocol tokens of a value (self-describing)


def val_tokens(t, v):
    if v is None:
        return ['na']
    k = t[0]
    if k in ('i32', 'i64'):
        return ['i', str(v)]
    if k == 'bool':
        return ['b', '1' if v else '0']
    if k == 'str':
        return ['s', cps(v)]
    if k in ('f32', 'f64'):
        x = bits2f(v[1])
        if x != x:
            return ['fnan']
        if math.isinf(x):
            return ['finf' if x > 0 else 'fninf']
        return ['f', str(v[1] if k == 'f64' else f32bits(x))]
    if k == 'call':
        return ['call', '1' if v[2] else '0', str(len(v[1]))] + [str(a) for a in v[1]]
    if k == 'locus':
        return ['locus', cps(v[1]), str(v[2])]
    if k == 'interval':
        return ['iv'] + val_tokens(t[1], v[1]) + val_tokens(t[1], v[2]) + ['1' if v[3] else '0', '1' if v[4] else '0']
    if k in ('array', 'set'):
        out = ['arr' if k == 'array' else 'set', str(len(v[1]))]
        for x in v[1]:
            out += val_tokens(t[1], x)
        return out
    if k == 'dict':
        out = ['dict', str(len(v[1]))]
        for a, b in v[1]:
            out += val_tokens(t[1], a) + val_tokens(t[2], b)
        return out
    if k == 'struct':
        out = ['st', str(len(v[1]))]
        for (_, ft), x in zip(t[1], v[1]):
            out += val_tokens(ft, x)
        return out
    if k == 'tuple':
        out = ['tup', str(len(v[1]))]
        for et, x in zip(t[1], v[1]):
            out += val_tokens(et, x)
        return out
    if k == 'ndarray':
        out = ['nd', v[3], str(len(v[1]))] + [str(d) for d in v[1]] + [str(len(v[2]))]
        for x in v[2]:
            out += val_tokens(t[1], x)
        return out
    raise ValueError(k)


def kinds(t, out):
    out.add(t[0])
    if t[0] in ('array', 'set', 'interval', 'ndarray'):
        kinds(t[1], out)
    elif t[0] == 'dict':
        kinds(t[1], out)
        kinds(t[2], out)
    elif t[0] == 'struct':
        for _, ft in t[1]:
            kinds(ft, out)
    elif t[0] == 'tuple':
        for et in t[1]:
            kinds(et, out)
    return out


def count_values(t, v, acc):
    """acc = [n_values, n_missing, has_nonfinite]"""
    acc[0] += 1
    if v is None:
        acc[1] += 1
        return acc
    k = t[0]
    if k in ('f32', 'f64'):
        x = bits2f(v[1])
        if x != x or math.isinf(x):
            acc[2] = 1
    elif k == 'interval':
        count_values(t[1], v[1], acc)
        count_values(t[1], v[2], acc)
    elif k in ('array', 'set'):
        for x in v[1]:
            count_values(t[1], x, acc)
    elif k == 'dict':
        for a, b in v[1]:
            count_values(t[1], a, acc)
            count_values(t[2], b, acc)
    elif k == 'struct':
        for (_, ft), x in zip(t[1], v[1]):
            count_values(ft, x, acc)
    elif k == 'tuple':
        for et, x in zip(t[1], v[1]):
            count_values(et, x, acc)
    elif k == 'ndarray':
        for x in v[2]:
            count_values(t[1], x, acc)
    return acc

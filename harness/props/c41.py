"""C41 Uncommitted updates have no effect on a batch — E1 family.  Two oracles: (1) after every op the REAL scheduler SELECTs of
pool.py / job_private.py (run over minisql) must not return a job of an uncommitted update; (2) at the end of a history the content of
every never-committed update is erased from the history (its createUpdate is kept so that ids do not shift), the erased history is run
in a second World, and jobs / groups / batches / user counters / cancel marks of everything else are compared after every kept op."""
from ..batchdb import actors
from ..batchdb.prop import ActorCasesMixin, E1Prop


class C41(ActorCasesMixin, E1Prop):
    actor_share = 0.25
    actor_flavour = 'c41'
    id = 'C41'
    title = 'Uncommitted updates have no effect on a batch'
    design_ref = 'DESIGN.md §4 C41 (Engine E1)'
    oracle_name = 'c41'
    nontrivial_tags = ['uncommitted-update-present', 'erasure-compared']
    budget = {'quick': 100, 'thorough': 2500}
    level_text = ('Oracle 1 after every op: no job of an uncommitted update is returned by the real scheduler SELECTs (pool.py user_runnable_jobs, job_private.py '
                  'user_runnable_jobs). Oracle 2 at the end of every history: for each never-committed update, the history without its content leaves jobs, groups '
                  '(state, n_jobs, tallies), batches (state, n_jobs), user counters and cancel marks of everything else identical after every kept op. '
                  'Lean theorem uncommitted_invisible(_partial) when Props/C41.lean exists. A quarter of the cases run the REAL canceller loops and scheduler over a batch whose first update was inserted but never committed, next to a committed batch of the same user, both cancelled: no loop pass changes a job row of the uncommitted update, its batch keeps zero tallies, the user counters stay the recount over committed jobs.')
    level_note = ('Partial: the server is harness/minisql, every transaction is one atomic step, histories are generated; erasure keeps the createUpdate request '
                  '(so the reserved id ranges stay) and removes the update\'s bunches and every message about its jobs / groups. Known findings: see known_findings.json.')

    def nontrivial(self, r):
        return any(t in r.tags for t in self.nontrivial_tags)


    def make_history(self, rng):
        from ..batchdb import gen
        return gen.history(rng, commit_modes=(0.3, 0.8), min_updates=2)


    def actor_checks(self):
        return ([actors.uncommitted_untouched], [])


PROP = C41()

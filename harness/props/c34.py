"""C34 Genotype call packing agrees with the engine.

C tie: real `hail.genetics.Call`, `hail.expr.types._tcall._convert_to_encoding/_convert_from_encoding/_convert_from_json`,
`allele_pair_sqrt` (imported with the whole `hail` package under harness/loader.py) vs the Lean model `HailVerif.CallPack`.
T tie: `harness/extract/scala_call.py` re-emits the engine's Call.scala / Genotype.scala functions into
`Generated/ScalaCall.lean`; `Props/C34.lean` proves the model's packing equal to them.
"""
import json
import struct

from .. import loader
from ..framework import MachineryError, Prop, run_driver

ENGINE_DRIVER = 'Driver/C34Engine.lean'

LIMIT = 2 ** 29


def tri(k):
    return k * (k + 1) // 2


def signed(r):
    return r if r < 2 ** 31 else r - 2 ** 32


def norm_call(ph, al):
    """the call `Call(al, ph)` stands for (unphased diploid: unordered)"""
    if len(al) == 2 and not ph:
        return sorted(al)
    return list(al)


def repr_of(ph, al):
    """allele representation per the engine's definition (Call.scala), None when the call has none (> 2 alleles)"""
    al = norm_call(ph, al)
    if len(al) == 0:
        return 0
    if len(al) == 1:
        return al[0]
    if len(al) == 2:
        j, k = al
        return tri(j + k) + j if ph else tri(k) + j
    return None


def in_range(ph, al):
    r = repr_of(ph, al)
    return r is not None and r < LIMIT


def layout_word(ph, al):
    """phased bit | ploidy << 1 | representation << 3 as a JVM Int: the documented layout (Call.scala); only used when the
    translated engine functions cannot be evaluated (then recorded in the evidence)"""
    return signed((1 if ph else 0) | (len(al) << 1) | (repr_of(ph, al) << 3))


class C34(Prop):
    id = 'C34'
    title = 'Genotype call packing agrees with the engine'
    lean_props = ['HailVerif.Props.C34']
    driver = 'Driver/C34.lean'
    engine = 'E3-pure'
    design_ref = 'DESIGN.md §4 C34'
    technique = ('Lean 4 theorems about an executable Nat/Int model of the Python codec and about the engine functions translated from '
                 'Scala to BitVec 32 on every run; differential correspondence of the model with the real Python code')
    level_text = ('Proved for every call of ploidy 0-2, phased or not, with allele representation < 2^29: the Python encoder writes a word that '
                  'the Python decoder reads back as the same call (decode_encode); that word equals the BitVec-32 value computed by the '
                  'engine constructors Call0/Call1/Call2.apply as translated from Call.scala/Genotype.scala (python_pack_eq_engine_pack), and the '
                  'engine accessors ploidy/isPhased/alleleRepr/allelePair unpack it to the same call (engine_unpack_eq_python_unpack); '
                  'gtIndex/allelePair is a bijection between sorted pairs and naturals, monotone in (k, j) (VCF order); the signed wrap is the '
                  'identity mod 2^32 and its off-by-one bound is unreachable (int32_wrap_ok, raw_ploidy_bits).')
    level_note = ('Partial: the engine is never run — the Scala semantics are those of the translator (JVM Int = BitVec 32, subset listed in '
                  'harness/extract/scala_call.py); CallN.apply\'s ploidy dispatch is transcribed by hand and tied to the Scala text; the float '
                  'expression int(sqrt(8i+1)/2 - 0.5) (Python and Scala) is modelled by the exact integer value, compared against the real Python '
                  'float code on every triangular-number boundary below 2^29. The Python model is tied to the code only by the correspondence cases.')
    budget = {'quick': 400, 'thorough': 6000}
    search_budget = {'quick': 1500, 'thorough': 12000}
    rule = ('case = list of ops over the real code: enc (Call(alleles, phased) -> int32), dec (int32 -> call), gt (unphased_diploid_gt_index), '
            'sqrt (allele_pair_sqrt), json (str -> _convert_from_json). Streams: (a) every call with alleles <= 9 of every ploidy/phasing; '
            '(b) every genotype index i = k(k+1)/2 + {-1,0,1}, k <= 32767, decoded unphased and phased, re-encoded, and through allele_pair_sqrt; '
            '(c) random calls with representation up to 2^29 and just beyond, random int32 words. Non-trivial = case containing an in-range '
            'diploid op whose index is beyond the 36-entry table; distinct by case content')
    trusted = ['harness/extract/scala_call.py (Scala subset -> Lean translator) and lean/HailVerif/Model/Jvm.lean (JVM Int operations as BitVec 32)',
               'harness/shims/decorator.py, deprecated.py (functional shims on the import path of hail.typecheck); parsimonious inert stub '
               '(type grammar is not exercised)',
               'numpy from the offline wheelhouse in /verif/.deps (imported by hail, not used by the codec)']
    assumptions = ['IEEE-754 double sqrt in Python/JVM agrees with the exact integer square root on 8i+1 < 2^32 (checked on all boundaries for Python)',
                   'Scala assert/require are enabled; JVM Int arithmetic is two\'s-complement 32-bit',
                   'alleles are non-negative Python ints (negative alleles are outside the property\'s calls)']

    # ------------------------------------------------------------------------------------------
    def generate(self, repo):
        from ..extract import scala_call
        return scala_call.generate(repo)

    def setup(self, repo):
        loader.install(repo, extra_stubs=('parsimonious',))
        import hail as hl
        from hail.expr import types as T
        from hail.utils.byte_reader import ByteReader, ByteWriter
        from hail.utils.java import FatalError
        self.hl, self.T, self.ByteReader, self.ByteWriter = hl, T, ByteReader, ByteWriter
        self.tcall = T.tcall
        self.expected_errors = (AssertionError, ValueError, NotImplementedError, struct.error, FatalError, OverflowError)
        self.route = 'whole-package import of hail under harness/loader.py (decorator/deprecated shims, parsimonious stub, numpy from .deps)'

    def extra_coverage(self):
        return {'import_route': getattr(self, 'route', None), 'ops_evaluated': self.n_ops,
                'engine_side': ('translated Scala functions evaluated by ' + ENGINE_DRIVER + f' ({len(self.engine_cache)} distinct queries)')
                if not self.engine_fallback else 'FALLBACK to the documented layout: ' + self.engine_fallback}

    # ---- the engine side of the oracle: the functions translated from Scala, evaluated by the Lean driver -----------------
    engine_cache = {}
    engine_fallback = ''
    n_ops = 0

    def _engine_lines(self, c):
        for op in c['ops']:
            if op[0] == 'enc' and in_range(op[1], op[2:]):
                yield 'eng ' + ' '.join(map(str, [op[1]] + norm_call(op[1], op[2:])))
            elif op[0] == 'dec' and self._valid_word(op[1]):
                yield f'engu {op[1]}'

    def _prefetch(self, cases):
        need = sorted({ln for c in cases for ln in self._engine_lines(c)} - set(self.engine_cache))
        if not need or self.engine_fallback:
            return cases
        try:
            out = run_driver(ENGINE_DRIVER, need)
            if len(out) != len(need):
                raise MachineryError(f'engine driver answered {len(out)} lines for {len(need)}')
            self.engine_cache.update(zip(need, out))
        except MachineryError as e:
            # Generated/ScalaCall.lean does not build (reported as a broken proof by the framework): fall back to the layout
            self.engine_fallback = str(e)[:300]
        return cases

    def _engine(self, line):
        if line not in self.engine_cache and not self.engine_fallback:
            self._prefetch([{'ops': []}])  # no-op, keeps one code path
            try:
                self.engine_cache[line] = run_driver(ENGINE_DRIVER, [line])[0]
            except MachineryError as e:
                self.engine_fallback = str(e)[:300]
        return self.engine_cache.get(line)

    @staticmethod
    def _valid_word(v):
        r = v % 2 ** 32
        ploidy = (r >> 1) & 3
        # words no engine constructor produces: ploidy bits 11, or ploidy 0 with a non-zero representation (Call0.apply)
        return not (ploidy == 3 or (ploidy == 0 and (r >> 3) != 0))

    def corpus(self):
        return self._prefetch(list(super().corpus()))

    # ------------------------------------------------------------------------------------------
    def _boundary_case(self, k0, k1):
        ops = []
        for k in range(k0, k1):
            for d in (-1, 0, 1):
                i = tri(k) + d
                if i < 0 or i >= LIMIT:
                    continue
                ops.append(['sqrt', i])
                ops.append(['dec', signed((i << 3) | 4)])
                ops.append(['dec', signed((i << 3) | 5)])
                # the call the index stands for, through the encoder
                kk = k
                while tri(kk) > i:
                    kk -= 1
                while tri(kk + 1) <= i:
                    kk += 1
                j = i - tri(kk)
                ops.append(['enc', 0, j, kk])
                ops.append(['enc', 1, j, kk - j])
                ops.append(['gt', 0, kk, j])
        return {'kind': 'boundary', 'ops': ops}

    def _small_case(self, m):
        ops = []
        for ph in (0, 1):
            ops.append(['enc', ph])
            ops.append(['json', ph])
            ops.append(['gt', ph])
            for a in range(m + 1):
                ops.append(['enc', ph, a])
                ops.append(['json', ph, a])
                for b in range(m + 1):
                    ops.append(['enc', ph, a, b])
                    ops.append(['json', ph, a, b])
                    ops.append(['gt', ph, a, b])
            ops.append(['enc', ph, 0, 1, 2])
        for v in range(-64, 1024):
            ops.append(['dec', v])
        return {'kind': 'small', 'ops': ops}

    def _random_case(self, rng):
        ops = []
        for _ in range(rng.choice([8, 24, 48])):
            r = rng.random()
            ph = rng.randint(0, 1)
            if r < 0.12:
                a = rng.choice([rng.randrange(LIMIT), LIMIT - 1 - rng.randrange(4), LIMIT + rng.randrange(4), rng.randrange(2 ** 31),
                                2 ** 28 + rng.randrange(-2, 3), 2 ** 28 - 1, rng.randrange(70000)])
                ops.append(['enc', ph, a])
                if rng.random() < 0.3:
                    ops.append(['json', ph, a])
            elif r < 0.55:
                # diploid: k up to just beyond the last representable row; j anywhere
                k = rng.choice([rng.randrange(32768), rng.randrange(32700, 32800), rng.randrange(9), rng.randrange(65530, 65540), rng.randrange(70000)])
                j = rng.choice([rng.randrange(k + 1), 0, k, rng.randrange(70000)])
                if ph:
                    # stored pair (j, j + k): keep j + k near the interesting rows half of the time
                    if rng.random() < 0.5 and j <= k:
                        k = k - j
                ops.append(['enc', ph, j, k])
                c = rng.random()
                if c < 0.25:
                    ops.append(['gt', ph, j, k])
                elif c < 0.4:
                    ops.append(['json', ph, j, k])
            elif r < 0.6:
                # the last representable indices
                i = LIMIT - 1 - rng.randrange(40000)
                k = 32767
                while tri(k) > i:
                    k -= 1
                j = i - tri(k)
                ops.append(['enc', 0, j, k])
                ops.append(['enc', 1, j, k - j])
            elif r < 0.9:
                w = rng.choice([rng.randrange(-2 ** 31, 2 ** 31), rng.randrange(-4096, 4096), signed(rng.randrange(LIMIT) << 3 | rng.randrange(8))])
                ops.append(['dec', w])
            elif r < 0.97:
                ops.append(['sqrt', rng.choice([rng.randrange(LIMIT), rng.randrange(2 ** 31), rng.randrange(100)])])
            else:
                ops.append(['enc', ph] + [rng.randrange(5) for _ in range(rng.choice([3, 4]))])
        return {'kind': 'random', 'ops': ops}

    def cases(self, rng, n, tier):
        cs = [self._small_case(9)]
        step = 128
        for k0 in range(0, 32768, step):
            cs.append(self._boundary_case(k0, k0 + step))
        for _ in range(n):
            cs.append(self._random_case(rng))
        return self._prefetch(cs)

    def search_cases(self, rng, n, hint):
        # exhaustive small scope first, then all boundaries, then random
        cs = [self._small_case(14)]
        for k0 in range(0, 32768, 128):
            cs.append(self._boundary_case(k0, k0 + 128))
        for _ in range(n):
            cs.append(self._random_case(rng))
        return self._prefetch(cs)

    # ------------------------------------------------------------------------------------------
    def model_lines(self, c):
        return [' '.join(map(str, op)) for op in c['ops']]

    def _call(self, ph, al):
        return self.hl.Call(list(al), bool(ph))

    def _enc(self, call):
        buf = bytearray()
        self.tcall._convert_to_encoding(self.ByteWriter(buf), call)
        if len(buf) != 4:
            raise RuntimeError(f'encoder wrote {len(buf)} bytes')
        return struct.unpack('=i', bytes(buf))[0]

    def _dec(self, v):
        return self.tcall._convert_from_encoding(self.ByteReader(memoryview(struct.pack('=i', v))))

    @staticmethod
    def _show(call):
        return ' '.join([('1' if call.phased else '0')] + [str(a) for a in call.alleles])

    def _run_op(self, op):
        kind = op[0]
        try:
            if kind == 'enc':
                return str(self._enc(self._call(op[1], op[2:])))
            if kind == 'dec':
                return self._show(self._dec(op[1]))
            if kind == 'gt':
                v = self._call(op[1], op[2:]).unphased_diploid_gt_index()
                if v != int(v):
                    return f'nonint {v!r}'
                return str(int(v))
            if kind == 'sqrt':
                p = self.T.allele_pair_sqrt(op[1])
                return f'{p & 0xFFFF} {(p >> 16) & 0xFFFF}'
            if kind == 'json':
                call = self._call(op[1], op[2:])
                return self._show(self.tcall._convert_from_json(self.tcall._convert_to_json(call)))
        except self.expected_errors:
            return 'err'
        except Exception as e:  # anything else is not an outcome the model knows
            return f'exc {type(e).__name__}'
        return 'bad-op'

    def impl(self, c):
        self.n_ops += len(c['ops'])
        return [self._run_op(op) for op in c['ops']]

    # ------------------------------------------------------------------------------------------
    def _check_op(self, op, out):
        """the property on one real output; None = holds / not claimed"""
        kind = op[0]
        if kind == 'enc':
            ph, al = op[1], op[2:]
            if not in_range(ph, al):
                return None
            eng = self._engine('eng ' + ' '.join(map(str, [ph] + norm_call(ph, al))))
            want = str(layout_word(ph, al)) if eng is None else eng
            if out != want:
                return (f'Call({al}, phased={bool(ph)}) is packed as {out} by the front end, '
                        + (f'the engine (Call.scala as translated) packs it as {want}' if want != 'err' else 'the engine (Call.scala as translated) rejects it'))
            # unpack what the real encoder wrote with the real decoder
            back = self._run_op(['dec', int(want)])
            exp = ' '.join([str(ph)] + [str(a) for a in norm_call(ph, al)])
            if back != exp:
                return f'Call({al}, phased={bool(ph)}) -> {want} is unpacked as "{back}", expected "{exp}"'
            return None
        if kind == 'dec':
            v = op[1]
            r = v % 2 ** 32
            ploidy = (r >> 1) & 3
            ph = r & 1
            rep = r >> 3
            if not self._valid_word(v):
                return None   # not a word any engine constructor produces
            eng = self._engine(f'engu {v}')
            if eng is not None and eng != out:
                return f'word {v} is unpacked as "{out}" by the front end and as "{eng}" by the engine (Call.scala as translated)'
            if out in ('err',) or out.startswith('exc') or out.startswith('IMPL'):
                return f'the engine word {v} (ploidy {ploidy}, phased {ph}, representation {rep}) is not unpacked: {out}'
            f = [int(x) for x in out.split()]
            if f[0] != ph or len(f) - 1 != ploidy:
                return f'word {v}: unpacked as "{out}" but its ploidy/phase bits are {ploidy}/{ph}'
            al = f[1:]
            if any(a < 0 for a in al):
                return f'word {v}: negative allele in "{out}"'
            if ploidy == 2 and not ph and al[0] > al[1]:
                return f'word {v}: unphased pair "{out}" is not sorted'
            if repr_of(ph, al) != rep:
                return f'word {v}: unpacked as "{out}", whose representation is {repr_of(ph, al)}, not {rep}'
            return None
        if kind == 'gt':
            ph, al = op[1], op[2:]
            if ph or len(al) != 2:
                return None if out == 'err' else f'unphased_diploid_gt_index accepted Call({al}, phased={bool(ph)}): {out}'
            j, k = sorted(al)
            if out != str(tri(k) + j):
                return f'unphased_diploid_gt_index of {j}/{k} is {out}, VCF order gives {tri(k) + j}'
            return None
        if kind == 'sqrt':
            i = op[1]
            if i >= LIMIT:
                return None
            try:
                j, k = [int(x) for x in out.split()]
            except ValueError:
                return f'allele_pair_sqrt({i}) failed: {out}'
            if not (0 <= j <= k and tri(k) + j == i):
                return f'allele_pair_sqrt({i}) = ({j}, {k}) is not the pair with k(k+1)/2 + j = {i}, j <= k'
            return None
        if kind == 'json':
            ph, al = op[1], op[2:]
            if len(al) > 2:
                return None
            exp = ' '.join([str(ph)] + [str(a) for a in norm_call(ph, al)])
            if out != exp:
                return f'Call({al}, phased={bool(ph)}) through its JSON text comes back as "{out}"'
            return None
        return None

    def oracle(self, c, out):
        if len(out) != len(c['ops']):
            return f'implementation produced {len(out)} lines for {len(c["ops"])} ops: {out[:1]}'
        for op, o in zip(c['ops'], out):
            m = self._check_op(op, o)
            if m:
                return f'op {" ".join(map(str, op))}: {m}'
        return None

    def classify(self, c, out):
        tags = ['kind=' + c.get('kind', 'corpus')]
        nontrivial = False
        for op, o in zip(c['ops'], out):
            kind = op[0]
            if kind == 'enc':
                ph, al = op[1], op[2:]
                ir = in_range(ph, al)
                tags.append(f'enc ploidy={min(len(al), 3)} phased={ph} ' + ('in-range' if ir else 'out-of-range') + (' err' if o == 'err' else ''))
                if ir and len(al) == 2 and repr_of(ph, al) >= 36:
                    nontrivial = True
                if ir and o not in ('err',) and not o.startswith('exc') and int(o) < 0:
                    tags.append('enc wrapped-negative')
            elif kind == 'dec':
                r = op[1] % 2 ** 32
                tags.append(f'dec ploidy-bits={(r >> 1) & 3}' + (' table' if (r >> 3) < 36 else ' sqrt') + (' err' if o == 'err' else ''))
                if (r >> 1) & 3 == 2 and (r >> 3) >= 36:
                    nontrivial = True
            else:
                tags.append(kind + (' err' if o == 'err' else ''))
        # one tag per distinct kind per case keeps the distribution readable
        return (json.dumps(c['ops'], sort_keys=True) if nontrivial else None, sorted(set(tags)))

    def finding_key(self, c, msg):
        # key = the first failing op
        if msg.startswith('op '):
            return msg.split(':', 1)[0]
        return json.dumps(c, sort_keys=True)

    def shrink(self, c, fails):
        out = self.impl(c)
        for op, o in zip(c['ops'], out):
            if self._check_op(op, o):
                cand = {'kind': c.get('kind', 'shrunk'), 'ops': [op]}
                if fails(cand):
                    return cand
        return c


PROP = C34()

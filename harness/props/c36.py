"""C36 Front-end types agree with the IR it emits.

Three kinds of case, all driven through the REAL `hl.*` API on the stub backend of harness/hailenv.py (nothing is executed):
* expr   — a generated expression program (literals, arithmetic with int/float promotion, comparisons, if_else, bind, array / set /
           dict / tuple / struct construction, indexing, map / filter / fold lambdas, field access / annotate).  Lines: the type the
           front end reports (`Expression.dtype`) and the type the emitted IR computes for itself (`compute_type(deep_typecheck=True)`),
           both against the Lean model's `inferType` on the rendered IR text.
* impute — a generated Python value.  Lines: `impute_type(v)` and a strict "can the value be stored at that type" check, against the
           Lean model's `imputeType` / `checkPy`.
* table  — a sequence of Table API calls from `hl.utils.range_table`.  Lines: the row / key / globals types the front end reports and
           the table type the emitted TableIR computes (`deep_typecheck=True`), against the Lean model's type transformers.
The oracle is the property on the real objects (plus a Python twin of the IR typing rules, independent of the Lean model).
"""
import json
import re

from .. import hailenv
from ..framework import Prop
from .c35 import parse_sexp, ensure_reader_built

# --------------------------------------------------------------------------------------------------------------------
# types in `_parsable_string` syntax  <->  tuples  ('Int32',) ('Array', t) ('Struct', ((n, t), …)) ('Tuple', (t, …)) ('Dict', k, v)

PRIMS = {'Int32', 'Int64', 'Float32', 'Float64', 'Boolean', 'String'}
NUMERIC = {'Int32', 'Int64', 'Float32', 'Float64'}


def parse_type(s):
    pos = 0

    def ident():
        nonlocal pos
        m = re.compile(r'[A-Za-z_0-9]+').match(s, pos)
        if not m:
            raise ValueError(f'type syntax at {pos}: {s}')
        pos = m.end()
        return m.group(0)

    def expect(c):
        nonlocal pos
        if s[pos:pos + 1] != c:
            raise ValueError(f'type syntax: expected {c} at {pos}: {s}')
        pos += 1

    def ty():
        nonlocal pos
        n = ident()
        if n in PRIMS:
            return (n,)
        if n in ('Array', 'Set', 'Stream', 'Interval'):
            expect('[')
            t = ty()
            expect(']')
            return (n, t)
        if n == 'Dict':
            expect('[')
            k = ty()
            expect(',')
            v = ty()
            expect(']')
            return ('Dict', k, v)
        if n == 'Struct':
            expect('{')
            fs = []
            if s[pos] != '}':
                while True:
                    f = ident()
                    expect(':')
                    fs.append((f, ty()))
                    if s[pos] == ',':
                        pos += 1
                        continue
                    break
            expect('}')
            return ('Struct', tuple(fs))
        if n == 'Tuple':
            expect('[')
            ts = []
            if s[pos] != ']':
                while True:
                    ts.append(ty())
                    if s[pos] == ',':
                        pos += 1
                        continue
                    break
            expect(']')
            return ('Tuple', tuple(ts))
        raise ValueError(f'unknown type {n}')

    t = ty()
    if pos != len(s):
        raise ValueError('trailing type text')
    return t


def show_type(t):
    k = t[0]
    if k in PRIMS:
        return k
    if k in ('Array', 'Set', 'Stream', 'Interval'):
        return f'{k}[{show_type(t[1])}]'
    if k == 'Dict':
        return f'Dict[{show_type(t[1])},{show_type(t[2])}]'
    if k == 'Struct':
        return 'Struct{' + ','.join(f'{n}:{show_type(ft)}' for n, ft in t[1]) + '}'
    if k == 'Tuple':
        return 'Tuple[' + ','.join(show_type(x) for x in t[1]) + ']'
    raise ValueError(k)


def norm_type(t):
    """struct fields sorted by name at every level (the order of a unified struct type depends on set iteration order)"""
    k = t[0]
    if k in PRIMS:
        return t
    if k in ('Array', 'Set', 'Stream'):
        return (k, norm_type(t[1]))
    if k == 'Dict':
        return ('Dict', norm_type(t[1]), norm_type(t[2]))
    if k == 'Struct':
        return ('Struct', tuple(sorted(((n, norm_type(ft)) for n, ft in t[1]), key=lambda p: p[0])))
    return ('Tuple', tuple(norm_type(x) for x in t[1]))


# --------------------------------------------------------------------------------------------------------------------
# Python twin of the IR typing rules (oracle side: "the type implied by the IR"), on the s-expression of the rendered text

class Untypable(Exception):
    pass


BINOPS = {'+', '-', '*', '/', '//'}
CMPS = {'<', '<=', '>', '>=', '==', '!=', 'EQ', 'NEQ', 'LT', 'LTEQ', 'GT', 'GTEQ'}
CONV = {'toInt32': ('Int32',), 'toInt64': ('Int64',), 'toFloat32': ('Float32',), 'toFloat64': ('Float64',)}


def elem_of(t):
    if t[0] in ('Array', 'Set', 'Stream'):
        return t[1]
    raise Untypable(f'not a container: {show_type(t)}')


# the engine's function registry (Functions.scala: a call resolves iff the parameter types and the return type of a registered function,
# with type variables bound at their first occurrence, unify with the argument types and the declared return type).  Oracle-side
# transcription of ArrayFunctions / SetFunctions / DictFunctions / StringFunctions.contains — patterns: ('v', name) a type variable,
# ('Array', p), ('Set', p), ('Dict', pk, pv), ('Tuple2', pa, pb), or a concrete type tuple.
_T, _K, _V = ('v', 'T'), ('v', 'key'), ('v', 'value')
_B, _S = ('Boolean',), ('String',)
_N = ('n', 'T')          # tnum("T"): a numeric type


def _vectorised(arg, ret):
    """the three shapes ArrayFunctions.scala registers for every entry of arrayOps"""
    return [([('Array', arg), arg], ('Array', ret)), ([arg, ('Array', arg)], ('Array', ret)), ([('Array', arg), ('Array', arg)], ('Array', ret))]


# RETURN patterns: for registerIR functions lookupIR unifies the ARGUMENTS only and ApplyIR.explicitNode asserts that the declared return
# type is the type of the implementation's body — the pattern is the body's type (div on int arrays: FloatingPointDivide gives float64,
# the TFloat32 in the arrayOps table is read by nothing); for JVM functions (scalar mod / pow) the registered return type
REGISTRY = {
    'append': [([('Array', _T), _T], ('Array', _T))],
    'extend': [([('Array', _T), ('Array', _T)], ('Array', _T))],
    'flatten': [([('Array', ('Array', _T))], ('Array', _T))],
    'toSet': [([('Array', _T)], ('Set', _T))],
    'isEmpty': [([('Array', _T)], _B), ([('Set', _T)], _B), ([('Dict', _K, _V)], _B)],
    'contains': [([('Array', _T), _T], _B), ([('Set', _T), _T], _B), ([('Dict', _K, _V), _K], _B), ([_S, _S], _B)],
    'add': [([('Set', _T), _T], ('Set', _T))] + _vectorised(_N, _T),
    'sub': _vectorised(_N, _T),
    'mul': _vectorised(_N, _T),
    'floordiv': _vectorised(_N, _T),
    'mod': _vectorised(_N, _T) + [([(t,), (t,)], (t,)) for t in ('Int32', 'Int64', 'Float32', 'Float64')],
    'div': (_vectorised(('Int32',), ('Float64',)) + _vectorised(('Int64',), ('Float64',)) + _vectorised(('Float32',), ('Float32',))
            + _vectorised(('Float64',), ('Float64',))),
    'pow': _vectorised(_N, ('Float64',)) + [([(t,), (t,)], ('Float64',)) for t in ('Int32', 'Int64', 'Float32', 'Float64')],
    'remove': [([('Set', _T), _T], ('Set', _T))],
    'union': [([('Set', _T), ('Set', _T)], ('Set', _T))],
    'intersection': [([('Set', _T), ('Set', _T)], ('Set', _T))],
    'difference': [([('Set', _T), ('Set', _T)], ('Set', _T))],
    'isSubset': [([('Set', _T), ('Set', _T)], _B)],
    'get': [([('Dict', _K, _V), _K, _V], _V), ([('Dict', _K, _V), _K], _V)],
    'index': [([('Dict', _K, _V), _K], _V)],
    'keySet': [([('Dict', _K, _V)], ('Set', _K))],
    'keys': [([('Dict', _K, _V)], ('Array', _K))],
    'values': [([('Dict', _K, _V)], ('Array', _V))],
    'dict': [([('Set', ('Tuple2', _K, _V))], ('Dict', _K, _V)), ([('Array', ('Tuple2', _K, _V))], ('Dict', _K, _V))],
}


def _show_pat(p):
    if p[0] in ('v', 'n'):
        return p[1]
    if p[0] in ('Array', 'Set'):
        return f'{p[0]}[{_show_pat(p[1])}]'
    if p[0] == 'Dict':
        return f'Dict[{_show_pat(p[1])},{_show_pat(p[2])}]'
    if p[0] == 'Tuple2':
        return f'Tuple[{_show_pat(p[1])},{_show_pat(p[2])}]'
    return p[0]


def reg_unify(p, t, sub):
    if p[0] in ('v', 'n'):
        if p[0] == 'n' and t[0] not in NUMERIC:
            return False
        if p[1] in sub:
            return sub[p[1]] == t
        sub[p[1]] = t
        return True
    if p[0] in ('Array', 'Set'):
        return t[0] == p[0] and reg_unify(p[1], t[1], sub)
    if p[0] == 'Dict':
        return t[0] == 'Dict' and reg_unify(p[1], t[1], sub) and reg_unify(p[2], t[2], sub)
    if p[0] == 'Tuple2':
        return t[0] == 'Tuple' and len(t[1]) == 2 and reg_unify(p[1], t[1][0], sub) and reg_unify(p[2], t[1][1], sub)
    return p == t


def registry_ok(fn, arg_types, ret):
    for params, r in REGISTRY.get(fn, []):
        if len(params) != len(arg_types):
            continue
        sub = {}
        if all(reg_unify(p, t, sub) for p, t in zip(params + [r], list(arg_types) + [ret])):
            return True
    return False


def py_infer(s, env):
    h = s[0]

    def sub(x, e=None):
        return py_infer(x, env if e is None else e)

    def need(c, what):
        if not c:
            raise Untypable(f'{h}: {what}')

    if h == 'I32':
        return ('Int32',)
    if h == 'I64':
        return ('Int64',)
    if h == 'F32':
        return ('Float32',)
    if h == 'F64':
        return ('Float64',)
    if h == 'Str':
        return ('String',)
    if h in ('True', 'False'):
        return ('Boolean',)
    if h == 'NA':
        return parse_type(s[1])
    if h in ('EncodedLiteral', 'Literal'):
        return parse_type(s[1])
    if h == 'Ref':
        need(s[1] in env, f'unbound {s[1]}')
        return env[s[1]]
    if h == 'Cast':
        a = sub(s[2])
        t = parse_type(s[1])
        need((a[0] in NUMERIC or a == ('Boolean',)) and t[0] in NUMERIC, 'cast between non-numeric types')
        return t
    if h == 'IsNA':
        sub(s[1])
        return ('Boolean',)
    if h == 'Typed':
        t, a = parse_type(s[1]), sub(s[2])
        need(a == t, f'the front end attached {show_type(t)} to {s[2][0]} {s[2][1] if s[2][0] == "Ref" else ""} but its binders / the rule give '
             f'{show_type(a)}')
        return a
    if h == 'Coalesce':
        ts = [sub(x) for x in s[1:]]
        need(ts and all(t == ts[0] for t in ts), 'operand types')
        return ts[0]
    if h == 'StreamScan':
        a, z = sub(s[3]), sub(s[4])
        need(a[0] == 'Stream', 'not a stream')
        need(sub(s[5], {**env, s[1]: z, s[2]: a[1]}) == z, 'accumulator type')
        return ('Stream', z)
    if h == 'ApplyUnaryPrimOp':
        a = sub(s[2])
        if s[1] in ('-', 'Negate'):
            need(a[0] in NUMERIC, 'negation of a non-number')
            return a
        need(a == ('Boolean',), 'not of a non-boolean')
        return a
    if h == 'ApplyBinaryPrimOp':
        need(s[1] in BINOPS, f'operator {s[1]}')
        a, b = sub(s[2]), sub(s[3])
        need(a == b and a[0] in NUMERIC, f'operands {show_type(a)} and {show_type(b)}')
        if s[1] == '/':
            return ('Float64',) if a[0] in ('Int32', 'Int64', 'Float64') else ('Float32',)
        return a
    if h == 'ApplyComparisonOp':
        need(s[1] in CMPS, f'operator {s[1]}')
        a, b = sub(s[2]), sub(s[3])
        need(a == b and (a[0] in NUMERIC or a[0] in ('Boolean', 'String')), f'operands {show_type(a)} and {show_type(b)}')
        return ('Boolean',)
    if h == 'If':
        c, a, b = sub(s[1]), sub(s[2]), sub(s[3])
        need(c == ('Boolean',) and a == b, 'condition / branch types')
        return a
    if h == 'Let':
        v = sub(s[3])
        return sub(s[4], {**env, s[2]: v})
    if h == 'MakeArray':
        t = parse_type(s[1])
        need(t[0] == 'Array', 'declared type')
        for x in s[2:]:
            need(sub(x) == t[1], 'element type')
        return t
    if h == 'ArrayRef':
        a, i = sub(s[2]), sub(s[3])
        need(a[0] == 'Array' and i == ('Int32',), 'array / index type')
        return a[1]
    if h == 'ArrayLen':
        a = sub(s[1])
        need(a[0] == 'Array', 'not an array')
        return ('Int32',)
    if h in ('ToArray', 'CastToArray'):
        return ('Array', elem_of(sub(s[1])))
    if h == 'ToStream':
        a = sub(s[2])
        need(a[0] in ('Array', 'Set'), 'not an array or set')
        return ('Stream', a[1])
    if h == 'StreamMap':
        a = sub(s[2])
        need(a[0] == 'Stream', 'not a stream')
        return ('Stream', sub(s[3], {**env, s[1]: a[1]}))
    if h == 'StreamFilter':
        a = sub(s[2])
        need(a[0] == 'Stream', 'not a stream')
        need(sub(s[3], {**env, s[1]: a[1]}) == ('Boolean',), 'predicate')
        return a
    if h == 'StreamFold':
        a, z = sub(s[3]), sub(s[4])
        need(a[0] == 'Stream', 'not a stream')
        need(sub(s[5], {**env, s[1]: z, s[2]: a[1]}) == z, 'accumulator type')
        return z
    if h == 'MakeStruct':
        return ('Struct', tuple((f[0], sub(f[1])) for f in s[1:]))
    if h == 'GetField':
        o = sub(s[2])
        need(o[0] == 'Struct', 'not a struct')
        for n, t in o[1]:
            if n == s[1]:
                return t
        raise Untypable(f'no field {s[1]}')
    if h == 'InsertFields':
        o = sub(s[1])
        need(o[0] == 'Struct' and s[2] == 'None', 'struct / field order')
        fs = list(o[1])
        for f in s[3:]:
            t = sub(f[1])
            for j, (n, _) in enumerate(fs):
                if n == f[0]:
                    fs[j] = (n, t)
                    break
            else:
                fs.append((f[0], t))
        return ('Struct', tuple(fs))
    if h == 'MakeTuple':
        return ('Tuple', tuple(sub(x) for x in s[2:]))
    if h == 'GetTupleElement':
        o = sub(s[2])
        need(o[0] == 'Tuple' and int(s[1]) < len(o[1]), 'tuple index')
        return o[1][int(s[1])]
    if h == 'ToSet':
        a = sub(s[1])
        need(a[0] == 'Stream', 'not a stream')
        return ('Set', a[1])
    if h == 'ToDict':
        a = sub(s[1])
        need(a[0] == 'Stream', 'not a stream')
        e = a[1]
        if e[0] == 'Tuple' and len(e[1]) == 2:
            return ('Dict', e[1][0], e[1][1])
        if e[0] == 'Struct' and len(e[1]) == 2:
            return ('Dict', e[1][0][1], e[1][1][1])
        raise Untypable('ToDict of non-pairs')
    if h == 'Apply':
        fn, declared, args = s[2], parse_type(s[4]), s[5:]
        need(s[3] == [], 'type arguments')
        if fn in CONV:
            a = sub(args[0])
            need(a[0] in NUMERIC or a == ('Boolean',), 'conversion of a non-number')
            t = CONV[fn]
        elif fn == 'indexArray':
            a, i = sub(args[0]), sub(args[1])
            need(a[0] == 'Array' and i == ('Int32',), 'array / index type')
            t = a[1]
        elif fn == 'index':
            d, k = sub(args[0]), sub(args[1])
            need(d[0] == 'Dict' and k == d[1], 'dict / key type')
            t = d[2]
        elif fn == 'dict':
            a = sub(args[0])
            need(a[0] == 'Array' and a[1][0] == 'Tuple' and len(a[1][1]) == 2, 'dict of a non-array of pairs')
            t = ('Dict', a[1][1][0], a[1][1][1])
        elif fn in ('land', 'lor'):
            need(sub(args[0]) == ('Boolean',) and sub(args[1]) == ('Boolean',), 'boolean operands')
            t = ('Boolean',)
        elif fn in REGISTRY:
            ats = [sub(a) for a in args]
            need(registry_ok(fn, ats, declared),
                 f'no registered function {fn}({", ".join(show_type(a) for a in ats)}): {show_type(declared)} — the engine registers '
                 + ' | '.join('(' + ', '.join(_show_pat(p) for p in ps) + ') -> ' + _show_pat(r) for ps, r in REGISTRY[fn]))
            t = declared
        else:
            raise Untypable(f'function {fn} is outside the modelled set')
        need(t == declared, f'declared return type {show_type(declared)} but the rule gives {show_type(t)}')
        return t
    raise Untypable(f'node {h} is outside the modelled set')


# --------------------------------------------------------------------------------------------------------------------
# Python values (case JSON)  ->  real Python objects / s-expression for the driver / strict storability check

def py_of_json(j, hl):
    if j is None:
        return None
    if isinstance(j, bool):
        return j
    k, v = next(iter(j.items()))
    if k == 'i':
        return int(v)
    if k == 'f':
        return float(v)
    if k == 's':
        return v
    if k == 'list':
        return [py_of_json(x, hl) for x in v]
    if k == 'tuple':
        return tuple(py_of_json(x, hl) for x in v)
    if k == 'set':
        return frozenset(py_of_json(x, hl) for x in v)
    if k == 'dict':
        return {py_of_json(a, hl): py_of_json(b, hl) for a, b in v}
    if k == 'struct':
        return hl.Struct(**{n: py_of_json(x, hl) for n, x in v})
    raise ValueError(k)


def sexp_of_json(j):
    if j is None:
        return '(none)'
    if isinstance(j, bool):
        return '(b 1)' if j else '(b 0)'
    k, v = next(iter(j.items()))
    if k == 'i':
        return f'(i {int(v)})'
    if k == 'f':
        return f'(f {int(v)})'
    if k == 's':
        return f'(s "{v}")'
    if k in ('list', 'tuple', 'set'):
        return f'({k}' + ''.join(' ' + sexp_of_json(x) for x in v) + ')'
    if k == 'dict':
        return '(dict' + ''.join(f' ({sexp_of_json(a)} {sexp_of_json(b)})' for a, b in v) + ')'
    if k == 'struct':
        return '(struct' + ''.join(f' ({n} {sexp_of_json(x)})' for n, x in v) + ')'
    raise ValueError(k)


def py_check(t, j):
    """can the value (case JSON) be stored at type t (tuple form)?  strict: every struct field present, ints in range"""
    if j is None:
        return True
    k0 = t[0]
    if isinstance(j, bool):
        return k0 in ('Boolean', 'Int32', 'Int64', 'Float32', 'Float64')
    k, v = next(iter(j.items()))
    if k == 'i':
        n = int(v)
        if k0 == 'Int32':
            return -2 ** 31 <= n <= 2 ** 31 - 1
        if k0 == 'Int64':
            return -2 ** 63 <= n <= 2 ** 63 - 1
        return k0 in ('Float32', 'Float64')
    if k == 'f':
        return k0 in ('Float32', 'Float64')
    if k == 's':
        return k0 == 'String'
    if k == 'list':
        return k0 == 'Array' and all(py_check(t[1], x) for x in v)
    if k == 'set':
        return k0 == 'Set' and all(py_check(t[1], x) for x in v)
    if k == 'tuple':
        return k0 == 'Tuple' and len(v) == len(t[1]) and all(py_check(a, x) for a, x in zip(t[1], v))
    if k == 'dict':
        if k0 == 'Dict':
            return all(py_check(t[1], a) and py_check(t[2], b) for a, b in v)
        if k0 == 'Struct':
            if not all(isinstance(a, dict) and 's' in a for a, _ in v):
                return False
            return py_check(t, {'struct': [[a['s'], b] for a, b in v]})
        return False
    if k == 'struct':
        if k0 != 'Struct' or len(v) != len(t[1]):
            return False
        d = {}
        for n, x in v:
            d.setdefault(n, x)
        return all(n in d and py_check(ft, d[n]) for n, ft in t[1])
    raise ValueError(k)


# --------------------------------------------------------------------------------------------------------------------
# generator of expression programs (typed just enough to be mostly accepted by the front end)

NUMS = ['i32', 'i64', 'f32', 'f64']
RANK = {'i32': 0, 'i64': 1, 'f32': 2, 'f64': 3}


def promote(a, b):
    return a if RANK[a] >= RANK[b] else b


class ExprGen:
    def __init__(self, rng):
        self.rng = rng

    def num(self, env, d, want=None):
        """-> (program, numeric kind)"""
        rng = self.rng
        vs = [(i, t) for i, t in enumerate(env) if t in NUMS and (want is None or t == want)]
        if d <= 0 or rng.random() < 0.25:
            if vs and rng.random() < 0.5:
                i, t = rng.choice(vs)
                return ['var', i], t
            k = want or rng.choice(NUMS)
            if k == 'i32':
                return (['i32', rng.choice([0, 1, 2, 3, -1, 7, 100])] if rng.random() < 0.6 else ['pyint', rng.choice([0, 1, 5, -3])]), 'i32'
            if k == 'i64':
                return ['i64', rng.choice([0, 1, 5, 2 ** 40, -7])], 'i64'
            if k == 'f32':
                return ['f32', rng.choice([0, 1, 2, -3])], 'f32'
            return (['f64', rng.choice([0, 1, 2, -3, 10])] if rng.random() < 0.6 else ['pyfloat', rng.choice([0, 2, -1])]), 'f64'
        o = rng.choice(['bin', 'bin', 'bin', 'div', 'neg', 'if', 'cast', 'index', 'fold', 'fold', 'wfold', 'wfold', 'field', 'tidx', 'len', 'let',
                        'dindex', 'coalesce', 'case', 'switch', 'or_missing', 'dget', 'dget'])
        if want is not None and o in ('div', 'len', 'dindex', 'wfold', 'coalesce', 'case', 'switch'):
            o = 'bin'
        if o == 'bin' and want is None and rng.random() < 0.35:
            # scalar % and ** (registry functions mod / pow), also with a Python number on the left (reflected operators)
            op = rng.choice(['%', '**', '**', '/', '//'])
            a, ta = self.num(env, d - 1)
            r = rng.random()
            other, to = (['pyint', rng.choice([2, 3])], 'i32') if r < 0.4 else (['pyfloat', 2], 'f64') if r < 0.55 else self.num(env, 0)
            t = promote(ta, to)
            t = 'f64' if op == '**' else ('f32' if t == 'f32' else 'f64') if op == '/' else t
            return (['arith', op, a, other] if rng.random() < 0.5 else ['arith', op, other, a]), t
        if o == 'dget':
            # dict<K, V>.get(key[, default]) / dict[key] with a key and a default of OTHER numeric kinds: they must be coerced before the call
            k0, _ = self.num(env, 0, rng.choice(NUMS))
            v0, tv = self.num(env, d - 1, want)
            dct = ['todict', ['array', [['tuple', [k0, v0]]]]]
            key, _ = self.num(env, 0)
            if rng.random() < 0.25:
                return ['dindex', dct, key], tv
            return ['method', 'get', dct, [key] + ([self.num(env, 0)[0]] if rng.random() < 0.5 else [])], tv
        if o == 'wfold':
            # a fold whose function returns something WIDER (or narrower) than its zero: the front end re-runs the function with a
            # widened accumulator / coerces the body
            a, te = self.array_num(env, d - 1)
            z, tz = self.num(env, 0)
            acc = ['var', len(env)]
            elt = ['var', len(env) + 1]
            other, to = (elt, te) if rng.random() < 0.7 else self.num(env + [tz, te], d - 1)
            body = [rng.choice(['add', 'mul', 'sub', 'div', 'floordiv']), acc, other] if rng.random() < 0.8 else ['if', self.boolean(env, 0), acc, other]
            t = promote(tz, to)
            if body[0] == 'div':
                t = 'f64' if t in ('i32', 'i64', 'f64') else 'f32'
            return ['fold', a, z, body], t
        if o == 'coalesce':
            es = [self.num(env, d - 1) for _ in range(rng.choice([2, 2, 3]))]
            t = es[0][1]
            for _, te in es[1:]:
                t = promote(t, te)
            if len(es) == 2 and rng.random() < 0.5:
                return ['or_else', es[0][0], es[1][0]], t
            return ['coalesce', [e for e, _ in es]], t
        if o in ('case', 'switch'):
            n = rng.choice([1, 2, 3])
            vals = [self.num(env, d - 1) for _ in range(n)]
            dflt = self.num(env, d - 1) if rng.random() < 0.7 else None
            t = vals[0][1]
            for _, te in vals[1:] + ([dflt] if dflt else []):
                t = promote(t, te)
            if o == 'case':
                return ['case', [[self.boolean(env, d - 1), v] for v, _ in vals], dflt[0] if dflt else None], t
            return ['switch', self.num(env, 0, 'i32')[0], [[['pyint', i], v] for i, (v, _) in enumerate(vals)], dflt[0] if dflt else None], t
        if o == 'or_missing':
            a, ta = self.num(env, d - 1, want)
            return ['or_missing', self.boolean(env, d - 1), a], ta
        if o == 'bin':
            a, ta = self.num(env, d - 1, want)
            b, tb = self.num(env, d - 1, want)
            return [rng.choice(['add', 'sub', 'mul']), a, b], promote(ta, tb)
        if o == 'div':
            a, ta = self.num(env, d - 1)
            b, tb = self.num(env, d - 1)
            if rng.random() < 0.5:
                t = promote(ta, tb)
                return ['div', a, b], ('f64' if t in ('i32', 'i64', 'f64') else 'f32')
            return ['floordiv', a, b], promote(ta, tb)
        if o == 'neg':
            a, ta = self.num(env, d - 1, want)
            return ['neg', a], ta
        if o == 'if':
            c = self.boolean(env, d - 1)
            a, ta = self.num(env, d - 1, want)
            b, tb = self.num(env, d - 1, want)
            return ['if', c, a, b], promote(ta, tb)
        if o == 'cast':
            a, _ = self.num(env, d - 1)
            k = want or rng.choice(NUMS)
            return ['cast', k, a], k
        if o == 'index':
            a, te = self.array_num(env, d - 1, want)
            i, _ = self.num(env, 0, 'i32')
            return ['index', a, i], te
        if o == 'fold':
            a, te = self.array_num(env, d - 1)
            z, tz = self.num(env, 0, want)
            # the accumulator has the type of zero; the body must return exactly that type: cast it
            body, _ = self.num(env + [tz, te], d - 1)
            return ['fold', a, z, ['cast', tz, body]], tz
        if o == 'field':
            k = want or rng.choice(NUMS)
            x, _ = self.num(env, d - 1, k)
            y = self.boolean(env, 0)
            s = ['struct', [['p', x], ['q', y]]]
            if rng.random() < 0.5:
                z, tz = self.num(env, d - 1)
                s = ['annotate', s, [['r', z], ['q', z]]]
            return ['field', s, 'p'], k
        if o == 'tidx':
            k = want or rng.choice(NUMS)
            x, _ = self.num(env, d - 1, k)
            return ['tidx', ['tuple', [self.boolean(env, 0), x]], 1], k
        if o == 'len':
            a, _ = self.array_num(env, d - 1)
            return ['len', a], 'i32'
        if o == 'let':
            v, tv = self.num(env, d - 1)
            b, tb = self.num(env + [tv], d - 1, want)
            return ['let', v, b], tb
        if o == 'dindex':
            x, tx = self.num(env, d - 1)
            return ['dindex', ['todict', ['array', [['tuple', [['str', 'k'], x]]]]], ['str', 'k']], tx
        raise ValueError(o)

    def boolean(self, env, d):
        rng = self.rng
        if d <= 0 or rng.random() < 0.3:
            return ['bool', rng.random() < 0.5]
        o = rng.choice(['cmp', 'cmp', 'not', 'and', 'isdef', 'strcmp', 'contains', 'contains', 'subset'])
        if o == 'contains':
            # array / set / dict .contains(item) with an item of another numeric kind
            kind = rng.choice(['arr', 'arr', 'set', 'dict'])
            item, _ = self.num(env, 0)
            if kind == 'arr':
                return ['method', 'contains', self.array_num(env, d - 1)[0], [item]]
            t = rng.choice(NUMS)
            elems = [self.num(env, 0, t)[0] for _ in range(rng.choice([1, 2]))]
            if kind == 'set':
                return ['method', 'contains', ['set', elems], [item]]
            return ['method', 'contains', ['todict', ['array', [['tuple', [e, ['bool', True]]] for e in elems]]], [item]]
        if o == 'subset':
            ta, tb = rng.choice(NUMS), rng.choice(NUMS)
            return ['method', 'is_subset', ['set', [self.num(env, 0, ta)[0]]], [['set', [self.num(env, 0, tb if rng.random() < 0.5 else ta)[0]]]]]
        if o == 'cmp':
            a, _ = self.num(env, d - 1)
            b, _ = self.num(env, d - 1)
            return ['cmp', rng.choice(['<', '<=', '>', '>=', '==', '!=']), a, b]
        if o == 'not':
            return ['not', self.boolean(env, d - 1)]
        if o == 'and':
            return [rng.choice(['and', 'or']), self.boolean(env, d - 1), self.boolean(env, d - 1)]
        if o == 'isdef':
            a, _ = self.num(env, d - 1)
            return ['isdef', a]
        return ['cmp', rng.choice(['==', '!=', '<']), ['str', rng.choice(['a', 'b'])], ['str', 'a']]

    def array_num(self, env, d, want=None):
        """-> (program of an array of numbers, element kind)"""
        rng = self.rng
        o = (rng.choice(['mk', 'mk', 'lit', 'map', 'filter', 'missing', 'scan', 'scan', 'ifarr', 'append', 'append', 'extend', 'dkeys',
                         'arith', 'arith', 'arith'])
             if d > 0 else rng.choice(['mk', 'lit']))
        if o == 'arith' and want is None:
            # vectorised arithmetic: array OP scalar, scalar OP array (forward and REFLECTED: a Python number / bool on the left), array OP array
            op = rng.choice(['+', '-', '*', '/', '//', '%', '**', '**'])
            a, ta = self.array_num(env, d - 1)
            shape = rng.choice(['as', 'sa', 'sa', 'aa'])
            if shape == 'aa':
                other, to = self.array_num(env, 0)
            else:
                r = rng.random()
                if r < 0.35:
                    other, to = ['pyint', rng.choice([2, 3, -1])], 'i32'
                elif r < 0.5:
                    other, to = ['pyfloat', rng.choice([2, 0.5])], 'f64'
                elif r < 0.6:
                    other, to = ['pybool', True], 'i32'
                else:
                    other, to = self.num(env, 0)
            t = promote(ta, to)
            if op == '**':
                t = 'f64'
            elif op == '/':
                t = 'f32' if t == 'f32' else 'f64'
            return ['arith', op, a, other] if shape != 'sa' else ['arith', op, other, a], t
        if o == 'arith':
            o = 'mk'
        if o in ('append', 'extend'):
            # a.append(x) / a.extend(b) where the item / the other array has the SAME element kind, a narrower one (coercible) or a wider one
            a, ta = self.array_num(env, d - 1, want)
            tx = ta if rng.random() < 0.4 else rng.choice(NUMS)
            if o == 'append':
                return ['method', 'append', a, [self.num(env, d - 1 if rng.random() < 0.3 else 0, tx)[0]]], ta
            return ['method', 'extend', a, [self.array_num(env, 0, tx)[0]]], ta
        if o == 'dkeys':
            tk = want or rng.choice(NUMS)
            tv = rng.choice(NUMS)
            dct = ['todict', ['array', [['tuple', [self.num(env, 0, tk)[0], self.num(env, 0, tv)[0]]]]]]
            if want is None and rng.random() < 0.5:
                return ['method', 'values', dct, []], tv
            return ['method', 'keys', dct, []], tk
        if o == 'scan':
            a, te = self.array_num(env, d - 1)
            z, tz = self.num(env, 0, want)
            acc = ['var', len(env)]
            elt = ['var', len(env) + 1]
            if want is not None or rng.random() < 0.4:
                body, _ = self.num(env + [tz, te], d - 1)
                return ['scan', a, z, ['cast', tz, body]], tz
            other, to = (elt, te) if rng.random() < 0.7 else self.num(env + [tz, te], d - 1)
            return ['scan', a, z, [rng.choice(['add', 'mul', 'sub']), acc, other]], promote(tz, to)
        if o == 'ifarr':
            # if_else over arrays with different numeric element types: one branch is coerced element-wise
            a, ta = self.array_num(env, d - 1, want)
            b, tb = self.array_num(env, d - 1, want)
            return ['if', self.boolean(env, d - 1), a, b], promote(ta, tb)
        if o == 'mk':
            es = [self.num(env, d - 1, want) for _ in range(rng.choice([1, 2, 3]))]
            t = es[0][1]
            for _, te in es[1:]:
                t = promote(t, te)
            return ['array', [e for e, _ in es]], t
        if o == 'lit':
            k = want or rng.choice(['i32', 'f64', 'i64'])
            if k == 'i32':
                return ['lit', {'list': [{'i': 1}, {'i': 2}, None]}], 'i32'
            if k == 'i64':
                return ['lit', {'list': [{'i': 1}, {'i': 2 ** 40}]}], 'i64'
            if k == 'f64':
                return ['lit', {'list': [{'i': 1}, {'f': 2}]}], 'f64'
            return ['array', [['f32', 1]]], 'f32'
        if o == 'map':
            a, te = self.array_num(env, d - 1)
            b, tb = self.num(env + [te], d - 1, want)
            return ['map', a, b], tb
        if o == 'filter':
            a, te = self.array_num(env, d - 1, want)
            return ['filter', a, self.boolean(env + [te], d - 1)], te
        k = want or rng.choice(NUMS)
        return ['missing', ['arr', k]], k

    def any_expr(self, d):
        rng = self.rng
        o = rng.choice(['num', 'num', 'bool', 'arr', 'struct', 'tuple', 'set', 'dict', 'arrstruct'])
        if o == 'num':
            return self.num([], d)[0]
        if o == 'bool':
            return self.boolean([], d)
        if o == 'arr':
            return self.array_num([], d)[0]
        if o == 'struct' and rng.random() < 0.3:
            # if_else over structs whose fields have different numeric types
            return ['if', self.boolean([], d - 1), ['struct', [['a', self.num([], d - 1)[0]], ['b', ['str', 'x']]]],
                    ['struct', [['a', self.num([], d - 1)[0]], ['b', ['str', 'y']]]]]
        if o == 'struct':
            a, _ = self.num([], d - 1)
            s = ['struct', [['a', a], ['b', self.boolean([], d - 1)], ['c', self.array_num([], d - 1)[0]]]]
            if rng.random() < 0.5:
                s = ['annotate', s, [['d', self.num([], d - 1)[0]], ['a', ['str', 'x']]]]
            return s
        if o == 'tuple':
            return ['tuple', [self.num([], d - 1)[0], ['str', 's'], self.array_num([], d - 1)[0]]]
        if o == 'set' and rng.random() < 0.6:
            # set methods with an item / another set of a different numeric kind
            ta = rng.choice(NUMS)
            st = ['set', [self.num([], 0, ta)[0] for _ in range(rng.choice([1, 2]))]]
            m = rng.choice(['add', 'add', 'remove', 'union', 'intersection', 'difference', 'key_set'])
            if m in ('add', 'remove'):
                return ['method', m, st, [self.num([], d - 1 if rng.random() < 0.3 else 0)[0]]]
            if m == 'key_set':
                return ['method', 'key_set', ['todict', ['array', [['tuple', [self.num([], 0, ta)[0], self.boolean([], 0)]]]]], []]
            tb = ta if rng.random() < 0.5 else rng.choice(NUMS)
            return ['method', m, st, [['set', [self.num([], 0, tb)[0]]]]]
        if o == 'set':
            return ['set', [self.num([], d - 1)[0] for _ in range(rng.choice([1, 2, 3]))]]
        if o == 'dict':
            return ['todict', ['array', [['tuple', [self.num([], d - 1)[0], self.boolean([], d - 1)]] for _ in range(rng.choice([1, 2]))]]]
        a, ta = self.array_num([], d - 1)
        return ['map', a, ['struct', [['v', ['var', 0]], ['w', self.num([ta], d - 1)[0]]]]]


# generator of Python values for impute_type ----------------------------------------------------------------------------

def gen_scalar(rng, kinds):
    k = rng.choice(kinds)
    if k == 'none':
        return None
    if k == 'bool':
        return rng.random() < 0.5
    if k == 'int':
        return {'i': rng.choice([0, 1, -1, 5, 2 ** 31 - 1, -2 ** 31, 2 ** 31, -2 ** 31 - 1, 2 ** 40, 2 ** 63 - 1, -2 ** 63] + ([2 ** 63] if rng.random() < 0.1 else []))}
    if k == 'float':
        return {'f': rng.choice([0, 1, 2, -3])}
    return {'s': rng.choice(['a', 'b', 'xy', ''])}


def gen_pyval(rng, d):
    r = rng.random()
    if d <= 0 or r < 0.25:
        return gen_scalar(rng, ['none', 'bool', 'int', 'int', 'float', 'float', 'str'])
    o = rng.choice(['list', 'list', 'list', 'tuple', 'set', 'dict', 'struct', 'list-of-struct', 'list-of-list', 'clash'])
    if o == 'clash':
        # [[xs, ys], [zs]]: an inner clash (or agreement) whose hole a sibling may fill
        def lst():
            return {'list': [gen_scalar(rng, rng.choice([['int'], ['str'], ['float'], ['int', 'none']])) for _ in range(rng.choice([0, 1, 2]))]}
        return {'list': [{'list': [lst(), lst()]}, {'list': [lst()]}]}
    n = rng.choice([0, 1, 2, 2, 3])
    homog = rng.random() < 0.6
    kinds = rng.choice([['int'], ['int', 'float'], ['int', 'none'], ['bool', 'int'], ['str'], ['float', 'none', 'bool'], ['int', 'str'],
                        ['none'], ['str', 'none']])
    if o == 'list':
        return {'list': [gen_scalar(rng, kinds) if homog else gen_pyval(rng, d - 1) for _ in range(n)]}
    if o == 'tuple':
        return {'tuple': [gen_pyval(rng, d - 1) for _ in range(n)]}
    if o == 'set':
        return {'set': _dedup([gen_scalar(rng, [k for k in kinds if k != 'none'] or ['int']) for _ in range(n)])}
    if o == 'dict':
        keys = _dedup([gen_scalar(rng, rng.choice([['str'], ['int'], ['int', 'float'], ['str', 'int']])) for _ in range(n)])
        keys = [({'s': 'k'} if k == {'s': ''} else k) for k in keys]      # a key may become a struct field name: keep it an identifier
        keys = _dedup(keys)
        return {'dict': [[k, gen_scalar(rng, kinds) if homog else gen_pyval(rng, d - 1)] for k in keys]}
    if o == 'struct':
        names = rng.sample(['a', 'b', 'c', 'd'], rng.choice([0, 1, 2, 3]))
        return {'struct': [[nm, gen_pyval(rng, d - 1)] for nm in names]}
    if o == 'list-of-struct':
        same = rng.random() < 0.6
        base = rng.sample(['a', 'b', 'c'], rng.choice([1, 2]))
        out = []
        for _ in range(max(n, 1)):
            names = base if same else rng.sample(['a', 'b', 'c'], rng.choice([1, 2]))
            out.append({'struct': [[nm, gen_scalar(rng, kinds)] for nm in names]})
        return {'list': out}
    return {'list': [{'list': [gen_scalar(rng, rng.choice([kinds, ['int'], ['str']])) for _ in range(rng.choice([0, 1, 2]))]}
                     if rng.random() < 0.8 else gen_pyval(rng, d - 1) for _ in range(n)]}


def _dedup(xs):
    out, seen = [], set()
    for x in xs:
        k = json.dumps(x, sort_keys=True)
        # Python: True == 1 == 1.0 hash-equal — keep one numeric representative per value to stay a legal set / dict key list
        if isinstance(x, bool):
            k = f'n{int(x)}'
        elif isinstance(x, dict) and ('i' in x or 'f' in x):
            k = f'n{int(next(iter(x.values())))}'
        if k not in seen:
            seen.add(k)
            out.append(x)
    return out


# matrix-table programs -----------------------------------------------------------------------------------------------------

AXES = ('globals', 'cols', 'rows', 'entries')


class IllTypedIR(Exception):
    """the engine's typing rule for an emitted node fails (a fatal struct concatenation)"""


def py_matrix_ops(m, texts):
    """documented type contract of the MatrixTable calls on the op texts; m = dict(globals, cols, rows, entries: [(name, type text)],
    ck, rk: [names]); -> m or None when a call must be refused"""
    def named(txt):
        return [tuple(x.split('=', 1)) for x in txt.split('&')] if txt else []

    def insert(fs, new):
        fs = list(fs)
        for n, t in new:
            for j, (k, _) in enumerate(fs):
                if k == n:
                    fs[j] = (n, t)
                    break
            else:
                fs.append((n, t))
        return fs

    def key_of(ax):
        return m['ck'] if ax == 'cols' else m['rk'] if ax == 'rows' else []

    def others(ax):
        return [n for b in AXES if b != ax for n, _ in m[b]]

    m = {k: list(v) for k, v in m.items()}
    for op in texts:
        if op == 'range':
            continue
        parts = op.split(' ')
        k = parts[0]
        if k == 'annotate':
            ax, new = parts[1], named(parts[2])
            if any(n in key_of(ax) or n in others(ax) for n, _ in new):
                return None
            m[ax] = insert(m[ax], new)
        elif k == 'select':
            ax = parts[1]
            keep_txt, _, named_txt = parts[2].partition('|')
            keep = keep_txt.split(',') if keep_txt else []
            new = named(named_txt)
            d = dict(m[ax])
            if any(n in key_of(ax) or n not in d for n in keep):
                return None
            if any(n in key_of(ax) or n in keep or n in others(ax) for n, _ in new):
                return None
            m[ax] = [(n, d[n]) for n in key_of(ax)] + [(n, d[n]) for n in keep] + new
        elif k == 'drop':
            names = parts[1].split(',')
            allnames = [n for b in AXES for n, _ in m[b]]
            if any(n in m['ck'] or n in m['rk'] or n not in allnames for n in names):
                return None
            for b in AXES:
                m[b] = [(n, t) for n, t in m[b] if n not in names]
        elif k == 'key_cols_by':
            names = parts[1].split(',') if len(parts) > 1 else []
            if any(n not in dict(m['cols']) for n in names):
                return None
            m['ck'] = names
        elif k == 'key_rows_by':
            names = parts[1].split(',') if len(parts) > 1 else []
            if any(n not in dict(m['rows']) for n in names):
                return None
            m['rk'] = names
        elif k == 'filter':
            pass
        else:
            raise ValueError(op)
    return m


M_RANGE = {'globals': [], 'cols': [('col_idx', 'Int32')], 'ck': ['col_idx'], 'rows': [('row_idx', 'Int32')], 'rk': ['row_idx'], 'entries': []}


def _st(fs):
    return 'Struct{' + ','.join(f'{n}:{t}' for n, t in fs) + '}'


def show_m(view, m):
    if view == 'rows':
        return f"g={_st(m['globals'])} r={_st(m['rows'])} k=" + ','.join(m['rk'])
    if view == 'cols':
        return f"g={_st(m['globals'])} r={_st(m['cols'])} k=" + ','.join(m['ck'])
    if view == 'entries':
        return f"g={_st(m['globals'])} r={_st(m['rows'] + m['cols'] + m['entries'])} k=" + ','.join(m['rk'] + m['ck'])
    return (f"g={_st(m['globals'])} c={_st(m['cols'])} ck={','.join(m['ck'])} r={_st(m['rows'])} rk={','.join(m['rk'])} "
            f"e={_st(m['entries'])}")


def py_matrix(view, left, right=None, post=None):
    m = py_matrix_ops(M_RANGE, left)
    if m is None:
        return None
    if right is not None:
        r = py_matrix_ops(M_RANGE, right)
        if r is None:
            return None
        kt = lambda x: [dict(x['rows'])[k] for k in x['rk']]
        vf = lambda x: [(n, t) for n, t in x['rows'] if n not in x['rk']]
        if m['entries'] != r['entries'] or m['cols'] != r['cols'] or m['ck'] != r['ck'] or kt(m) != kt(r):
            return None
        # contract ("union_cols: renamed the following fields on the right to avoid name conflicts"): a right row field whose name is a
        # field name of the left dataset becomes name_1, name_2, …
        used = {n for a in ('globals', 'cols', 'rows', 'entries') for n, _ in m[a]}
        renamed = []
        for n, t in vf(r):
            k, i = n, 0
            while k in used:
                i += 1
                k = f'{n}_{i}'
            used.add(k)
            renamed.append((k, t))
        m = dict(m, rows=[(k, dict(m['rows'])[k]) for k in m['rk']] + vf(m) + renamed)
        m = py_matrix_ops(m, post or [])
        if m is None:
            return None
    return show_m(view, m)


# table programs ----------------------------------------------------------------------------------------------------------

H_RANK = {'Boolean': 0, 'Int32': 1, 'Int64': 2, 'Float32': 3, 'Float64': 4}


def _parse_tt(line):
    m = re.match(r'g=(\S+) r=(\S+) k=(\S*)$', line)
    g, r = parse_type(m.group(1)), parse_type(m.group(2))
    return [(n, show_type(t)) for n, t in g[1]], [(n, show_type(t)) for n, t in r[1]], [k for k in m.group(3).split(',') if k]


def _show_tt(g, r, k):
    return ('g=Struct{' + ','.join(f'{n}:{t}' for n, t in g) + '} r=Struct{' + ','.join(f'{n}:{t}' for n, t in r) + '} k=' + ','.join(k))


def py_union(unify, branch_texts):
    """API contract of t0.union(t1, …, unify=…) on the branch pipelines (oracle side): -> result line, or None when the call must be
    refused.  The result is well typed by construction: every table is brought to the same row type."""
    tabs = []
    for texts in branch_texts:
        line = py_table(texts)
        if line is None:
            return None
        tabs.append(_parse_tt(line))
    keys = [[(k, dict(r)[k]) for k in key] for _, r, key in tabs]
    if any(k != keys[0] for k in keys[1:]):
        return None
    g0, r0, k0 = tabs[0]
    if not unify:
        return _show_tt(g0, r0, k0) if all(r == r0 for _, r, _ in tabs[1:]) else None
    vals = [[(n, t) for n, t in r if n not in key] for _, r, key in tabs]
    if all(r == r0 for _, r, _ in tabs[1:]):
        return _show_tt(g0, r0, k0)
    names = []
    for v in vals:
        for n, _ in v:
            if n not in names:
                names.append(n)
    fields = []
    for n in names:
        ts = [dict(v)[n] for v in vals if n in dict(v)]
        if all(t == ts[0] for t in ts):
            u = ts[0]
        elif all(t in H_RANK for t in ts):
            u = max(ts, key=lambda t: H_RANK[t])
        else:
            return None
        fields.append((n, u))
    return _show_tt(g0, keys[0] + fields, k0)


def py_join(left_texts, right_texts):
    a, b = py_table(left_texts), py_table(right_texts)
    if a is None or b is None:
        return None
    (gl, rl, kl), (gr, rr, kr) = _parse_tt(a), _parse_tt(b)
    if [dict(rl)[k] for k in kl] != [dict(rr)[k] for k in kr]:
        return None
    # contract ("Table.join: renamed the following fields on the right to avoid name conflicts"): a right field whose name clashes
    # with a field of the left table becomes name_1, name_2, …;
    # that covers row fields and globals alike (one namespace); the right KEY fields do not appear in the result
    used = {n for n, _ in rl} | {n for n, _ in gl}

    def fresh(n):
        m, i = n, 0
        while m in used:
            i += 1
            m = f'{n}_{i}'
        used.add(m)
        return m
    vals = [(fresh(n), t) for n, t in rr if n not in kr]
    globs = [(fresh(n), t) for n, t in gr]
    return _show_tt(gl + globs, [(k, dict(rl)[k]) for k in kl] + [(n, t) for n, t in rl if n not in kl] + vals, kl)


def py_index(kind, axis, view, lt, rt, expr_types, am, use_len, name):
    """API contract of left.annotate(name = use(right.index(exprs, all_matches=am))) (kind 'table') / mt.annotate_rows|cols (kind
    'matrix'): the looked-up value is the right table's row-value struct, an ARRAY of it with all_matches -> result line or None"""
    b = py_table(rt)
    if b is None:
        return None
    _, rr, kr = _parse_tt(b)
    ktypes = [dict(rr)[k] for k in kr]
    interval = len(expr_types) == 1 and bool(ktypes) and ktypes[0] == f'Interval[{expr_types[0]}]'
    if ktypes != list(expr_types) and not interval:
        return None
    if kind == 'matrix' and axis == 'cols' and interval and am:
        return None                                  # documented as not implemented
    root = 'Struct{' + ','.join(f'{n}:{t}' for n, t in rr if n not in kr) + '}'
    if am:
        root = f'Array[{root}]'
    if use_len:
        if not am:
            return None
        root = 'Int32'
    if kind == 'table':
        return py_table(list(lt) + [f'annotate {name}={root}'])
    m = py_matrix_ops(M_RANGE, list(lt) + [f'annotate {axis} {name}={root}'])
    return None if m is None else show_m(view, m)


def py_table(texts):
    """the documented type contract of the Table API calls, on the op texts (oracle side, independent of the Lean model):
    -> (globals, row, key) with globals / row as ordered lists of (name, type text), or None when a call must be refused"""
    glob, row, key = [], [('idx', 'Int32')], ['idx']

    def named(txt):
        return [tuple(x.split('=', 1)) for x in txt.split('&')] if txt else []

    def insert(fs, new):
        fs = list(fs)
        for n, t in new:
            for j, (m, _) in enumerate(fs):
                if m == n:
                    fs[j] = (n, t)
                    break
            else:
                fs.append((n, t))
        return fs

    for op in texts[1:]:
        k, _, arg = op.partition(' ')
        if k == 'annotate':
            new = named(arg)
            if any(n in key or n in dict(glob) for n, _ in new):
                return None
            row = insert(row, new)
        elif k == 'annotate_globals':
            new = named(arg)
            if any(n in dict(row) for n, _ in new):
                return None
            glob = insert(glob, new)
        elif k == 'select':
            keep_txt, _, named_txt = arg.partition('|')
            keep = keep_txt.split(',') if keep_txt else []
            new = named(named_txt)
            if any(n in key or n not in dict(row) for n in keep):
                return None
            if any(n in key or n in keep or n in dict(glob) for n, _ in new):
                return None
            r = dict(row)
            row = [(n, r[n]) for n in key] + [(n, r[n]) for n in keep] + new
        elif k == 'drop':
            names = arg.split(',')
            if any(n in key or (n not in dict(row) and n not in dict(glob)) for n in names):
                return None
            row = [(n, t) for n, t in row if n not in names]
            glob = [(n, t) for n, t in glob if n not in names]
        elif k == 'key_by':
            names = arg.split(',') if arg else []
            if any(n not in dict(row) for n in names):
                return None
            key = names
        elif k == 'filter':
            pass
        elif k == 'order_by':
            key = []
        elif k == 'rename':
            m = dict(x.split('=') for x in arg.split(','))
            if any(a not in dict(row) and a not in dict(glob) for a in m):
                return None
            row = [(m.get(n, n), t) for n, t in row]
            glob = [(m.get(n, n), t) for n, t in glob]
            key = [m.get(n, n) for n in key]
            allnames = [n for n, _ in row] + [n for n, _ in glob]
            if len(set(allnames)) != len(allnames):
                return None
        elif k == 'explode':
            if arg in key or arg not in dict(row):
                return None
            t = parse_type(dict(row)[arg])
            if t[0] not in ('Array', 'Set'):
                return None
            row = [(n, show_type(t[1]) if n == arg else ty) for n, ty in row]
        else:
            raise ValueError(op)
    return ('g=Struct{' + ','.join(f'{n}:{t}' for n, t in glob) + '} r=Struct{' + ','.join(f'{n}:{t}' for n, t in row) + '} k=' + ','.join(key))


FIELD_TYPES = ['i32', 'i64', 'f64', 'bool', 'str', 'arr', 'set', 'st']


class C36(Prop):
    id = 'C36'
    title = 'Front-end types agree with the IR it emits'
    lean_props = ['HailVerif.Props.C36']
    driver = 'Driver/C36.lean'
    engine = 'E4-frontend'
    design_ref = 'DESIGN.md §4 C36'
    technique = ('Lean 4 proof of type soundness of an executable model of the IR typing rules (reusing the C35 evaluator), of the numeric '
                 'promotion used by impute_type and of key preservation of the Table type transformers + differential correspondence of '
                 'the three models with the real front end on generated programs, values and table pipelines')
    level_text = ('Proved in Lean: infer_sound (every program the model\'s typing rules accept at type t evaluates, in every matching '
                  'environment, to a value of type t — value and aggregation scope, 40 node kinds), promotion soundness for stored Python '
                  'values, soundness of impute_type on lists of scalars (mixed bool/int/float/None/str), key-preservation lemmas for '
                  'annotate / key_by / drop / explode / order_by.  Full soundness of impute_type on nested values is REFUTED in Lean on two '
                  'witnesses (struct-field union, clash-hole refilled by a sibling) that the check replays on the real function.  Tied '
                  'to the code on every run: for each generated hl.* program dtype == IR type (deep_typecheck) == model inferType on the '
                  'rendered IR; impute_type == model on generated Python values; Table row/key/globals types == TableIR type == model.')
    level_note = ('"The type implied by the IR" is the model\'s rule set (written from ir.py; the engine\'s InferType cannot be run).  The '
                  'correspondence covers the API surface of `rule` only; MatrixTable is not covered; Apply nodes are checked for the '
                  'functions toInt32/toInt64/toFloat32/toFloat64/indexArray/index/land/lor only; literals are opaque constants of their '
                  'declared type (their encoding is C33).')
    budget = {'quick': 4000, 'thorough': 60000}
    search_budget = {'quick': 4000, 'thorough': 60000}
    rule = ('case kinds: expr (45%) = random program over hl.int32/int64/float32/float64/literal/missing, + - * / //, unary -, ~, '
'comparisons, & |, if_else (also over arrays / structs of different numeric types), case, switch, coalesce, or_else, or_missing, '
            'is_defined, bind, array/set/dict/tuple/struct construction, indexing, len, map/filter/fold/scan (incl. folds and scans whose '
            'function widens the zero), field access, annotate, the collection methods with arguments of coercible-but-different numeric '
            'types (array append / extend / contains, set add / remove / contains / union / intersection / difference / is_subset, dict get '
            '(key, default) / contains / [key] / keys / values / key_set), every Apply of those families checked against the transcribed '
            'engine registry signatures (type variables unified over arguments and return type) — every node of the emitted IR is rendered with the type the front end '
            'attached to it (every Ref with the type it was built with) and the model / the twin rules re-derive all of them; impute (35%) = random nested Python value (None, bool, int incl. 32/64-bit boundaries, float, str, list, '
            'tuple, frozenset, dict, hl.Struct; homogeneous and heterogeneous); table (20%) = 1-6 Table API calls (annotate, '
'annotate_globals, select, drop, key_by, filter, order_by, rename, explode) from range_table; tunion (10%) = t0.union(t1, … '
            'unify=False/True) of 2-4 such pipelines (fields present / absent / of different numeric types / reordered / key field moved '
            'inside the row / clashing / keys differing), checked against the TableUnion rule that all children carry the result\'s row '
'type and key; tjoin (4%) = l.join(r), most with deliberate name clashes between the two tables (row/row, global/global, global/row, key names) and globals on both sides; ndmatmul (2%) = a @ b on ndarrays of 1-4 dimensions (numeric element types): the rank the front end attaches to NDArrayMatMul against TNDArray.matMulNDims; index (5%) = keyed lookups right[exprs] / right.index(exprs, all_matches=False|True) used in an annotation of a Table (by its key, by a non-key field, by an expression) or of the rows / cols of a MatrixTable, the right table keyed by a point, by an INTERVAL, or unsuitably (str key, no key), the value used as it is or under hl.len — checked against the engine rule for the emitted TableLeftJoinRightDistinct / TableIntervalJoin(product) / MatrixAnnotateRowsTable(product) / MatrixAnnotateColsTable node (root : right value struct, array of it when product); matrix (11%) = MatrixTable pipelines from range_matrix_table (annotate / select '
            'rows / cols / entries / globals, drop, key_cols_by incl. the empty key, key_rows_by, filter_*, union_cols) seen as a matrix '
            'table or through rows() / cols() / entries(), the IR-implied type being the engine\'s typing rules of the Matrix* nodes.  non-trivial = the front end '
            'accepted the program / produced a type; distinct by full case')
    trusted = ['harness/hailenv.py StubBackend (no engine); decorator / deprecated / parsimonious shims on the import path of `hail`; '
               'pandas is an inert stub (pd.isna is only reached for values impute_type does not know)',
               'Model/ExprIRRead.lean (reader of the rendered IR; EncodedLiteral = opaque constant of its declared type; land/lor = If)',
               'the Python twin of the typing rules in harness/props/c36.py (oracle side)']
    assumptions = ['numeric payloads of floats are not modelled (type soundness does not depend on them)',
                   'MatrixTable, joins, aggregations over tables, randomness, Locus/Interval/Call/ndarray values are outside the check',
                   'struct types unified by impute_type are compared modulo field order (the order comes from iterating a Python set)']

    # ---- set-up ---------------------------------------------------------------------------------------------------
    def setup(self, repo):
        ensure_reader_built()
        self.hl = hailenv.init(repo)
        import hail.expr.expressions.base_expression as be
        self.be = be
        self.cache = {}
        self.stats = {'programs': 0, 'known': {}}

    # ---- building expression programs through the real API -----------------------------------------------------------
    def htype(self, t):
        hl = self.hl
        if isinstance(t, str):
            return {'i32': hl.tint32, 'i64': hl.tint64, 'f32': hl.tfloat32, 'f64': hl.tfloat64, 'bool': hl.tbool, 'str': hl.tstr}[t]
        if t[0] == 'arr':
            return hl.tarray(self.htype(t[1]))
        raise ValueError(t)

    def build_expr(self, p, env):
        hl = self.hl
        k = p[0]
        b = lambda q: self.build_expr(q, env)
        if k == 'i32':
            return hl.int32(p[1])
        if k == 'i64':
            return hl.int64(p[1])
        if k == 'f32':
            return hl.float32(float(p[1]))
        if k == 'f64':
            return hl.float64(float(p[1]))
        if k == 'pyint':
            return int(p[1])
        if k == 'pyfloat':
            return float(p[1])
        if k == 'bool':
            return hl.literal(bool(p[1]))
        if k == 'str':
            return hl.str(p[1])
        if k == 'lit':
            return hl.literal(py_of_json(p[1], hl))
        if k == 'missing':
            return hl.missing(self.htype(p[1]))
        if k == 'var':
            return env[p[1]]
        if k in ('add', 'sub', 'mul', 'div', 'floordiv'):
            a, c = b(p[1]), b(p[2])
            if not isinstance(a, hl.expr.Expression) and not isinstance(c, hl.expr.Expression):
                a = hl.literal(a)
            return {'add': lambda: a + c, 'sub': lambda: a - c, 'mul': lambda: a * c, 'div': lambda: a / c, 'floordiv': lambda: a // c}[k]()
        if k == 'neg':
            a = b(p[1])
            return -(a if isinstance(a, hl.expr.Expression) else hl.literal(a))
        if k == 'not':
            return ~b(p[1])
        if k == 'cmp':
            a, c = b(p[2]), b(p[3])
            if not isinstance(a, hl.expr.Expression):
                a = hl.literal(a)
            return {'<': lambda: a < c, '<=': lambda: a <= c, '>': lambda: a > c, '>=': lambda: a >= c, '==': lambda: a == c,
                    '!=': lambda: a != c}[p[1]]()
        if k == 'and':
            return b(p[1]) & b(p[2])
        if k == 'or':
            return b(p[1]) | b(p[2])
        if k == 'if':
            return hl.if_else(b(p[1]), b(p[2]), b(p[3]))
        if k == 'isdef':
            a = b(p[1])
            return hl.is_defined(a if isinstance(a, hl.expr.Expression) else hl.literal(a))
        if k == 'cast':
            f = {'i32': hl.int32, 'i64': hl.int64, 'f32': hl.float32, 'f64': hl.float64}[p[1]]
            return f(b(p[2]))
        if k == 'array':
            return hl.array([b(x) for x in p[1]])
        if k == 'index':
            return b(p[1])[b(p[2])]
        if k == 'len':
            return hl.len(b(p[1]))
        if k == 'map':
            return b(p[1]).map(lambda x: self._as_expr(self.build_expr(p[2], env + [x])))
        if k == 'filter':
            return b(p[1]).filter(lambda x: self.build_expr(p[2], env + [x]))
        if k == 'fold':
            return hl.fold(lambda acc, x: self._as_expr(self.build_expr(p[3], env + [acc, x])), b(p[2]), b(p[1]))
        if k == 'scan':
            return b(p[1]).scan(lambda acc, x: self._as_expr(self.build_expr(p[3], env + [acc, x])), b(p[2]))
        if k == 'coalesce':
            return hl.coalesce(*[b(x) for x in p[1]])
        if k == 'or_else':
            return hl.or_else(b(p[1]), b(p[2]))
        if k == 'or_missing':
            return hl.or_missing(b(p[1]), b(p[2]))
        if k == 'case':
            cb = hl.case()
            for c0, v0 in p[1]:
                cb = cb.when(b(c0), b(v0))
            return cb.or_missing() if p[2] is None else cb.default(b(p[2]))
        if k == 'switch':
            sb = hl.switch(self._as_expr(b(p[1])))
            for c0, v0 in p[2]:
                sb = sb.when(b(c0), b(v0))
            return sb.or_missing() if p[3] is None else sb.default(b(p[3]))
        if k == 'let':
            return hl.bind(lambda x: self._as_expr(self.build_expr(p[2], env + [x])), self._as_expr(b(p[1])))
        if k == 'struct':
            return hl.struct(**{n: b(x) for n, x in p[1]})
        if k == 'field':
            return b(p[1])[p[2]]
        if k == 'annotate':
            return b(p[1]).annotate(**{n: b(x) for n, x in p[2]})
        if k == 'tuple':
            return hl.tuple([b(x) for x in p[1]])
        if k == 'tidx':
            return b(p[1])[p[2]]
        if k == 'set':
            return hl.set([self._as_expr(b(x)) for x in p[1]])
        if k == 'todict':
            return hl.dict(b(p[1]))
        if k == 'dindex':
            return b(p[1])[b(p[2])]
        if k == 'method':
            return getattr(self._as_expr(b(p[2])), p[1])(*[b(a) for a in p[3]])
        if k == 'arith':
            # Python's operator dispatch, so that the reflected methods (__radd__, __rpow__, …) run when the LEFT operand is a Python number
            import operator
            f = {'+': operator.add, '-': operator.sub, '*': operator.mul, '/': operator.truediv, '//': operator.floordiv, '%': operator.mod,
                 '**': operator.pow}[p[1]]
            x, y = b(p[2]), b(p[3])
            if not isinstance(x, hl.expr.Expression) and not isinstance(y, hl.expr.Expression):
                x = self._as_expr(x)
            return f(x, y)
        if k == 'pybool':
            return bool(p[1])
        raise ValueError(k)

    def render_typed(self, x):
        """the PlainRenderer text of the IR, every value-IR node wrapped in `(Typed T …)` where T is the type the FRONT END attached to
        that node object (`_type` set by construct_expr / assign_type; for a Ref the type it was constructed with)"""
        from hail import ir
        from hail.ir.renderer import PlainRenderer
        r = PlainRenderer()

        def go(n):
            txt = n.render_head(r) + ''.join(' ' + go(c) for c in n.render_children(r)) + n.render_tail(r)
            if isinstance(n, ir.IR):
                t = n._typ if isinstance(n, ir.Ref) else n._type
                if t is not None:
                    return f'(Typed {t._parsable_string()} {txt})'
            return txt
        return ' '.join(go(x).split())

    def _as_expr(self, x):
        return x if isinstance(x, self.hl.expr.Expression) else self.hl.literal(x)

    def run_expr(self, c):
        """-> ('ok', dtype text, ir type text, rendered) | ('rejected', why) | ('assert', why)"""
        key = json.dumps(c, sort_keys=True)
        r = self.cache.get(key)
        if r is not None:
            return r
        try:
            e = self._as_expr(self.build_expr(c['prog'], []))
            dt = e.dtype._parsable_string()
            rendered = self.render_typed(e._ir)      # before the deep typecheck below fills in missing `_type`s
        except AssertionError as ex:
            r = ('assert', f'AssertionError {str(ex)[:200]}')
        except Exception as ex:
            r = ('rejected', f'{type(ex).__name__}')
        else:
            try:
                e._ir.compute_type({}, None, deep_typecheck=True)
                it = e._ir.typ._parsable_string()
            except AssertionError as ex:
                it = f'deep-typecheck-assertion {str(ex)[:120]}'
            r = ('ok', dt, it, rendered)
        if len(self.cache) > 5000:
            self.cache.clear()
        self.cache[key] = r
        return r

    # ---- impute ----------------------------------------------------------------------------------------------------
    def run_impute(self, c):
        hl = self.hl
        v = py_of_json(c['value'], hl)
        try:
            t = hl.expr.impute_type(v)
        except Exception as ex:
            return None, type(ex).__name__
        return t, None

    # ---- tables ----------------------------------------------------------------------------------------------------
    def field_expr(self, ht, ty, src):
        """an expression of the wanted type over the row field `src` (an int32 field) of table ht"""
        hl = self.hl
        x = ht[src]
        if ty == 'i32':
            return x * 2 + 1
        if ty == 'i64':
            return hl.int64(x)
        if ty == 'f64':
            return hl.float64(x) / 2
        if ty == 'bool':
            return x > 3
        if ty == 'str':
            return hl.str(x)
        if ty == 'arr':
            return hl.array([x, 1])
        if ty == 'set':
            return hl.set([x])
        if ty == 'st':
            return hl.struct(u=x, v=hl.float64(x))
        if ty == 'iv':
            return hl.interval(x, x + 3)
        raise ValueError(ty)

    def run_pipeline(self, ops, texts):
        """apply the ops to range_table(10); the op texts for the model are appended to `texts` as the calls are made"""
        hl = self.hl
        ht = hl.utils.range_table(10)
        texts.append('range')
        if True:
            for op in ops:
                k = op[0]
                if k in ('annotate', 'annotate_globals'):
                    named = {}
                    for n, ty, src in op[1]:
                        named[n] = self.field_expr(ht, ty, src) if k == 'annotate' else self._global_expr(ty)
                    texts.append(f'{k} ' + '&'.join(f'{n}={e.dtype._parsable_string()}' for n, e in named.items()))
                    ht = ht.annotate(**named) if k == 'annotate' else ht.annotate_globals(**named)
                elif k == 'select':
                    named = {n: self.field_expr(ht, ty, src) for n, ty, src in op[2]}
                    texts.append('select ' + ','.join(op[1]) + '|' + '&'.join(f'{n}={e.dtype._parsable_string()}' for n, e in named.items()))
                    ht = ht.select(*op[1], **named)
                elif k == 'drop':
                    texts.append('drop ' + ','.join(op[1]))
                    ht = ht.drop(*op[1])
                elif k == 'key_by':
                    texts.append(('key_by ' + ','.join(op[1])).strip())
                    ht = ht.key_by(*op[1])
                elif k == 'filter':
                    texts.append('filter')
                    ht = ht.filter(ht[op[1]] > 2)
                elif k == 'order_by':
                    texts.append('order_by')
                    ht = ht.order_by(op[1])
                elif k == 'rename':
                    texts.append('rename ' + ','.join(f'{a}={b}' for a, b in op[1]))
                    ht = ht.rename(dict(op[1]))
                elif k == 'explode':
                    texts.append('explode ' + op[1])
                    ht = ht.explode(op[1])
                else:
                    raise ValueError(k)
        return ht

    @staticmethod
    def tt_line(g, r, k):
        return f'g={g._parsable_string()} r={r._parsable_string()} k=' + ','.join(k)

    def lookup_rule_violation(self, root_ir):
        """the engine's rule for the nodes a keyed lookup emits — TableLeftJoinRightDistinct: root : right.valueType;
        TableIntervalJoin(product) / MatrixAnnotateRowsTable(product): array<right.valueType> when product; MatrixAnnotateColsTable:
        right.valueType — against the type the front end attached to every projection of that root field.  -> text | None"""
        from hail import ir
        hl = self.hl
        nodes = root_ir.base_search(lambda x: isinstance(x, (ir.TableLeftJoinRightDistinct, ir.TableIntervalJoin,
                                                             ir.MatrixAnnotateRowsTable, ir.MatrixAnnotateColsTable)))
        for j in nodes:
            right = j.right if hasattr(j, 'right') else j.table
            implied = right.typ.value_type
            if isinstance(j, (ir.TableIntervalJoin, ir.MatrixAnnotateRowsTable)) and j.product:
                implied = hl.tarray(implied)
            for g in root_ir.base_search(lambda x: isinstance(x, ir.ProjectedTopLevelReference) and x.field == j.root):
                if g._typ != implied:
                    return (f'{type(j).__name__} {j.head_str()} inserts {j.root} : {implied} but the front end attached {g._typ} to '
                            f'(GetField {j.root} …)')
        return None

    def ir_line(self, tir, deep=True):
        """the table type the emitted TableIR implies: its own deep typecheck, plus the engine's rule for TableUnion (TypeCheck.scala:
        every child has the row type and the key of child 0), which the Python `_compute_type` does not look at"""
        from hail import ir
        if self.lookup_rule_violation(tir):
            return 'ill-typed'
        try:
            # deep=False: a lookup through a NON-key expression re-keys the left table and uses the very same (Ref row) node object
            # inside and outside the join, in scopes with different row types; Python's deep typecheck caches one type per node OBJECT
            # and asserts on the second visit — an artefact of object sharing (the engine parses the text), so those programs are
            # judged by the transcribed rules for the join nodes (lookup_rule_violation) and the node types the IR computes bottom-up
            tir.compute_type(deep_typecheck=deep)
        except AssertionError as ex:
            return f'deep-typecheck-assertion {str(ex)[:120]}'
        for u in tir.base_search(lambda x: isinstance(x, ir.TableUnion)):
            c0 = u.children[0].typ
            if any(c.typ.row_type != c0.row_type or list(c.typ.row_key) != list(c0.row_key) for c in u.children[1:]):
                return 'ill-typed'
        # the engine's rule for TableJoin (TableIR.scala: left.globalType ++ right.globalType, leftKey ++ leftValue ++ rightValue; TStruct.++
        # is fatal on a duplicate field name) — the Python `_compute_type` merges equal names silently with a dict update
        for j in tir.base_search(lambda x: isinstance(x, ir.TableJoin)):
            lt, rt = j.left.typ, j.right.typ
            if set(lt.global_type) & set(rt.global_type):
                return 'ill-typed'
            rkey = list(rt.row_key)[:j.join_key]
            if set(lt.row_type) & {f for f in rt.row_type if f not in rkey}:
                return 'ill-typed'
        tt = tir.typ
        return self.tt_line(tt.global_type, tt.row_type, tt.row_key)

    def run_table(self, c):
        """-> ('ok', front-end line, ir line, op texts for the model, extra) | ('rejected', why, op texts) | ('assert', why, op texts)"""
        texts = []
        try:
            ht = self.run_pipeline(c['ops'], texts)
        except AssertionError as ex:
            return ('assert', f'AssertionError {str(ex)[:200]}', texts)
        except Exception as ex:
            return ('rejected', type(ex).__name__, texts)
        fe = self.tt_line(ht.globals.dtype, ht.row.dtype, list(ht.key))
        it = self.ir_line(ht._tir)
        extra = None
        # the key struct and every field expression carry the row type's field types
        want_key = 'Struct{' + ','.join(f'{k}:{ht.row.dtype[k]._parsable_string()}' for k in ht.key) + '}'
        if ht.key.dtype._parsable_string() != want_key:
            extra = f'table.key has type {ht.key.dtype} but the key fields of the row are {want_key}'
        for f in ht.row.dtype:
            if ht[f].dtype != ht.row.dtype[f]:
                extra = f'table[{f!r}].dtype = {ht[f].dtype} but the row type says {ht.row.dtype[f]}'
        return ('ok', fe, it, texts, extra)

    def m_expr(self, mt, axis, ty, src):
        hl = self.hl
        if axis == 'globals':
            return self._global_expr(ty)
        x = (mt[src[0]] + mt[src[1]]) if axis == 'entries' else mt[src]
        if ty == 'i32':
            return x * 2 + 1
        if ty == 'i64':
            return hl.int64(x)
        if ty == 'f64':
            return hl.float64(x) / 2
        if ty == 'bool':
            return x > 3
        if ty == 'str':
            return hl.str(x)
        if ty == 'arr':
            return hl.array([x, 1])
        if ty == 'st':
            return hl.struct(u=x, v=hl.float64(x))
        raise ValueError(ty)

    def run_mpipeline(self, mt, ops, texts):
        for op in ops:
            k = op[0]
            if k == 'annotate':
                ax = op[1]
                named = {n: self.m_expr(mt, ax, ty, src) for n, ty, src in op[2]}
                texts.append(f'annotate {ax} ' + '&'.join(f'{n}={e.dtype._parsable_string()}' for n, e in named.items()))
                mt = getattr(mt, 'annotate_' + ax)(**named)
            elif k == 'select':
                ax = op[1]
                named = {n: self.m_expr(mt, ax, ty, src) for n, ty, src in op[3]}
                texts.append(f'select {ax} ' + ','.join(op[2]) + '|' + '&'.join(f'{n}={e.dtype._parsable_string()}' for n, e in named.items()))
                mt = getattr(mt, 'select_' + ax)(*op[2], **named)
            elif k == 'drop':
                texts.append('drop ' + ','.join(op[1]))
                mt = mt.drop(*op[1])
            elif k == 'key_cols_by':
                texts.append(('key_cols_by ' + ','.join(op[1])).strip())
                mt = mt.key_cols_by(*op[1])
            elif k == 'key_rows_by':
                texts.append(('key_rows_by ' + ','.join(op[1])).strip())
                mt = mt.key_rows_by(*op[1])
            elif k == 'filter':
                texts.append('filter ' + op[1])
                src = op[2]
                x = (mt[src[0]] + mt[src[1]]) if op[1] == 'entries' else mt[src]
                mt = getattr(mt, 'filter_' + op[1])(x > 1)
            else:
                raise ValueError(k)
        return mt

    def implied_mtype(self, mir):
        """the matrix type the ENGINE's typing rules (MatrixIR.scala / MatrixType.scala, transcribed) give the emitted MatrixIR: a dict
        of hail struct types and key lists.  Value-IR types (new row / col / entry / global structs) are taken from the IR."""
        from hail.ir import matrix_ir as M
        hl = self.hl
        if isinstance(mir, M.MatrixRead):
            t = mir.typ
            return dict(g=t.global_type, c=t.col_type, ck=list(t.col_key), r=t.row_type, rk=list(t.row_key), e=t.entry_type)
        if isinstance(mir, M.MatrixMapRows):
            return dict(self.implied_mtype(mir.child), r=mir.new_row.typ)
        if isinstance(mir, M.MatrixMapCols):
            ch = self.implied_mtype(mir.child)
            return dict(ch, c=mir.new_col.typ, ck=list(mir.new_key) if mir.new_key is not None else ch['ck'])   # newKey.getOrElse(…)
        if isinstance(mir, M.MatrixMapEntries):
            return dict(self.implied_mtype(mir.child), e=mir.new_entry.typ)
        if isinstance(mir, M.MatrixMapGlobals):
            return dict(self.implied_mtype(mir.child), g=mir.new_global.typ)
        if isinstance(mir, M.MatrixKeyRowsBy):
            return dict(self.implied_mtype(mir.child), rk=list(mir.keys))
        if isinstance(mir, (M.MatrixFilterRows, M.MatrixFilterCols, M.MatrixFilterEntries)):
            return self.implied_mtype(mir.child)
        if isinstance(mir, M.MatrixAnnotateRowsTable):
            ch = self.implied_mtype(mir.child)
            v = mir.table.typ.value_type
            return dict(ch, r=hl.tstruct(**{**dict(ch['r'].items()), mir.root: hl.tarray(v) if mir.product else v}))
        if isinstance(mir, M.MatrixAnnotateColsTable):
            ch = self.implied_mtype(mir.child)
            return dict(ch, c=hl.tstruct(**{**dict(ch['c'].items()), mir.root: mir.table.typ.value_type}))
        if isinstance(mir, M.MatrixRename):
            # MatrixRename.typ (MatrixIR.scala): every struct renamed field by field, keys renamed with the col / row maps
            ch = self.implied_mtype(mir.child)
            ren = lambda t, m: hl.tstruct(**{m.get(n, n): ft for n, ft in t.items()})
            out = dict(g=ren(ch['g'], mir.global_map), c=ren(ch['c'], mir.col_map), ck=[mir.col_map.get(k, k) for k in ch['ck']],
                       r=ren(ch['r'], mir.row_map), rk=[mir.row_map.get(k, k) for k in ch['rk']], e=ren(ch['e'], mir.entry_map))
            if any(len(out[a]) != len(ch[a]) for a in 'gcre'):
                raise IllTypedIR('MatrixRename: two fields renamed to one name')
            return out
        if isinstance(mir, M.MatrixUnionCols):
            l, r = self.implied_mtype(mir.left), self.implied_mtype(mir.right)
            lk = [(k, l['r'][k]) for k in l['rk']]
            lv = [(n, t) for n, t in l['r'].items() if n not in l['rk']]
            rv = [(n, t) for n, t in r['r'].items() if n not in r['rk']]
            dup = sorted({n for n, _ in lk + lv} & {n for n, _ in rv})
            if dup:      # the engine's struct concatenation is fatal on a duplicate field name
                raise IllTypedIR(f'MatrixUnionCols: right row value fields {dup} are also row fields of the left child')
            return dict(l, r=hl.tstruct(**dict(lk + lv + rv)))
        raise KeyError(f'matrix node {type(mir).__name__} is outside the transcribed rules')

    def m_lines(self, view, mt_or_table):
        """(front-end line, IR-implied line)"""
        from hail.ir import table_ir as TI
        x = mt_or_table
        if view == 'matrix':
            fe = (f'g={x.globals.dtype._parsable_string()} c={x.col.dtype._parsable_string()} ck={",".join(x.col_key)} '
                  f'r={x.row.dtype._parsable_string()} rk={",".join(x.row_key)} e={x.entry.dtype._parsable_string()}')
            try:
                if self.lookup_rule_violation(x._mir):
                    raise IllTypedIR('lookup')
                x._mir.compute_type(deep_typecheck=True)
                t = self.implied_mtype(x._mir)
                it = (f'g={t["g"]._parsable_string()} c={t["c"]._parsable_string()} ck={",".join(t["ck"])} '
                      f'r={t["r"]._parsable_string()} rk={",".join(t["rk"])} e={t["e"]._parsable_string()}')
            except AssertionError as ex:
                it = f'deep-typecheck-assertion {str(ex)[:120]}'
            except IllTypedIR:
                it = 'ill-typed'
            return fe, it
        fe = self.tt_line(x.globals.dtype, x.row.dtype, list(x.key))
        try:
            if self.lookup_rule_violation(x._tir):
                raise IllTypedIR('lookup')
            x._tir.compute_type(deep_typecheck=True)
            t = self.implied_mtype(x._tir.child)
            if isinstance(x._tir, TI.MatrixRowsTable):
                it = self.tt_line(t['g'], t['r'], t['rk'])
            elif isinstance(x._tir, TI.MatrixColsTable):
                it = self.tt_line(t['g'], t['c'], t['ck'])
            else:
                it = self.tt_line(t['g'], self.hl.tstruct(**{**dict(t['r'].items()), **dict(t['c'].items()), **dict(t['e'].items())}),
                                  t['rk'] + t['ck'])
        except AssertionError as ex:
            it = f'deep-typecheck-assertion {str(ex)[:120]}'
        except IllTypedIR:
            it = 'ill-typed'
        return fe, it

    def run_matrix(self, c):
        """-> ('ok', fe, it, (left texts, right texts | None, post texts)) | ('rejected', why, texts) | ('assert', why, texts)"""
        hl = self.hl
        lt, rt, pt = ['range'], (['range'] if c.get('right') is not None else None), []
        try:
            mt = self.run_mpipeline(hl.utils.range_matrix_table(3, 4), c['ops'], lt)
            if c.get('right') is not None:
                other = self.run_mpipeline(hl.utils.range_matrix_table(3, 2), c['right'], rt)
                dr = bool(c.get('drop_right', True))
                if dr:
                    rt.append('select rows |')       # union_cols(drop_right_row_fields=True) first does other.select_rows()
                mt = mt.union_cols(other, row_join_type=c.get('join', 'inner'), drop_right_row_fields=dr)
                mt = self.run_mpipeline(mt, c.get('post', []), pt)
            x = mt if c['view'] == 'matrix' else getattr(mt, c['view'])()
        except AssertionError as ex:
            return ('assert', f'AssertionError {str(ex)[:200]}', (lt, rt, pt))
        except Exception as ex:
            return ('rejected', type(ex).__name__, (lt, rt, pt))
        fe, it = self.m_lines(c['view'], x)
        return ('ok', fe, it, (lt, rt, pt))

    def run_matmul(self, c):
        """a @ b on ndarrays of ranks c['l'], c['r'] -> ('ok', reported dtype text, [(left rank, right rank, rank the front end attached to
        the NDArrayMatMul node, rank by the engine's rule)]) | ('rejected', why)"""
        hl = self.hl
        from hail import ir
        t = {'f64': hl.tfloat64, 'i32': hl.tint32, 'i64': hl.tint64}[c['t']]
        try:
            a = hl.nd.zeros(tuple([2] * c['l']), dtype=t)
            b = hl.nd.zeros(tuple([2] * c['r']), dtype=t)
            e = a @ b
            if c.get('twice'):
                e = e @ hl.nd.zeros(tuple([2] * c['r']), dtype=t) if e.dtype != t and not isinstance(e.dtype, type(t)) else e
        except Exception as ex:
            return ('rejected', type(ex).__name__)
        nodes = e._ir.search(lambda n: isinstance(n, ir.NDArrayMatMul))
        out = []
        for n in nodes:
            lr, rr = n.children[0].typ.ndim, n.children[1].typ.ndim
            # TNDArray.matMulNDims (the engine's InferType rule for NDArrayMatMul), transcribed
            implied = 0 if (lr, rr) == (1, 1) else rr - 1 if lr == 1 else lr - 1 if rr == 1 else lr
            out.append((lr, rr, n.typ.ndim, implied))
        return ('ok', e.dtype._parsable_string(), out)

    def run_index(self, c):
        """left.annotate(m = use(right.index(exprs, all_matches))) / mt.annotate_rows|cols(…) ->
        ('ok', fe, it, (lt, rt, expr type texts), why-ill-typed | None) | ('rejected', why, (lt, rt, ets)) | ('assert', why, (lt, rt, ets))"""
        hl = self.hl
        lt, rt, ets = [], [], []
        try:
            right = self.run_pipeline(c['right'], rt)
            if c['src'] == 'table':
                left = self.run_pipeline(c['left'], lt)
            else:
                lt.append('range')
                left = self.run_mpipeline(hl.utils.range_matrix_table(3, 4), c['left'], lt)
        except AssertionError as ex:
            return ('assert', f'AssertionError {str(ex)[:200]}', (lt, rt, ets))
        except Exception as ex:
            return ('rejected', 'pipeline:' + type(ex).__name__, (lt, rt, ets))
        try:
            by = c['by']
            if c['src'] == 'table':
                exprs = list(left.key.values()) if by == 'key' else [left[by[1]]] if by[0] == 'field' else [left[by[1]] + 1]
            else:
                exprs = list((left.row_key if c['src'] == 'rows' else left.col_key).values())
            ets += [e.dtype._parsable_string() for e in exprs]
            if not exprs:
                return ('rejected', 'no-key', (lt, rt, ets))
            e = right.index(*exprs, all_matches=bool(c['am'])) if (c['am'] or c.get('explicit')) else right[tuple(exprs) if len(exprs) > 1 else exprs[0]]
            if c['len']:
                e = hl.len(e)
            if c['src'] == 'table':
                res = left.annotate(m=e)
            else:
                res = left.annotate_rows(m=e) if c['src'] == 'rows' else left.annotate_cols(m=e)
                if c['view'] != 'matrix':
                    res = getattr(res, c['view'])()
        except AssertionError as ex:
            return ('assert', f'AssertionError {str(ex)[:200]}', (lt, rt, ets))
        except Exception as ex:
            return ('rejected', type(ex).__name__, (lt, rt, ets))
        base = res._tir if hasattr(res, '_tir') else res._mir
        why = self.lookup_rule_violation(base)
        if c['src'] == 'table':
            fe, it = self.tt_line(res.globals.dtype, res.row.dtype, list(res.key)), self.ir_line(res._tir, deep=(c['by'] == 'key'))
        else:
            fe, it = self.m_lines(c['view'], res)
        return ('ok', fe, it, (lt, rt, ets), why)

    def index_tail(self, c, texts):
        lt, rt, ets = texts
        head = f'{int(c["am"])} ||| {int(c["len"])} ||| {"&".join(ets)} ||| m'
        if c['src'] == 'table':
            return 'tindex', f' ||| {head} ||| ' + ' ; '.join(lt) + ' ||| ' + ' ; '.join(rt)
        return 'mindex', f' ||| {c["src"]} ||| {head} ||| {c["view"]} ||| ' + ' ; '.join(lt) + ' ||| ' + ' ; '.join(rt)

    def run_combo(self, c):
        """union / join of pipelines -> ('ok', front-end line, ir line, [branch texts], note) | ('rejected', why, texts) | ('assert', …)"""
        branches = c['tables'] if c['kind'] == 'tunion' else [c['left'], c['right']]
        texts = [[] for _ in branches]
        try:
            hts = [self.run_pipeline(ops, t) for ops, t in zip(branches, texts)]
        except AssertionError as ex:
            return ('assert', f'AssertionError {str(ex)[:200]}', texts)
        except Exception as ex:
            return ('rejected', 'pipeline:' + type(ex).__name__, texts)
        try:
            if c['kind'] == 'tunion':
                ht = hts[0].union(*hts[1:], unify=bool(c['unify']))
            else:
                ht = hts[0].join(hts[1])
        except AssertionError as ex:
            return ('assert', f'AssertionError {str(ex)[:200]}', texts)
        except Exception as ex:
            return ('rejected', type(ex).__name__, texts)
        fe = self.tt_line(ht.globals.dtype, ht.row.dtype, list(ht.key))
        it = self.ir_line(ht._tir)
        note = None
        if it == 'ill-typed' and c['kind'] == 'tjoin':
            from hail import ir
            j = ht._tir.base_search(lambda x: isinstance(x, ir.TableJoin))[0]
            note = ('join', [str(j.left.typ.global_type), str(j.right.typ.global_type), str(j.left.typ.row_type), str(j.right.typ.row_type)])
        elif it == 'ill-typed':
            from hail import ir
            u = ht._tir.base_search(lambda x: isinstance(x, ir.TableUnion))[0]
            rows = [str(ch.typ.row_type) for ch in u.children]
            same_values = len({str(ch.typ.value_type) for ch in u.children}) == 1 and len({str(ch.typ.key_type) for ch in u.children}) == 1
            note = ('key-position' if same_values else 'other', rows)
        return ('ok', fe, it, texts, note)

    def _global_expr(self, ty):
        hl = self.hl
        return {'i32': lambda: hl.int32(5), 'i64': lambda: hl.int64(5), 'f64': lambda: hl.float64(2), 'bool': lambda: hl.literal(True),
                'str': lambda: hl.str('g'), 'arr': lambda: hl.array([hl.int32(1)]), 'set': lambda: hl.set([hl.int32(1)]),
                'st': lambda: hl.struct(u=hl.int32(1), v=hl.float64(1))}[ty]()

    # ---- cases ----------------------------------------------------------------------------------------------------
    def gen_table(self, rng, prefix='f', kinds=None):
        row = {'idx': 'i32'}           # name -> generator type
        glob = {}
        key = ['idx']
        ops = []
        fresh = iter(f'{prefix}{i}' for i in range(100))
        for _ in range(rng.choice([1, 2, 3, 4, 5, 6])):
            ints = [n for n, t in row.items() if t == 'i32']
            if not ints:
                break
            nonkey = [n for n in row if n not in key]
            k = rng.choice(kinds or ['annotate', 'annotate', 'annotate', 'select', 'drop', 'key_by', 'key_by', 'filter', 'order_by', 'rename',
                                     'explode', 'annotate_globals'])
            if k == 'annotate':
                named = []
                for _ in range(rng.choice([1, 2, 3])):
                    n = rng.choice(nonkey) if nonkey and rng.random() < 0.25 else next(fresh)
                    if n in [x[0] for x in named]:
                        continue
                    named.append([n, rng.choice(FIELD_TYPES), rng.choice(ints)])
                ops.append(['annotate', named])
                for n, ty, _ in named:
                    row[n] = ty
            elif k == 'annotate_globals':
                named = [[next(fresh), rng.choice(FIELD_TYPES), None]]
                ops.append(['annotate_globals', named])
                glob[named[0][0]] = named[0][1]
            elif k == 'select':
                keep = rng.sample(nonkey, rng.randint(0, len(nonkey))) if nonkey else []
                named = [[next(fresh), rng.choice(FIELD_TYPES), rng.choice(ints)]] if rng.random() < 0.5 else []
                ops.append(['select', keep, named])
                row = {**{n: row[n] for n in key}, **{n: row[n] for n in keep}, **{n: ty for n, ty, _ in named}}
            elif k == 'drop':
                cand = nonkey + list(glob)
                if not cand:
                    continue
                d = rng.sample(cand, rng.randint(1, min(2, len(cand))))
                ops.append(['drop', d])
                for n in d:
                    row.pop(n, None)
                    glob.pop(n, None)
            elif k == 'key_by':
                ks = rng.sample(list(row), rng.randint(0, min(2, len(row))))
                ops.append(['key_by', ks])
                key = ks
            elif k == 'filter':
                ops.append(['filter', rng.choice(ints)])
            elif k == 'order_by':
                ops.append(['order_by', rng.choice(ints)])
                key = []
            elif k == 'rename':
                n = rng.choice(list(row) + list(glob))
                m = next(fresh)
                ops.append(['rename', [[n, m]]])
                row = {(m if a == n else a): t for a, t in row.items()}
                glob = {(m if a == n else a): t for a, t in glob.items()}
                key = [m if a == n else a for a in key]
            elif k == 'explode':
                cand = [n for n in nonkey if row[n] in ('arr', 'set')]
                if not cand:
                    continue
                n = rng.choice(cand)
                ops.append(['explode', n])
                row[n] = 'i32'
        return {'kind': 'table', 'ops': ops}

    def gen_mpipe(self, rng, prefix, n_ops, right=False):
        st = {'globals': {}, 'cols': {'col_idx': 'i32'}, 'rows': {'row_idx': 'i32'}, 'entries': {}, 'ck': ['col_idx'], 'rk': ['row_idx']}
        ops = []
        fresh = iter(f'{prefix}{i}' for i in range(100))
        for _ in range(n_ops):
            ri = [n for n, t in st['rows'].items() if t == 'i32']
            ci = [n for n, t in st['cols'].items() if t == 'i32']
            kinds = ['annotate', 'annotate', 'annotate', 'select', 'drop', 'filter']
            if not right:
                kinds += ['key_cols_by', 'key_cols_by', 'key_rows_by']
            k = rng.choice(kinds)
            ax = rng.choice(['rows', 'cols', 'entries', 'globals'] if not right else ['rows', 'rows', 'globals'])
            src = {'rows': ri and rng.choice(ri), 'cols': ci and rng.choice(ci), 'entries': (ri and ci) and [rng.choice(ri), rng.choice(ci)],
                   'globals': 'g'}[ax]
            if k in ('annotate', 'select', 'filter') and not src:
                continue
            key = st['ck'] if ax == 'cols' else st['rk'] if ax == 'rows' else []
            nonkey = [n for n in st[ax] if n not in key]
            if k == 'annotate':
                named = []
                for _ in range(rng.choice([1, 2])):
                    n = rng.choice(nonkey) if nonkey and rng.random() < 0.2 else next(fresh)
                    if n not in [x[0] for x in named]:
                        named.append([n, rng.choice(['i32', 'i32', 'i64', 'f64', 'bool', 'str', 'arr', 'st']), src])
                ops.append(['annotate', ax, named])
                for n, ty, _ in named:
                    st[ax][n] = ty
            elif k == 'select' and ax != 'globals':
                keep = rng.sample(nonkey, rng.randint(0, len(nonkey))) if nonkey else []
                named = [[next(fresh), rng.choice(['i32', 'f64', 'str']), src]] if rng.random() < 0.4 else []
                ops.append(['select', ax, keep, named])
                st[ax] = {**{n: st[ax][n] for n in key}, **{n: st[ax][n] for n in keep}, **{n: ty for n, ty, _ in named}}
            elif k == 'drop':
                cand = [n for a in ('globals', 'cols', 'rows', 'entries') for n in st[a] if n not in st['ck'] and n not in st['rk']]
                if not cand:
                    continue
                d = rng.sample(cand, rng.randint(1, min(2, len(cand))))
                ops.append(['drop', d])
                for a in ('globals', 'cols', 'rows', 'entries'):
                    for n in d:
                        st[a].pop(n, None)
            elif k == 'filter' and ax != 'globals':
                ops.append(['filter', ax, src])
            elif k == 'key_cols_by':
                ks = [] if rng.random() < 0.45 or not st['cols'] else rng.sample(list(st['cols']), rng.randint(1, min(2, len(st['cols']))))
                ops.append(['key_cols_by', ks])
                st['ck'] = ks
            elif k == 'key_rows_by':
                ks = [] if rng.random() < 0.25 or not st['rows'] else rng.sample(list(st['rows']), rng.randint(1, min(2, len(st['rows']))))
                ops.append(['key_rows_by', ks])
                st['rk'] = ks
        return ops, st

    def gen_matrix(self, rng):
        ops, st = self.gen_mpipe(rng, 'f', rng.choice([1, 2, 3, 4, 5, 6]))
        c = {'kind': 'matrix', 'view': rng.choice(['matrix', 'matrix', 'rows', 'cols', 'cols', 'entries', 'entries']), 'ops': ops}
        if rng.random() < 0.25:
            # left.union_cols(right): make the left side compatible — no col / entry changes, one int32 row key
            lops = []
            ri = ['row_idx']
            named = [[f'f{i}', rng.choice(['i32', 'i32', 'f64', 'str']), 'row_idx'] for i in range(rng.choice([0, 1, 2]))]
            if named:
                lops.append(['annotate', 'rows', named])
                ri += [n for n, ty, _ in named if ty == 'i32']
            if rng.random() < 0.6:
                lops.append(['key_rows_by', [rng.choice(ri)]])
            if rng.random() < 0.5:
                lops.append(['annotate', 'globals', [[rng.choice(['g0', 'f0', 'q0']), rng.choice(['i32', 'str']), 'g']]])
            # right row fields: fresh names, or names of left row fields (value fields, the row key) / left globals — union_cols renames
            lnames = [n for n, _, _ in named] + ['g0']
            rnamed = []
            for i in range(rng.choice([0, 1, 2, 3])):
                n = rng.choice(lnames) if rng.random() < 0.5 else f'q{i}'
                if n not in [x[0] for x in rnamed]:
                    rnamed.append([n, rng.choice(['i32', 'f64', 'str']), 'row_idx'])
            rops = [['annotate', 'rows', rnamed]] if rnamed else []
            post = []
            if rng.random() < 0.5:
                post.append(['key_cols_by', [] if rng.random() < 0.6 else ['col_idx']])
            if rng.random() < 0.3:
                post.append(['annotate', 'rows', [['z0', 'i64', ri[0]]]])
            c.update(ops=lops, right=rops, post=post, join=rng.choice(['inner', 'outer']), drop_right=rng.random() < 0.35)
        return c

    def gen_union(self, rng):
        """2-4 tables for t0.union(t1, …): a shared plan of field names; per table each field is present or absent, numeric fields get
        a numeric type of their own (int32 / int64 / float64), the order is shuffled, the key field may sit anywhere in the row,
        occasionally a field clashes (str vs number) or the keys differ"""
        n = rng.choice([2, 2, 3, 3, 4])
        unify = rng.random() < 0.7
        plan = []
        for nm in rng.sample(['a', 'b', 'c', 'd', 'e'], rng.choice([1, 2, 3, 4])):
            plan.append((nm, rng.choice(['num', 'num', 'num', 'str', 'bool', 'arr', 'st'])))
        same = (not unify and rng.random() < 0.7) or rng.random() < 0.15
        keymode = rng.choice(['idx', 'idx', 'idx', 'none', 'field'])
        tables = []
        base = None
        for i in range(n):
            fields = []
            for nm, fam in plan:
                if not same and rng.random() < 0.3:
                    continue
                ty = rng.choice(['i32', 'i32', 'i64', 'f64']) if fam == 'num' else fam
                if fam != 'num' and not same and rng.random() < 0.04:
                    ty = 'i32' if fam != 'i32' else 'str'      # a clash the front end must refuse
                fields.append([nm, ty, 'idx'])
            if same:
                if base is None:
                    base = fields
                fields = [list(f) for f in base]
            elif unify:
                rng.shuffle(fields)
            ops = [['annotate', fields]] if fields else []
            if rng.random() < 0.25:
                # move the key field inside the row: unkey, reorder, key again
                order = [f[0] for f in fields] + ['idx']
                rng.shuffle(order)
                ops += [['key_by', []], ['select', order, []]]
                ops += [] if keymode == 'none' else [['key_by', ['idx']]]
            elif keymode == 'none':
                ops.append(['key_by', []])
            if keymode == 'field' and fields and rng.random() < 0.8:
                ops.append(['key_by', [fields[0][0]] + (['idx'] if rng.random() < 0.5 else [])])
            if rng.random() < 0.2:
                ops.append(['annotate_globals', [[f'g{i}', rng.choice(FIELD_TYPES), None]]])
            if rng.random() < 0.15:
                ops.append(['filter', 'idx'])
            tables.append(ops)
        return {'kind': 'tunion', 'unify': unify, 'tables': tables}

    def gen_join(self, rng):
        if rng.random() < 0.6:
            # the left table keyed by an int32 field that is NOT the leading field of its row (the joined row starts with the key)
            named = [['j0', 'i32', 'idx']] + [[f'j{i}', rng.choice(FIELD_TYPES), 'idx'] for i in range(1, rng.choice([1, 2, 3]))]
            rng.shuffle(named)
            left = [['annotate', named]]
            if rng.random() < 0.4:
                left.append(['annotate_globals', [['jg', rng.choice(FIELD_TYPES), None]]])
            left.append(['key_by', ['j0']])
            for _ in range(rng.choice([0, 0, 1, 2])):
                left.append(rng.choice([['filter', 'j0'], ['annotate', [[f'k{rng.randint(0, 3)}', rng.choice(FIELD_TYPES), 'j0']]],
                                        ['drop', ['idx']]]))
            if sum(1 for o in left if o == ['drop', ['idx']]) > 1:
                left = [o for o in left if o != ['drop', ['idx']]] + [['drop', ['idx']]]
            right = self.gen_join_right(rng, left)
            return {'kind': 'tjoin', 'left': left, 'right': right}
        left = self.gen_table(rng, 'f', ['annotate', 'annotate', 'annotate_globals', 'annotate_globals', 'key_by', 'filter', 'select', 'drop'])['ops']
        if rng.random() < 0.6:
            return {'kind': 'tjoin', 'left': left, 'right': self.gen_join_right(rng, left)}
        right = self.gen_table(rng, 'r', ['annotate', 'annotate', 'annotate_globals', 'filter', 'explode'])['ops']     # stays keyed by idx: no name collisions
        return {'kind': 'tjoin', 'left': left, 'right': right}

    def gen_index(self, rng):
        """a keyed lookup right[exprs] / right.index(exprs, all_matches=…) used in an annotation of a Table or of the rows / cols of a
        MatrixTable; the right table is keyed by a point (idx, another int32 field), by an INTERVAL, or unsuitably (str key, no key)"""
        src = rng.choice(['table', 'table', 'table', 'rows', 'rows', 'cols'])
        right = [['annotate', [[f'r{i}', rng.choice(FIELD_TYPES), 'idx'] for i in range(rng.choice([1, 2, 3]))]]]
        if rng.random() < 0.3:
            right.append(['annotate_globals', [['rg', rng.choice(FIELD_TYPES), None]]])
        rk = rng.choice(['interval', 'interval', 'interval', 'point', 'point', 'point2', 'str', 'none'])
        if rk == 'interval':
            right += [['annotate', [['iv', 'iv', 'idx']]], ['key_by', ['iv']]]
            if rng.random() < 0.5:
                right.append(['drop', ['idx']])
        elif rk == 'point2':
            right += [['annotate', [['rk0', 'i32', 'idx']]], ['key_by', ['rk0']]]
        elif rk == 'str':
            right += [['annotate', [['rk0', 'str', 'idx']]], ['key_by', ['rk0']]]
        elif rk == 'none':
            right.append(['key_by', []])
        if rng.random() < 0.3:
            right.append(['filter', 'r0'] if right[0][1][0][1] == 'i32' else ['annotate', [['r9', 'f64', 'r0' if right[0][1][0][1] == 'i32' else 'idx']]]
                         if rk != 'interval' or ['drop', ['idx']] not in right else ['annotate_globals', [['rg2', 'i32', None]]])
        am = rng.random() < 0.5
        c = {'kind': 'index', 'src': src, 'right': right, 'am': am, 'len': am and rng.random() < 0.3, 'explicit': rng.random() < 0.5}
        if src == 'table':
            left = [['annotate', [['p0', 'i32', 'idx']] + [[f'f{i}', rng.choice(FIELD_TYPES), 'idx'] for i in range(rng.choice([0, 1, 2]))]]]
            for _ in range(rng.choice([0, 0, 1, 2])):
                left.append(rng.choice([['filter', 'p0'], ['annotate_globals', [['lg', rng.choice(FIELD_TYPES), None]]],
                                        ['annotate', [[f'f{rng.randint(3, 5)}', rng.choice(FIELD_TYPES), 'p0']]], ['key_by', ['p0']], ['key_by', ['p0', 'idx']]]))
            c.update(left=left, by=rng.choice(['key', 'key', ['field', 'p0'], ['field', 'idx'], ['expr', 'p0']]))
        else:
            c.update(left=self.gen_mpipe(rng, 'f', rng.choice([0, 1, 2, 3]))[0], by='key',
                     view=rng.choice(['matrix', 'matrix', 'rows', 'cols', 'entries']))
        return c

    def gen_join_right(self, rng, left_ops):
        """a right table (keyed by idx) whose field names deliberately clash with the left table's: row field vs row field, global vs
        global, global vs row field, row field vs global, and the name of a left key field"""
        lrow, lglob = ['idx'], []
        for op in left_ops:
            if op[0] == 'annotate':
                lrow += [n for n, _, _ in op[1]]
            elif op[0] == 'annotate_globals':
                lglob += [n for n, _, _ in op[1]]
            elif op[0] == 'select':
                lrow += [n for n, _, _ in op[2]]
            elif op[0] == 'rename':
                lrow += [b for _, b in op[1]]
        row, glob, ops = {'idx'}, set(), []
        fresh = iter(f'r{i}' for i in range(100))
        if rng.random() < 0.25:
            return self.gen_table(rng, 'r', ['annotate', 'annotate', 'annotate_globals', 'filter', 'explode'])['ops']      # no clash at all
        for _ in range(rng.choice([1, 2, 2, 3, 4])):
            if rng.random() < 0.5:
                named = []
                for _ in range(rng.choice([1, 2, 3])):
                    pool = (lrow if rng.random() < 0.7 else lglob) or lrow
                    n = rng.choice(pool) if rng.random() < 0.6 else next(fresh)
                    if n == 'idx' or n in glob or n in [x[0] for x in named]:
                        continue
                    named.append([n, rng.choice(FIELD_TYPES), 'idx'])
                if named:
                    ops.append(['annotate', named])
                    row |= {x[0] for x in named}
            else:
                pool = (lglob if rng.random() < 0.7 else lrow) or lrow
                n = rng.choice(pool) if rng.random() < 0.65 else next(fresh)
                if n in row or n == 'idx':
                    continue
                ops.append(['annotate_globals', [[n, rng.choice(FIELD_TYPES), None]]])
                glob.add(n)
        return ops

    def cases(self, rng, n, tier):
        g = ExprGen(rng)
        for _ in range(n):
            r = rng.random()
            if r < 0.1:
                yield self.gen_union(rng)
                continue
            if r < 0.14:
                yield self.gen_join(rng)
                continue
            if r < 0.25:
                yield self.gen_matrix(rng)
                continue
            if r < 0.30:
                yield self.gen_index(rng)
                continue
            if r < 0.32:
                # a @ b on ndarrays: vector / matrix / higher-rank operands on either side (the front end broadcasts unequal ranks first)
                yield {'kind': 'ndmatmul', 'l': rng.choice([1, 1, 2, 3, 4]), 'r': rng.choice([1, 1, 2, 3, 4]), 't': rng.choice(['f64', 'f64', 'i32', 'i64'])}
                continue
            r = (r - 0.30) / 0.70
            if r < 0.45:
                yield {'kind': 'expr', 'prog': g.any_expr(rng.choice([1, 2, 2, 3, 3, 4]))}
            elif r < 0.8:
                yield {'kind': 'impute', 'value': gen_pyval(rng, rng.choice([1, 2, 2, 3]))}
            else:
                yield self.gen_table(rng)

    # ---- lines ----------------------------------------------------------------------------------------------------
    def model_lines(self, c):
        if c['kind'] == 'expr':
            r = self.run_expr(c)
            if r[0] != 'ok':
                return [f'echo ||| {r[0]}'] * 2
            return [f'infer ||| - ||| {r[3]}'] * 2
        if c['kind'] == 'impute':
            return ['impute ||| ' + sexp_of_json(c['value'])]
        if c['kind'] == 'matrix':
            r = self.run_matrix(c)
            if r[0] == 'assert':
                return ['echo ||| assert'] * 2
            lt, rt, pt = r[3] if r[0] == 'ok' else r[2]
            if rt is None:
                return [f'matrix ||| {c["view"]} ||| ' + ' ; '.join(lt)] * 2
            tail = f' ||| {c["view"]} ||| ' + ' ; '.join(lt) + ' ||| ' + ' ; '.join(rt) + ' ||| ' + (' ; '.join(pt) or 'range')
            return ['munion' + tail, 'munion-ir' + tail]
        if c['kind'] == 'ndmatmul':
            r = self.run_matmul(c)
            if r[0] != 'ok' or not r[2]:
                return ['echo ||| none']
            return [f'ndmatmul ||| {lr} ||| {rr}' for lr, rr, _, _ in r[2]]
        if c['kind'] == 'index':
            r = self.run_index(c)
            if r[0] == 'assert':
                return ['echo ||| assert'] * 2
            if r[0] == 'rejected' and (r[1].startswith('pipeline:') or r[1] == 'no-key'):
                return ['echo ||| none'] * 2
            k, tail = self.index_tail(c, r[3] if r[0] == 'ok' else r[2])
            return [f'{k}-reported{tail}', f'{k}-ir{tail}']
        if c['kind'] in ('tunion', 'tjoin'):
            r = self.run_combo(c)
            if r[0] == 'assert':
                return ['echo ||| assert'] * 2
            if r[0] == 'rejected' and r[1].startswith('pipeline:'):
                return ['echo ||| none'] * 2          # a branch pipeline itself is refused (covered by the `table` cases)
            texts = r[3] if r[0] == 'ok' else r[2]
            bs = ' ||| '.join(' ; '.join(t) for t in texts)
            if c['kind'] == 'tjoin':
                return [f'tjoin-reported ||| {bs}', f'tjoin-ir ||| {bs}']
            return [f'tunion-reported ||| {int(c["unify"])} ||| {bs}', f'tunion-ir ||| {int(c["unify"])} ||| {bs}']
        r = self.run_table(c)
        if r[0] != 'ok':
            return [f'echo ||| {r[0]}'] * 2 if r[0] == 'assert' else ['table ||| ' + ' ; '.join(r[2])] * 2
        return ['table ||| ' + ' ; '.join(r[3])] * 2

    def impl(self, c):
        if c['kind'] == 'expr':
            r = self.run_expr(c)
            if r[0] != 'ok':
                return [r[0]] * 2
            return [r[1], r[2]]
        if c['kind'] == 'impute':
            t, err = self.run_impute(c)
            if t is None:
                return ['t=none ok=0']
            tt = parse_type(t._parsable_string())
            return [f't={show_type(norm_type(tt))} ok={int(py_check(tt, c["value"]))}']
        if c['kind'] == 'matrix':
            r = self.run_matrix(c)
            if r[0] == 'assert':
                return ['assert'] * 2
            if r[0] == 'rejected':
                return ['none'] * 2
            return [r[1], r[2]]
        if c['kind'] == 'ndmatmul':
            r = self.run_matmul(c)
            if r[0] != 'ok' or not r[2]:
                return ['none']
            return [str(implied) for _, _, _, implied in r[2]]
        if c['kind'] == 'index':
            r = self.run_index(c)
            if r[0] == 'assert':
                return ['assert'] * 2
            if r[0] == 'rejected':
                return ['none'] * 2
            return [r[1], r[2]]
        if c['kind'] in ('tunion', 'tjoin'):
            r = self.run_combo(c)
            if r[0] == 'assert':
                return ['assert'] * 2
            if r[0] == 'rejected':
                return ['none'] * 2
            return [r[1], r[2]]
        r = self.run_table(c)
        if r[0] == 'assert':
            return ['assert'] * 2
        if r[0] == 'rejected':
            return ['none'] * 2
        return [r[1], r[2]]

    # ---- oracle ---------------------------------------------------------------------------------------------------
    def check(self, c):
        hl = self.hl
        if c['kind'] == 'expr':
            r = self.run_expr(c)
            if r[0] == 'rejected':
                return None
            if r[0] == 'assert':
                return ('the front end attached a type that the emitted IR does not compute (assertion while building the '
                        f'expression): {r[1]}')
            _, dt, it, rendered = r
            try:
                implied = show_type(py_infer(parse_sexp(rendered), {}))
            except Untypable as ex:
                return (f'front end reports {dt} but the emitted IR is not typable by the IR rules ({ex}); the IR\'s own deep typecheck '
                        f'gives {it}; IR = {rendered[:300]}')
            if dt != it:
                return f'front end reports {dt} but the emitted IR computes {it}; IR = {rendered[:300]}'
            if implied != dt:
                return f'front end reports {dt} but the IR rules give {implied}; IR = {rendered[:300]}'
            return None
        if c['kind'] == 'impute':
            v = py_of_json(c['value'], hl)
            t, _ = self.run_impute(c)
            if t is not None:
                tt = parse_type(t._parsable_string())
                if not py_check(tt, c['value']):
                    lit = None
                    try:
                        lit = hl.literal(v)
                    except Exception:
                        pass
                    if lit is None:
                        return (f'impute_type({v!r}) = {t}, a type the value cannot be stored at (hl.literal rejects the pair later, in '
                                'its own type check)')
                    try:
                        str(lit._ir)
                        why = 'rendering succeeds'
                    except Exception as ex:
                        why = f'rendering the literal raises {type(ex).__name__}: {ex}'
                    return f'hl.literal({v!r}).dtype = {lit.dtype}, a type the value cannot be stored at; {why}'
            return None
        if c['kind'] == 'matrix':
            r = self.run_matrix(c)
            if r[0] == 'assert':
                return f'assertion inside the front end while building the matrix table: {r[1]}'
            lt, rt, pt = r[3] if r[0] == 'ok' else r[2]
            want = py_matrix(c['view'], lt, rt, pt)
            call = ' ; '.join(lt) + ((' UNION_COLS ' + ' ; '.join(rt) + ' THEN ' + ' ; '.join(pt)) if rt is not None else '') + f' VIEW {c["view"]}'
            if r[0] == 'rejected':
                return None if want is None else f'the front end refuses ({r[1]}) a call the API contract types as {want}: {call}'
            _, fe, it, _ = r
            if fe != it:
                return f'MatrixTable reports {fe} but the engine\'s typing rules give the emitted IR {it}: {call}'
            if want != fe:
                return f'MatrixTable reports {fe} but the API contract gives {want} for {call}'
            return None
        if c['kind'] == 'ndmatmul':
            r = self.run_matmul(c)
            if r[0] != 'ok':
                return None
            for lr, rr, got, implied in r[2]:
                if got != implied:
                    return (f'the front end types NDArrayMatMul of ndarrays of {lr} and {rr} dimensions as {got}-dimensional ({r[1]} reported for '
                            f'a @ b with ranks {c["l"]}, {c["r"]}) but the engine\'s rule (TNDArray.matMulNDims) gives {implied} dimensions')
            want = c['l'] - 1 if c['r'] == 1 and c['l'] > 1 else c['r'] - 1 if c['l'] == 1 and c['r'] > 1 else 0 if c['l'] == c['r'] == 1 else max(c['l'], c['r'])
            got = int(re.search(r',(\d+)\]$', r[1]).group(1)) if r[1].startswith('NDArray') else 0
            if got != want:
                return f'a @ b with ranks {c["l"]}, {c["r"]} reports {r[1]} but numpy.matmul semantics give {want} dimensions'
            return None
        if c['kind'] == 'index':
            r = self.run_index(c)
            if r[0] == 'assert':
                return f'assertion inside the front end while building the lookup: {r[1]}'
            if r[0] == 'rejected' and (r[1].startswith('pipeline:') or r[1] == 'no-key'):
                return None
            lt, rt, ets = r[3] if r[0] == 'ok' else r[2]
            want = py_index('table' if c['src'] == 'table' else 'matrix', c['src'], c.get('view'), lt, rt, ets, bool(c['am']), bool(c['len']), 'm')
            call = (' ; '.join(lt) + f' ANNOTATE{"" if c["src"] == "table" else "_" + c["src"].upper()} m = ' + ('len(' if c['len'] else '')
                    + f'RIGHT.index({", ".join(ets)}, all_matches={bool(c["am"])})' + (')' if c['len'] else '') + ' WHERE RIGHT = ' + ' ; '.join(rt)
                    + (f' VIEW {c["view"]}' if c['src'] != 'table' else ''))
            if r[0] == 'rejected':
                return None if want is None else f'the front end refuses ({r[1]}) a lookup the API contract types as {want}: {call}'
            _, fe, it, _, why = r
            if why:
                return f'the front end reports {fe} but the emitted join node is ill-typed by the engine\'s rule: {why}: {call}'
            if fe != it:
                return f'the front end reports {fe} but the emitted IR computes {it}: {call}'
            if want != fe:
                return f'the front end reports {fe} but the API contract gives {want} for {call}'
            return None
        if c['kind'] in ('tunion', 'tjoin'):
            r = self.run_combo(c)
            if r[0] == 'assert':
                return f'assertion inside the front end while building the table: {r[1]}'
            if r[0] == 'rejected' and r[1].startswith('pipeline:'):
                return None
            texts = r[3] if r[0] == 'ok' else r[2]
            want = py_union(c['unify'], texts) if c['kind'] == 'tunion' else py_join(texts[0], texts[1])
            call = ' UNION '.join(' ; '.join(t) for t in texts) if c['kind'] == 'tunion' else ' ; '.join(texts[0]) + ' JOIN ' + ' ; '.join(texts[1])
            if r[0] == 'rejected':
                return None if want is None else f'the front end refuses ({r[1]}) a call the API contract types as {want}: {call}'
            _, fe, it, _, note = r
            if it == 'ill-typed' and note[0] == 'join':
                return (f'Table reports {fe} but the emitted TableJoin is ill-typed in the engine: its struct concatenations (left globals ++ '
                        f'right globals, left row ++ right value fields) are fatal on a duplicate field name; children: globals {note[1][0]} / '
                        f'{note[1][1]}, rows {note[1][2]} / {note[1][3]}: {call}')
            if it == 'ill-typed':
                return (f'[ill-typed-union:{note[0]}] Table reports {fe} but the children of the emitted TableUnion have different row '
                        f'types {note[1]} (the engine requires them equal): {call}')
            if fe != it:
                return f'Table reports {fe} but the emitted TableIR computes {it}: {call}'
            if want != fe:
                return f'Table reports {fe} but the API contract gives {want} for {call}'
            return None
        r = self.run_table(c)
        if r[0] == 'rejected':
            want = py_table(r[2])
            return None if want is None else f'the front end refuses ({r[1]}) a pipeline the API contract types as {want}'
        if r[0] == 'assert':
            return f'assertion inside the front end while building the table: {r[1]}'
        _, fe, it, texts, extra = r
        if fe != it:
            return f'Table reports {fe} but the emitted TableIR computes {it}'
        want = py_table(texts)
        if want != fe:
            return f'Table reports {fe} but the API contract gives {want} for ' + ' ; '.join(texts)
        return extra

    def oracle(self, c, out):
        if out and out[0].startswith('IMPL-EXC'):
            return out[0]
        msg = self.check(c)
        if msg is None or c['kind'] != 'impute':
            return msg
        for cls in ('struct-union', 'clash-refilled'):
            if cls == 'struct-union' and '(hl.literal rejects the pair later' in msg:
                # the open struct-union finding is about a union type hl.literal ACCEPTS although the elements lack fields; a union that
                # hl.literal itself refuses is a different failure (seed C36-15 dropped fields from the union and was masked by the class)
                continue
            if self.holds_with_fix(c, cls):
                self.stats['known'][cls] = self.stats['known'].get(cls, 0) + 1
                return f'[class={cls}] ' + msg
        return msg

    def holds_with_fix(self, c, cls):
        """counterfactual attribution: the failure disappears when super_unify_types refuses exactly the lossy step of that class"""
        be = self.be
        orig = be.super_unify_types

        class Refuse(Exception):
            pass

        def fixed(*ts):
            present = [t for t in ts if t is not None]
            r = orig(*ts)
            if cls == 'struct-union' and present and all(isinstance(t, self.hl.tstruct) for t in present):
                if len({frozenset(t.fields) for t in present}) > 1:
                    raise Refuse()
            if cls == 'clash-refilled' and r is None and present:
                raise Refuse()
            return r
        be.super_unify_types = fixed
        try:
            try:
                return self.check(c) is None
            except Refuse:
                return True
        except Exception:
            return False
        finally:
            be.super_unify_types = orig

    def finding_key(self, c, msg):
        m = re.match(r'\[class=([\w-]+)\]', msg)
        if m:
            return json.dumps({'class': m.group(1), 'witness': IMPUTE_WITNESS[m.group(1)]}, sort_keys=True)
        return json.dumps(c, sort_keys=True)

    # ---- distribution ---------------------------------------------------------------------------------------------
    def classify(self, c, out):
        kind = c['kind']
        tags = ['kind=' + kind]
        if kind == 'expr':
            r = self.run_expr(c)
            tags.append('expr:' + r[0])
            if r[0] == 'ok':
                tags.append('expr-type:' + re.match(r'[A-Za-z0-9]+', r[1]).group(0))
                for h in sorted(set(re.findall(r'\((\w+)', r[3]))):
                    tags.append('ir:' + h)
                for fn in sorted(set(re.findall(r'\(Apply \d+ (\w+)', r[3]))):
                    tags.append('apply:' + fn)
                tags.append('ir-size=%s' % ('<10' if r[3].count('(') < 10 else '<40' if r[3].count('(') < 40 else '40+'))
            nontrivial = r[0] == 'ok'
        elif kind == 'impute':
            ok = out[0] != 't=none ok=0'
            tags.append('impute:' + ('typed' if ok else 'raises'))
            if ok and out[0].startswith('t='):
                tags.append('impute-type:' + re.match(r't=([A-Za-z0-9]+)', out[0]).group(1))
                tags.append('impute-storable=' + out[0][-1])
            s = json.dumps(c['value'])
            for k in ('list', 'tuple', 'set', 'dict', 'struct'):
                if f'"{k}"' in s:
                    tags.append('value-has:' + k)
            nontrivial = ok
        elif kind == 'matrix':
            r = self.run_matrix(c)
            tags.append('matrix:' + r[0])
            tags.append('matrix-view:' + c['view'])
            if c.get('right') is not None:
                tags.append('matrix:union_cols')
            for op in c['ops'] + (c.get('right') or []) + c.get('post', []):
                tags.append('matrix-op:' + op[0] + ('_' + op[1] if op[0] in ('annotate', 'select', 'filter') else '')
                            + ('()' if op[0] in ('key_cols_by', 'key_rows_by') and not op[1] else ''))
            nontrivial = r[0] == 'ok'
        elif kind == 'ndmatmul':
            r = self.run_matmul(c)
            tags += ['ndmatmul:' + r[0], f'ndmatmul-ranks={c["l"]}x{c["r"]}']
            nontrivial = r[0] == 'ok'
        elif kind == 'index':
            r = self.run_index(c)
            tags += ['index:' + r[0], 'index-src:' + c['src'], 'index-all_matches=%d' % int(c['am']), 'index-len=%d' % int(c['len']),
                     'index-by:' + (c['by'] if isinstance(c['by'], str) else c['by'][0])]
            tags.append('index-right-key:' + ('interval' if any(op[0] == 'annotate' and any(f[1] == 'iv' for f in op[1]) for op in c['right'])
                                              and any(op[0] == 'key_by' for op in c['right']) else 'point'))
            nontrivial = r[0] == 'ok'
        elif kind in ('tunion', 'tjoin'):
            r = self.run_combo(c)
            tags.append(f'{kind}:' + r[0])
            if kind == 'tunion':
                tags.append('tunion:unify=%d' % int(c['unify']))
                tags.append('tunion:tables=%d' % len(c['tables']))
                if r[0] == 'ok':
                    tags.append('tunion:' + ('ill-typed' if r[2] == 'ill-typed' else 'well-typed'))
                    tys = [re.findall(r'=(Int32|Int64|Float64)', ' '.join(t)) for t in r[3]]
                    if len({tuple(sorted(set(x))) for x in tys}) > 1:
                        tags.append('tunion:numeric-types-differ-between-tables')
                    if len({len(' '.join(t).split('annotate ')[1].split('&')) if 'annotate ' in ' '.join(t) else 0 for t in r[3]}) > 1:
                        tags.append('tunion:field-sets-differ')
            nontrivial = r[0] == 'ok'
        else:
            r = self.run_table(c)
            tags.append('table:' + r[0])
            for op in c['ops']:
                tags.append('table-op:' + op[0])
            tags.append('table-ops=%d' % len(c['ops']))
            nontrivial = r[0] == 'ok'
        self.stats['programs'] += 1
        return (json.dumps(c, sort_keys=True) if nontrivial else None, tags)

    def extra_coverage(self):
        return {'failures_attributed_to_known_defects': dict(getattr(self, 'stats', {'known': {}})['known'])}

    # ---- shrinking ------------------------------------------------------------------------------------------------
    def shrink(self, c, fails):
        if c['kind'] == 'expr':
            cur = c['prog']
            changed = True
            while changed:
                changed = False
                for sub in self._subprogs(cur):
                    if sub is not cur and self._closed(sub) and fails({'kind': 'expr', 'prog': sub}):
                        cur = sub
                        changed = True
                        break
            return {'kind': 'expr', 'prog': cur}
        if c['kind'] == 'impute':
            cur = c['value']
            changed = True
            while changed:
                changed = False
                for cand in self._subvalues(cur):
                    if fails({'kind': 'impute', 'value': cand}):
                        cur = cand
                        changed = True
                        break
            return {'kind': 'impute', 'value': cur}
        if c['kind'] == 'tunion':
            cur = c
            changed = True
            while changed:
                changed = False
                cands = []
                if len(cur['tables']) > 2:
                    cands += [dict(cur, tables=cur['tables'][:i] + cur['tables'][i + 1:]) for i in range(len(cur['tables']))]
                for i, ops in enumerate(cur['tables']):
                    for j in range(len(ops)):
                        cands.append(dict(cur, tables=cur['tables'][:i] + [ops[:j] + ops[j + 1:]] + cur['tables'][i + 1:]))
                        if ops[j][0] == 'annotate' and len(ops[j][1]) > 1:
                            for k in range(len(ops[j][1])):
                                op2 = ['annotate', ops[j][1][:k] + ops[j][1][k + 1:]]
                                cands.append(dict(cur, tables=cur['tables'][:i] + [ops[:j] + [op2] + ops[j + 1:]] + cur['tables'][i + 1:]))
                for cand in cands:
                    if fails(cand):
                        cur = cand
                        changed = True
                        break
            return cur
        if c['kind'] in ('tjoin', 'ndmatmul'):
            return c
        if c['kind'] == 'index':
            cur = c
            changed = True
            while changed:
                changed = False
                for fld in ('left', 'right'):
                    for i in range(len(cur[fld])):
                        cand = dict(cur, **{fld: cur[fld][:i] + cur[fld][i + 1:]})
                        if fails(cand):
                            cur, changed = cand, True
                            break
                    if changed:
                        break
            return cur
        if c['kind'] == 'matrix':
            cur = c
            changed = True
            while changed:
                changed = False
                cands = []
                for fld in ('ops', 'right', 'post'):
                    lst = cur.get(fld)
                    if not lst:
                        continue
                    for i in range(len(lst)):
                        cands.append(dict(cur, **{fld: lst[:i] + lst[i + 1:]}))
                        if lst[i][0] == 'annotate' and len(lst[i][2]) > 1:
                            for k in range(len(lst[i][2])):
                                op2 = ['annotate', lst[i][1], lst[i][2][:k] + lst[i][2][k + 1:]]
                                cands.append(dict(cur, **{fld: lst[:i] + [op2] + lst[i + 1:]}))
                if cur.get('right') is not None and not cur['right'] and not cur.get('post'):
                    cands.append({k: v for k, v in cur.items() if k not in ('right', 'post', 'join', 'drop_right')})
                for cand in cands:
                    if fails(cand):
                        cur = cand
                        changed = True
                        break
            return cur
        ops = list(c['ops'])
        changed = True
        while changed and len(ops) > 1:
            changed = False
            for i in range(len(ops)):
                cand = ops[:i] + ops[i + 1:]
                if fails({'kind': 'table', 'ops': cand}):
                    ops = cand
                    changed = True
                    break
        return {'kind': 'table', 'ops': ops}

    def _subprogs(self, p):
        out = []

        def walk(q):
            if isinstance(q, list):
                if q and isinstance(q[0], str) and q[0] not in ('var',):
                    out.append(q)
                for x in q[1:] if q and isinstance(q[0], str) else q:
                    walk(x)
        walk(p)
        return sorted(out, key=lambda q: len(json.dumps(q)))

    def _closed(self, p):
        s = json.dumps(p)
        return '"var"' not in s or any(k in s for k in ('"map"', '"filter"', '"fold"', '"let"'))

    def _subvalues(self, v):
        out = []
        if isinstance(v, dict):
            k, x = next(iter(v.items()))
            if k in ('list', 'tuple', 'set'):
                out += x
                for i in range(len(x)):
                    out.append({k: x[:i] + x[i + 1:]})
                for i, e in enumerate(x):
                    for s in self._subvalues(e):
                        out.append({k: x[:i] + [s] + x[i + 1:]})
            elif k == 'dict':
                for i in range(len(x)):
                    out.append({k: x[:i] + x[i + 1:]})
                out += [b for _, b in x]
            elif k == 'struct':
                for i in range(len(x)):
                    out.append({k: x[:i] + x[i + 1:]})
                out += [b for _, b in x]
        return out


# minimal witnesses of the two known defects of impute_type (known_findings.json)
# regression case of the defect repaired in /repo e4a772c10 (corpus/c36/07)
UNION_WITNESS = {'kind': 'tunion', 'unify': True,
                 'tables': [[['annotate', [['a', 'i32', 'idx']]]],
                            [['annotate', [['a', 'i32', 'idx']]], ['key_by', []], ['select', ['a', 'idx'], []], ['key_by', ['idx']]]]}
IMPUTE_WITNESS = {
    'struct-union': {'kind': 'impute', 'value': {'list': [{'struct': [['a', {'i': 1}]]}, {'struct': [['b', {'i': 2}]]}]}},
    'clash-refilled': {'kind': 'impute', 'value': {'list': [{'list': [{'list': [{'i': 1}]}, {'list': [{'s': 'a'}]}]}, {'list': [{'list': [{'i': 2}]}]}]}},
}

PROP = C36()

"""C01 Scheduler job/core counters always match job states — E1 family: the real code over minisql vs the Lean model BatchDB, oracle `oracles.c01`."""
from ..batchdb.prop import E1Prop


class C01(E1Prop):
    id = 'C01'
    title = 'Scheduler job/core counters always match job states'
    design_ref = 'DESIGN.md §4 C01 (Engine E1)'
    oracle_name = 'c01'
    adversarial_share = 0.0
    nontrivial_tags = ['has-cancelled-group', 'has-uncommitted-jobs']
    level_text = 'Oracle on the real tables after every op of every history: each of the 8 token-summed user_inst_coll_resources counters equals the recount over jobs of committed updates (state, cancelled mark or cancelled ancestor group, always_run), and for every group without cancelled ancestor the 5 job_group_inst_coll_cancellable_resources sums per (update, inst_coll) equal the recount over cancellable jobs of the group and its descendants. Model/code agreement of all counter tables after every op. Lean theorem counters_inv when Props/C01.lean exists.'
    level_note = ('Partial: the server is harness/minisql (semantics list in trusted_base), every transaction is one atomic step, histories are generated '
                  '(not exhaustive); the Lean model is tied to the code only as far as the compared answers and dumps show. '
                  'Known findings of the unchanged tree are listed in known_findings.json and printed as KNOWN-FINDING.')

    def nontrivial(self, r):
        return any(t in r.tags for t in self.nontrivial_tags)


    def make_history(self, rng):
        from ..batchdb import gen
        return gen.history(rng, two_batches=0.7, special=0.15, weights={'cancel-cleanup-cancel': 6.0})


PROP = C01()

"""C32 Value JSON conversion round-trips.

C tie : the real `HailType._to_json` / `_from_json` (`_convert_to_json_na`, `json.dumps`, `json.loads`, `_convert_from_json_na`)
        of every type class against `Model/ValueJson.lean`: the JSON tree and the value read back, in canonical text.
Oracle: the property itself on the real functions — the value read back equals the value sent (sets / dicts / frozen
        containers / NaN canonicalised), independent of the model.
"""
import json
import math

from .. import hailenv
from ..framework import Prop
from . import hailvalues as hv

# known defect classes, keyed by their canonical minimal witness (see known_findings.json).  The class 'dict-missing-entry'
# (tdict converted keys/values without the None check) was repaired by /repo commit 1824f18d5, the class 'struct-field-named-self' (hl.Struct(self=…)) by c88553592: plain violations again.
CLASS_WITNESS = {
    'ndarray-non-numeric': {'type': ['ndarray', ['str'], 0], 'value': ['nd', [], [''], 'C']},
}


def canon_json(t, j):
    """type-directed canonical text of the real JSON tree (object keys sorted; finite floats as bit patterns)"""
    if j is None:
        return 'null'
    if isinstance(j, bool):
        return 'true' if j else 'false'
    if isinstance(j, int):
        return str(j)
    if isinstance(j, float):
        if j != j:
            return 'NaN'
        if math.isinf(j):
            return 'Infinity' if j > 0 else '-Infinity'
        return 'F%d' % (hv.f32bits(j) if t[0] == 'f32' else hv.f2bits(j))
    if isinstance(j, str):
        return '"' + hv.cps(j) + '"'
    k = t[0]
    if isinstance(j, (list, tuple)):
        if k == 'array':
            return '[' + ','.join(canon_json(t[1], x) for x in j) + ']'
        if k == 'set':           # the order in which a Python set is iterated is not an observable
            return '[' + ','.join(sorted(canon_json(t[1], x) for x in j)) + ']'
        if k == 'tuple':
            return '[' + ','.join(canon_json(et, x) for et, x in zip(t[1], j)) + ']'
        if k == 'dict':
            return '[' + ','.join(sorted(canon_json(['struct', [['key', t[1]], ['value', t[2]]]], x) for x in j)) + ']'
        return '[' + ','.join(canon_json(['i64'], x) for x in j) + ']'
    if isinstance(j, dict):
        if k == 'struct':
            ft = dict((n, x) for n, x in t[1])
        elif k == 'interval':
            ft = {'start': t[1], 'end': t[1], 'includeStart': ['bool'], 'includeEnd': ['bool']}
        elif k == 'locus':
            ft = {'contig': ['str'], 'position': ['i32']}
        elif k == 'ndarray':
            ft = {'shape': ['array', ['i64']], 'data': ['array', t[1]]}
        else:
            ft = {}
        return '{' + ','.join(sorted(hv.cps(n) + ':' + canon_json(ft.get(n, ['i64']), x) for n, x in j.items())) + '}'
    raise TypeError(type(j).__name__)


def strip_known(t, v, cls):
    """the value with every occurrence of a known defect class removed (used to attribute a failure to the class)"""
    if v is None:
        return None
    k = t[0]
    if k == 'interval':
        return ['iv', strip_known(t[1], v[1], cls), strip_known(t[1], v[2], cls), v[3], v[4]]
    if k == 'array':
        return ['arr', [strip_known(t[1], x, cls) for x in v[1]]]
    if k == 'set':
        out, seen = [], set()
        for x in v[1]:
            y = strip_known(t[1], x, cls)
            key = hv.canon_case(t[1], y)
            if key not in seen:          # elements that became equal collapse in a Python set
                seen.add(key)
                out.append(y)
        return ['set', out]
    if k == 'dict':
        out, seen = [], set()
        for a, b in v[1]:
            a2 = strip_known(t[1], a, cls)
            key = hv.canon_case(t[1], a2)
            if key not in seen:
                seen.add(key)
                out.append([a2, strip_known(t[2], b, cls)])
        return ['dict', out]
    if k == 'struct':
        return ['st', [strip_known(ft, x, cls) for (_, ft), x in zip(t[1], v[1])]] + v[2:]
    if k == 'tuple':
        return ['tup', [strip_known(et, x, cls) for et, x in zip(t[1], v[1])]]
    if k == 'ndarray':
        if cls == 'ndarray-non-numeric' and t[1][0] not in hv.NUMERIC:
            return None
        return v
    return v


def has_class(t, v, cls):
    return json.dumps(strip_known(t, v, cls)) != json.dumps(v)


class C32(Prop):
    id = 'C32'
    title = 'Value JSON conversion round-trips'
    lean_props = ['HailVerif.Props.C32']
    driver = 'Driver/C32.lean'
    engine = 'E4-frontend'
    design_ref = 'DESIGN.md §4 C32'
    technique = ('Lean 4 theorem by mutual structural induction over the type about an executable model of _convert_to_json / '
                 '_convert_from_json of every type class + differential correspondence with the real methods through json.dumps/loads')
    level_text = ('Proved for every type and every well-typed value with missing values at every level, NaN/±inf, calls, loci, intervals, '
                  'sets, dicts (missing keys and values included), tuples, nested structs, numeric n-d arrays: from_json(to_json(v)) = v — '
                  'under the explicit hypothesis that no n-d array has a non-numeric element type; the full statement is refuted on a '
                  'concrete witness for exactly that class (ndarray JSON is numeric-only). The former tdict defect (keys/values converted '
                  'without the None check) is repaired in /repo (1824f18d5); its old behaviour is kept as dictEntryToJsonOld.')
    level_note = ('Trusted: the JSON text layer (json.dumps/json.loads, repr/float of finite floats) is taken as the identity on JSON '
                  'trees; Python set/dict construction is modelled on pairwise-distinct elements only; the model is tied to the real '
                  'methods by differential runs only.')
    budget = {'quick': 6000, 'thorough': 60000}
    search_budget = {'quick': 3000, 'thorough': 40000}
    rule = ('case = (type of depth <= 4 over int32/int64/float32/float64/bool/str/call/locus/interval/array/set/dict/struct/tuple/ndarray, '
            'type-directed value with 15% missing at every level, NaN/±inf/-0.0/denormal floats, boundary ints, all call shapes, loci of a '
            'real ReferenceGenome, C- and F-ordered n-d arrays incl. 0-d and empty); lines = canonical JSON tree, canonical value read '
            'back; non-trivial = a compound type with at least 3 values; distinct by full case')
    trusted = ['CPython json.dumps / json.loads as the identity on JSON trees (allow_nan default)',
               'numpy 2.x (np.array / np.ndarray / tolist) for n-d array values',
               'harness/hailenv.py StubBackend + real HailContext/ReferenceGenome/Locus/Interval/Call/Struct classes',
               'harness/props/hailvalues.py canonicaliser (type-directed canonical text of real Python values)']
    assumptions = ['values are the canonical Python values Hail itself returns (Struct with every field, Call built by its constructor, '
                   'floats for float types, frozen containers inside sets / dict keys)',
                   'the JSON wire text is produced and read by json.dumps / json.loads']

    def setup(self, repo):
        self.hl = hailenv.init(repo)
        hailenv.reference('my ref')
        self.H = hv.HailValues(self.hl, hailenv)

    def cases(self, rng, n, tier):
        for _ in range(n):
            t = hv.gen_type(rng, rng.choice([1, 2, 2, 3, 3, 3, 4, 4]))
            yield {'type': t, 'value': hv.gen_value(rng, t)}

    def model_lines(self, c):
        s = ' '.join(hv.ty_tokens(c['type'])) + ' | ' + ' '.join(hv.val_tokens(c['type'], c['value']))
        return ['json ' + s, 'rt ' + s]

    def _roundtrip(self, c):
        t, v = c['type'], c['value']
        ht = self.H.build_type(t)
        x = self.H.to_py(t, v)
        return ht, x

    def impl(self, c):
        t = c['type']
        ht, x = self._roundtrip(c)
        out = []
        try:
            j = ht._convert_to_json_na(x)
            text = json.dumps(j)
            out.append(canon_json(t, json.loads(text)))
        except Exception:
            return ['err', 'err']
        try:
            out.append(self.H.canon_py(t, ht._from_json(text)))
        except Exception:
            out.append('err')
        return out

    def roundtrip_failure(self, t, v):
        """None when `_from_json(_to_json(x))` equals x on the real methods, else a description"""
        ht = self.H.build_type(t)
        x = self.H.to_py(t, v)
        want = hv.canon_case(t, v)
        try:
            s = ht._to_json(x)
        except Exception as e:
            return f'_to_json raises {type(e).__name__}: {str(e)[:80]}'
        try:
            back = ht._from_json(s)
        except Exception as e:
            return f'_from_json raises {type(e).__name__}: {str(e)[:80]} on {s[:120]}'
        try:
            got = self.H.canon_py(t, back)
        except Exception as e:
            return f'value read back has the wrong shape ({e}) from {s[:120]}'
        if got != want:
            return f'value read back differs: sent {want[:150]} got {got[:150]}'
        return None

    def oracle(self, c, out):
        if out and out[0].startswith('IMPL-EXC'):
            return out[0]
        t, v = c['type'], c['value']
        why = self.roundtrip_failure(t, v)
        if why is None:
            return None
        # attribute the failure to the known classes only if removing every occurrence of them repairs the round trip (removing
        # one class can uncover the other — an unsupported n-d array that is a dict value becomes a missing dict value)
        cur = v
        applied = []
        for _ in range(6):
            before = json.dumps(cur)
            for cls in ('ndarray-non-numeric',):
                if has_class(t, cur, cls):
                    cur = strip_known(t, cur, cls)
                    if cls not in applied:
                        applied.append(cls)
            if self.roundtrip_failure(t, cur) is None:
                return f'[class={"+".join(applied)}] {why}' if applied else why
            if json.dumps(cur) == before:
                break
        return why

    def finding_key(self, c, msg):
        if msg.startswith('[class='):
            cls = msg[7:msg.index(']')]
            if all(k in CLASS_WITNESS for k in cls.split('+')):
                # a case showing several known classes at once is keyed by the first (each class has its own corpus witness)
                k = cls.split('+')[0]
                return json.dumps({'class': k, 'witness': CLASS_WITNESS[k]}, sort_keys=True)
        return json.dumps({'case': c, 'msg': msg[:100]}, sort_keys=True)

    def classify(self, c, out):
        t, v = c['type'], c['value']
        acc = hv.count_values(t, v, [0, 0, 0])
        ks = hv.kinds(t, set())
        tags = ['has:' + k for k in sorted(ks)]
        tags.append('depth=%d' % self._depth(t))
        tags.append('missing%%=%d' % (10 * round(10 * acc[1] / max(acc[0], 1))))
        if acc[2]:
            tags.append('nonfinite-float')
        if v is None:
            tags.append('top-missing')
        tags.append('outcome:' + ('err' if out and out[-1] == 'err' else 'ok'))
        compound = bool(ks - {'i32', 'i64', 'f32', 'f64', 'bool', 'str', 'call', 'locus'})
        return (json.dumps(c, sort_keys=True) if compound and acc[0] >= 3 else None, tags)

    def _depth(self, t):
        k = t[0]
        if k in ('array', 'set', 'interval', 'ndarray'):
            return 1 + self._depth(t[1])
        if k == 'dict':
            return 1 + max(self._depth(t[1]), self._depth(t[2]))
        if k == 'struct':
            return 1 + max([self._depth(ft) for _, ft in t[1]] + [0])
        if k == 'tuple':
            return 1 + max([self._depth(et) for et in t[1]] + [0])
        return 1

    def shrink(self, c, fails):
        t, v = c['type'], c['value']
        changed = True
        while changed:
            changed = False
            for t2, v2 in self._smaller(t, v):
                if fails({'type': t2, 'value': v2}):
                    t, v = t2, v2
                    changed = True
                    break
        return {'type': t, 'value': v}

    def _smaller(self, t, v):
        """sub-values with their types, then the same type with fewer elements"""
        if v is None or v == hv.PDNA:
            return
        k = t[0]
        if k == 'interval':
            yield t[1], v[1]
            yield t[1], v[2]
        elif k in ('array', 'set'):
            for x in v[1]:
                yield t[1], x
            for i in range(len(v[1])):
                yield t, [v[0], v[1][:i] + v[1][i + 1:]]
        elif k == 'dict':
            for a, b in v[1]:
                yield t[1], a
                yield t[2], b
            for i in range(len(v[1])):
                yield t, ['dict', v[1][:i] + v[1][i + 1:]]
            for i, (a, b) in enumerate(v[1]):
                for t2, b2 in self._smaller(t[2], b):
                    if t2 == t[2]:
                        yield t, ['dict', v[1][:i] + [[a, b2]] + v[1][i + 1:]]
        elif k == 'struct':
            for (_, ft), x in zip(t[1], v[1]):
                yield ft, x
            for i in range(len(t[1])):
                yield ['struct', t[1][:i] + t[1][i + 1:]], ['st', v[1][:i] + v[1][i + 1:]]
        elif k == 'tuple':
            for et, x in zip(t[1], v[1]):
                yield et, x
            for i in range(len(t[1])):
                yield ['tuple', t[1][:i] + t[1][i + 1:]], ['tup', v[1][:i] + v[1][i + 1:]]


PROP = C32()

"""C31, identifiers emitted by IR nodes: every IR node whose `head_str()` writes identifiers, strings or type strings is rendered
with generated names and its text is read back the way the engine does — the lexer transcription of c31.py (over the literals
extracted from Parser.scala) followed by the sub-parsers the Scala IR parser runs for that head (extracted on every run by
harness/extract/scala_irheads.py).  What is read must be exactly the names / strings / types the node was built from, and
every token must be consumed.  Not a property module (used by harness/props/c31.py).

HEADS: head -> builder(ir, hl, names, type) -> (node, expected argument values in the order of the Scala clause)
    identifier / name        str                identifiers / names     [str]
    string_literal           str                string_literals         [str]
    boolean_literal          bool               int32_literal           int
    sort_fields              [(field, 'A'|'D')] type_expr               case type tree (harness/props/c31.py)
    opt:<p>                  None | value
"""


class HeadMismatch(Exception):
    pass


def _tbl(ir):
    return ir.TableRange(1, 1)


def _mt(ir):
    return ir.CastTableToMatrix(ir.TableRange(1, 1), 'e', 'c', ['k'])


def _n(names, i):
    return names[i % len(names)]


HEADS = {
    'Ref': lambda ir, hl, ns, t, ht: (ir.Ref(_n(ns, 0), hl.tint32), [_n(ns, 0)]),
    'GetField': lambda ir, hl, ns, t, ht: (ir.GetField(ir.Ref('s', hl.tstruct(**{_n(ns, 0): hl.tint32})), _n(ns, 0)), [_n(ns, 0)]),
    'SelectFields': lambda ir, hl, ns, t, ht: (ir.SelectFields(ir.Ref('s', hl.tstruct(**{n: hl.tint32 for n in ns})), list(dict.fromkeys(ns))),
                                               [list(dict.fromkeys(ns))]),
    'Str': lambda ir, hl, ns, t, ht: (ir.Str(_n(ns, 0)), [_n(ns, 0)]),
    'NA': lambda ir, hl, ns, t, ht: (ir.NA(ht), [t]),
    'Cast': lambda ir, hl, ns, t, ht: (ir.Cast(ir.I32(1), ht), [t]),
    'TableKeyBy': lambda ir, hl, ns, t, ht: (ir.TableKeyBy(_tbl(ir), list(ns), False), [list(ns), False, None]),
    'TableOrderBy': lambda ir, hl, ns, t, ht: (ir.TableOrderBy(_tbl(ir), [(n, 'AD'[i % 2]) for i, n in enumerate(ns)]),
                                               [[(n, 'AD'[i % 2]) for i, n in enumerate(ns)]]),
    'TableExplode': lambda ir, hl, ns, t, ht: (ir.TableExplode(_tbl(ir), list(ns)), [list(ns)]),
    'TableRename': lambda ir, hl, ns, t, ht: (ir.TableRename(_tbl(ir), {_n(ns, 0): _n(ns, 1)}, {_n(ns, 2): _n(ns, 0)}),
                                              [[_n(ns, 0)], [_n(ns, 1)], [_n(ns, 2)], [_n(ns, 0)]]),
    'TableJoin': lambda ir, hl, ns, t, ht: (ir.TableJoin(_tbl(ir), _tbl(ir), 'outer', 1), ['outer', 1]),
    'TableLeftJoinRightDistinct': lambda ir, hl, ns, t, ht: (ir.TableLeftJoinRightDistinct(_tbl(ir), _tbl(ir), _n(ns, 0)), [_n(ns, 0)]),
    'TableIntervalJoin': lambda ir, hl, ns, t, ht: (ir.TableIntervalJoin(_tbl(ir), _tbl(ir), _n(ns, 0), True), [_n(ns, 0), True]),
    'TableMultiWayZipJoin': lambda ir, hl, ns, t, ht: (ir.TableMultiWayZipJoin([_tbl(ir), _tbl(ir)], _n(ns, 0), _n(ns, 1)),
                                                       [_n(ns, 0), _n(ns, 1)]),
    'CastMatrixToTable': lambda ir, hl, ns, t, ht: (ir.CastMatrixToTable(_mt(ir), _n(ns, 0), _n(ns, 1)), [_n(ns, 0), _n(ns, 1)]),
    'MatrixKeyRowsBy': lambda ir, hl, ns, t, ht: (ir.MatrixKeyRowsBy(_mt(ir), list(ns), False), [list(ns), False]),
    'MatrixExplodeRows': lambda ir, hl, ns, t, ht: (ir.MatrixExplodeRows(_mt(ir), list(ns)), [list(ns)]),
    'MatrixExplodeCols': lambda ir, hl, ns, t, ht: (ir.MatrixExplodeCols(_mt(ir), list(ns)), [list(ns)]),
    'MatrixAnnotateRowsTable': lambda ir, hl, ns, t, ht: (ir.MatrixAnnotateRowsTable(_mt(ir), _tbl(ir), _n(ns, 0), False), [_n(ns, 0), False]),
    'MatrixAnnotateColsTable': lambda ir, hl, ns, t, ht: (ir.MatrixAnnotateColsTable(_mt(ir), _tbl(ir), _n(ns, 0)), [_n(ns, 0)]),
    'CastTableToMatrix': lambda ir, hl, ns, t, ht: (ir.CastTableToMatrix(_tbl(ir), _n(ns, 0), _n(ns, 1), [_n(ns, 2)]),
                                                    [_n(ns, 0), _n(ns, 1), [_n(ns, 2)]]),
    'MatrixRename': lambda ir, hl, ns, t, ht: (ir.MatrixRename(_mt(ir), {_n(ns, 0): _n(ns, 1)}, {}, {_n(ns, 2): _n(ns, 0)}, {_n(ns, 1): _n(ns, 2)}),
                                               [[_n(ns, 0)], [_n(ns, 1)], [], [], [_n(ns, 2)], [_n(ns, 0)], [_n(ns, 1)], [_n(ns, 2)]]),
    'MatrixUnionCols': lambda ir, hl, ns, t, ht: (ir.MatrixUnionCols(_mt(ir), _mt(ir), 'inner'), ['inner']),
}
TYPE_HEADS = ('NA', 'Cast')


class HeadReader:
    """the sub-parsers of the Scala IR parser over the token list of the lexer transcription"""

    def __init__(self, toks, utf16, type_tokens):
        self.toks = toks
        self.i = 0
        self.utf16 = utf16
        self.type_tokens = type_tokens      # case type tree -> expected token list

    def next(self, what):
        if self.i >= len(self.toks):
            raise HeadMismatch(f'no more tokens where {what} is expected')
        t = self.toks[self.i]
        self.i += 1
        return t

    def peek(self):
        return self.toks[self.i] if self.i < len(self.toks) else None

    def punct(self, c):
        t = self.next(f"'{c}'")
        if t != ('punct', c):
            raise HeadMismatch(f"expected punctuation '{c}' but found {t!r}")

    def ident_units(self):
        t = self.next('an identifier')
        if t[0] != 'id':
            raise HeadMismatch(f'expected identifier but found {t!r}')
        return t[1]

    def seq(self, f):                       # base_seq_parser
        self.punct('(')
        out = []
        while self.peek() != ('punct', ')'):
            out.append(f())
        self.punct(')')
        return out

    def read(self, atom, expected):
        """reads one argument; returns None if it is what the node was built from, else a description"""
        u = lambda s: tuple(self.utf16(s))
        if atom.startswith('opt:'):
            if self.peek() == ('id', u('None')):
                self.i += 1
                return None if expected is None else f'read None, expected {expected!r}'
            if expected is None:
                return f'expected None, found {self.peek()!r}'
            return self.read(atom[4:], expected)
        if atom in ('identifier', 'name'):
            got = self.ident_units()
            return None if got == u(expected) else f'identifier read as {got!r}, expected {u(expected)!r} ({expected!r})'
        if atom in ('identifiers', 'names'):
            got = self.seq(self.ident_units)
            return None if got == [u(n) for n in expected] else f'identifiers read as {got!r}, expected {[u(n) for n in expected]!r}'
        if atom == 'boolean_literal':
            got = self.ident_units()
            if got not in (u('True'), u('False')):
                raise HeadMismatch(f'expected boolean but found identifier {got!r}')
            return None if (got == u('True')) == expected else f'boolean read as {got!r}, expected {expected}'
        if atom in ('int32_literal', 'int64_literal'):
            t = self.next('an integer')
            if t[0] != 'int':
                raise HeadMismatch(f'expected integer but found {t!r}')
            return None if t[1] == expected else f'integer read as {t[1]}, expected {expected}'
        if atom == 'string_literal':
            t = self.next('a string')
            if t[0] != 'string':
                raise HeadMismatch(f'expected string but found {t!r}')
            return None if t[1] == u(expected) else f'string read as {t[1]!r}, expected {u(expected)!r} ({expected!r})'
        if atom == 'string_literals':
            def one():
                t = self.next('a string')
                if t[0] != 'string':
                    raise HeadMismatch(f'expected string but found {t!r}')
                return t[1]
            got = self.seq(one)
            return None if got == [u(n) for n in expected] else f'strings read as {got!r}, expected {[u(n) for n in expected]!r}'
        if atom == 'sort_fields':
            got = []
            for units in self.seq(self.ident_units):
                # sort_field: sortField.substring(1) is the field, sortField.substring(0, 1) the order
                got.append((units[1:], units[:1]))
            want = [(u(f), u(o)) for f, o in expected]
            return None if got == want else f'sort fields read as {got!r}, expected {want!r}'
        if atom == 'type_expr':
            want = self.type_tokens(expected)
            got = self.toks[self.i:self.i + len(want)]
            self.i += len(want)
            return None if got == want else f'type read as {got!r}, expected {want!r}'
        raise HeadMismatch(f'unknown sub-parser {atom}')


def check_head(head, spec, node, expected, lexer, lexfail, utf16, type_tokens):
    """None if the engine reads from `node.head_str()` exactly what the node was built from, else a description"""
    text = node.head_str()
    try:
        toks = lexer.tokens(text)
    except lexfail as e:
        return f'({head} {text}): the engine lexer fails ({e})'
    rd = HeadReader(toks, utf16, type_tokens)
    try:
        if len(spec) != len(expected):
            return f'({head} …): the Scala clause reads {spec}, the check supplies {len(expected)} expected values'
        for atom, exp in zip(spec, expected):
            why = rd.read(atom, exp)
            if why:
                return f'({head} {text}): {why}'
    except HeadMismatch as e:
        return f'({head} {text}): the engine parser fails: {e}'
    if rd.i != len(toks):
        return f'({head} {text}): {len(toks) - rd.i} tokens left after the head arguments: {toks[rd.i:]!r}'
    return None

"""C18 Batch DSL resource plumbing is consistent.

Real code driven: `hailtop.batch.Batch` / `BashJob` (read_input, read_input_group, new_job, declare_resource_group, command,
add_extension, write_output) and `ServiceBackend._async_run`, against a fake `aioclient` Batch/BatchClient that records the
`create_job` kwargs; `secret_alnum_string` and `uuid` are deterministic.  Model: HailVerif.BatchDsl.
"""
import asyncio
import contextlib
import io
import json
import re
import shlex
import warnings

from .. import loader
from ..framework import Prop


def hx(s):
    return s.encode().hex() if s else '-'


def verif_count_lines(*paths):
    """the function the generated PythonJobs call (never executed: only its source and its arguments are submitted)"""
    return len(paths)


class FakeJob:
    def __init__(self, idx, kw):
        self.idx = idx
        self.kw = kw
        self.id = idx
        self.job_id = idx


class FakeAsyncBatch:
    def __init__(self):
        self.jobs = []
        self.id = 1

    def create_job(self, **kw):
        j = FakeJob(len(self.jobs) + 1, kw)
        self.jobs.append(j)
        return j

    async def submit(self, **kw):
        return None


class FakeClient:
    def __init__(self):
        self.batches = []

    def create_batch(self, **kw):
        b = FakeAsyncBatch()
        self.batches.append(b)
        return b

    async def close(self):
        return None


class FakeFs:
    """the remote file system PythonJob._compile uploads its pickled function / arguments to"""

    def __init__(self):
        self.written = []

    async def close(self):
        return None

    async def makedirs(self, url, exist_ok=False):
        return None

    async def write(self, url, data):
        self.written.append((url, data))


class PickleDill:
    """stand-in for `dill` inside hailtop.batch.batch: what PythonJob._compile serialises must be readable by the check"""

    @staticmethod
    def dump(obj, f, recurse=False, **kw):
        import pickle
        pickle.dump(obj, f)

    @staticmethod
    def load(f):
        import pickle
        return pickle.load(f)


def norm_arg(a):
    """call arguments: ['r', ref] | ['l', [ref…]] | ['d', [[key, ref]…]] | ['v', int]; a bare ref (older cases) means ['r', ref]"""
    return a if a[0] in ('r', 'l', 'd', 'v') else ['r', a]


def arg_refs(a):
    a = norm_arg(a)
    if a[0] == 'r':
        return [a[1]]
    if a[0] == 'l':
        return list(a[1])
    if a[0] == 'd':
        return [r for _, r in a[1]]
    return []


K_DIGIT = 'C18:reference-followed-by-digit'
K_BASENAME = 'C18:input-group-files-share-basename'
K_EXT = 'C18:add_extension-after-mention'


class C18(Prop):
    id = 'C18'
    title = 'Batch DSL resource plumbing is consistent'
    lean_props = ['HailVerif.Props.C18']
    driver = 'Driver/C18.lean'
    engine = 'E5-dsl'
    design_ref = 'DESIGN.md §4 C18'
    technique = ('Lean 4 theorems about an executable model of uids, paths, the regular-expression tokenizer of _interpolate_command, the '
                 'handler\'s bookkeeping and the service backend\'s per-job plan + differential correspondence with the real Batch/BashJob/'
                 'ServiceBackend._async_run against a recording fake client')
    level_text = ('Theorems: paths are injective in (directory, value); under the tokenizer\'s maximal-munch reading every reference is '
                  'replaced by ${BATCH_TMPDIR}+quote(path) and every other character is unchanged; for every program of the modelled DSL the '
                  'producer uploads a job resource file to exactly the location the consumer downloads it from and the consumer is submitted as '
                  'a child of the producer. Three full statements are refuted on witnesses found on the unchanged tree (reference followed by '
                  'a digit; two files of an input group with the same basename; add_extension after the resource was mentioned) and proved '
                  'under the excluding hypotheses. The model is tied to the real code by differential runs of generated pipelines on every run.')
    level_note = ('Trusted: Lean kernel; the hand-written model covers the BashJob subset of the DSL (no cloudfuse) '
                  'plus PythonJob.call with resource arguments (its PythonResult and pickled code files are not modelled) and agrees with the real classes only as far as the correspondence cases show; what the worker does with input_files / '
                  'output_files is C22/C23; shell execution of the command is not modelled.')
    budget = {'quick': 1500, 'thorough': 25000}
    search_budget = {'quick': 3000, 'thorough': 20000}
    rule = ('case = a DSL program: read_input / read_input_group (1-3 files; cloud URLs and LOCAL paths, the same local path often read '
            'several times), 1-4 bash jobs (names: none, short, equal, 240-260 characters, '
            'with characters safe_str rewrites) with optional declare_resource_group, 1-2 commands '
            'each built from text fragments and references (item access j[\'…\'] with identifiers from a wide alphabet: colon, space, slash, dots, '
            'leading dash, quotes, $, *, tab, upper/lower case, non-ASCII, 201 characters — in families that collide under plausible '
            'normalisations; inputs, group members, own and earlier jobs\' resources, whole groups), '
            'PythonJobs calling a function with resource arguments; PythonResult conversions (as_str / as_repr / as_json, often several of '
            'one result) consumed by bash commands, python calls and write_output; single-member references of job-declared groups (bash and python) are '
            'frequent; add_extension, write_output; executed on the real classes, then ServiceBackend._async_run with a recording client; compared per '
            'job: interpolated commands, input_files, output_files, parents, input-group symlinks (sets sorted, tmpdirs canonicalised); '
            'non-trivial = at least one job consumes another job\'s resource; distinct by full case')
    trusted = ['fake aioclient Batch/BatchClient recording create_job kwargs', 'deterministic secret_alnum_string ("tk<n>") and uuid4',
               'ServiceBackend built without __init__ (no cloud credentials): remote_tmpdir, regions and the client are set by hand; '
               'validate_file is a no-op; rich.progress.track / get_deploy_config / copy_from_dict replaced by inert stand-ins']
    assumptions = ['ASCII command texts and job names (Python \\d and str.isalnum are Unicode-aware); identifiers may be any string', 'BashJob pipelines; inputs given by URL',
                   'secret_alnum_string never repeats a token', 'commands below 10 KiB (no code.sh upload)']

    # ------------------------------------------------------------------------------------------ setup
    def setup(self, repo):
        loader.install(repo)
        import hailtop.batch as hb
        import hailtop.batch.backend as backend
        import hailtop.batch.batch as batchmod
        import hailtop.batch.job as jobmod
        import hailtop.batch.resource as resource
        from hailtop.batch.exceptions import BatchException
        self.hb, self.backend, self.batchmod, self.jobmod, self.resource = hb, backend, batchmod, jobmod, resource
        self.BatchException = BatchException
        self.loop = asyncio.new_event_loop()
        self._cache = {}

        class DC:
            def external_url(self, *a):
                return 'http://batch.invalid/'
        backend.track = lambda it, **kw: it
        batchmod.dill = PickleDill      # the real dill is not installed; only dump() of plain tuples / a module-level function is needed
        backend.get_deploy_config = lambda: DC()

        self._uploads = []

        async def fake_copy_from_dict(files, **kw):
            self._uploads += [(d['from'], d['to']) for d in files]      # the client-side upload of local inputs
        backend.copy_from_dict = fake_copy_from_dict

    # ------------------------------------------------------------------------------------------ generation
    TEXTS = ['cat ', ' > ', ' | wc -l > ', ' --out_dir=', ' ', '; echo done_1 ', ' x_y ', 'plink --bfile ', ' --out ', ' && touch ', ".bam ",
             ' "quoted arg" ', ' _tail', ' a__b ', ' $HOME/', ' -n 5 ']
    IN_PATHS = ['gs://in/data.txt', 'gs://in/x/f.txt', 'gs://in/y/f.txt', 'gs://in/dir/ref.fa', 'gs://in/dir/ref.fa.fai', 'gs://in/my file.txt',
                "gs://in/it's.txt", 'gs://other/x/g.bed', 'gs://in/trailing/']
    LOCAL_PATHS = ['/data/ref.fa', '/data/ref.fa', 'data/rel.txt', 'file:///data/s.txt', '/data/other/ref.fa']
    ATTRS = ['ofile', 'out', 'x', 'tmp1', 'res_2']
    # identifiers only reachable through j['…'], in pairs / triples that collide under plausible "clean-ups" of the file name:
    # non-alphanumerics -> '_', lower-casing, stripping, truncation, unicode folding, path normalisation
    WIDE = [['chr1:100', 'chr1_100', 'chr1 100'], ['out 1', 'out_1'], ['Sample', 'sample', 'SAMPLE'], ['trail ', 'trail', ' trail'],
            ['a/b', 'a_b', 'a//b'], ['.hidden', '_hidden', 'hidden'], ['-lead', '_lead'], ["it's", 'it_s', 'it"s'], ['x*y', 'x?y', 'x_y'],
            ['\u00e9t\u00e9', 'ete', 'e\u0301te\u0301'], ['n' * 200 + 'A', 'n' * 200 + 'B'], ['a.b', 'a_b', 'a..b'], ['$HOME', '_HOME'],
            ['stra\u00dfe', 'strasse'], ['tab\there', 'tab here', 'tab_here']]
    TEMPLATES = ['{root}.bed', '{root}.bim', '{root}', '{root}.vcf.gz', '{root}.vcf.gz.tbi', 'fixed.txt', '{root}.v{root}']

    NAMES = [None, 'p', 'c', 'c', 'align', 'my job!', 'x-1', 'a/b c.d', 'x_y-z', 'p']

    def _job_name(self, rng, long_name):
        r = rng.random()
        if r < 0.22:
            return long_name                                   # equal long names within one program
        if r < 0.27:
            return long_name[:rng.choice([200, 243, 246])] + rng.choice(['', 'x', '/y'])
        return rng.choice(self.NAMES)                          # short, often equal, some with characters safe_str rewrites

    def _foreign_ref(self, rng, j, jobs, handles, inputs=True, whole=0.3):
        """a reference job j makes to something it does not own: an earlier job's resource (file, whole declared group, or —
        most often when there is a group — a SINGLE member of it) or an input"""
        results = [(p, k) for p in range(j) for k in range(jobs[p].get('calls', 0))]
        if results and rng.random() < 0.45:
            # a converted PythonResult; the same result is often converted in several ways within one program
            p, k = rng.choice(results)
            done = jobs[p].setdefault('convs', {}).setdefault(k, set())
            missing = [c for c in ('str', 'repr') if c not in done]
            conv = rng.choice(missing) if done and missing and rng.random() < 0.7 else rng.choice(['str', 'repr', 'str', 'repr', 'json'])
            done.add(conv)
            return ['c', p, k, conv]
        if inputs and handles and rng.random() < 0.25:
            k = rng.randrange(len(handles))
            if handles[k][0] == 'group' and rng.random() < 0.45:
                return ['m', k, rng.choice(handles[k][1])]
            return ['h', k]
        p = rng.randrange(j)
        groups = sorted(a for a, k in jobs[p]['attrs'].items() if k != 'file' and a in jobs[p]['valid'])
        if groups and rng.random() < 0.6:
            a = rng.choice(groups)
            if rng.random() >= whole:
                return ['b', p, a, rng.choice(jobs[p]['attrs'][a][1])]       # one member only
            return ['a', p, a]                                               # the whole group
        pool = sorted(jobs[p]['valid']) if rng.random() < 0.95 else self.ATTRS
        if not pool:
            return None
        a = rng.choice(pool)
        kind = jobs[p]['attrs'].get(a, 'file')
        if kind != 'file' and rng.random() < 0.5:
            return ['b', p, a, rng.choice(kind[1])]
        jobs[p]['attrs'].setdefault(a, 'file')
        return ['a', p, a]

    def _sprinkle_mutations(self, rng, prog, long_name):
        """what a user may set on a job after the fact — `j.name = …` above all (the name feeds the scratch directory at creation
        time only), also always_run / image / cpu / attributes — at random points after the job was created: before or after its
        declare_resource_group, its commands, and the commands of its consumers"""
        if rng.random() > 0.35:
            return
        for _ in range(rng.choice([1, 1, 2, 3])):
            created = [i for i, s in enumerate(prog) if s['op'] in ('job', 'pyjob')]
            if not created:
                return
            jidx = rng.randrange(len(created))
            pos = rng.randint(created[jidx] + 1, len(prog))
            if rng.random() < 0.7:
                name = rng.choice(['align-sample-17', 'renamed', None, 'x y/z', long_name, long_name[:244] + 'Z'])
                prog.insert(pos, {'op': 'rename', 'j': jidx, 'name': name})
            else:
                prog.insert(pos, {'op': 'touch', 'j': jidx, 'what': rng.choice(['always_run', 'image', 'cpu', 'attributes'])})

    def _random_case(self, rng):
        prog = []
        handles = []          # ('file',) | ('group', idents)
        local_heavy = rng.random() < 0.3        # the per-sample loop: the same local file read again and again
        for _ in range(rng.choice([2, 3, 4]) if local_heavy else rng.choice([0, 1, 1, 2])):
            pool = self.LOCAL_PATHS if (local_heavy and rng.random() < 0.8) or rng.random() < 0.1 else self.IN_PATHS
            if rng.random() < (0.7 if local_heavy else 0.5):
                prog.append({'op': 'input', 'path': rng.choice(pool)})
                handles.append(('file',))
            else:
                k = rng.choice([1, 2, 2, 3])
                paths = rng.sample(sorted(set(pool)) + self.IN_PATHS[:2], k)
                if rng.random() > 0.04:
                    seen, paths2 = set(), []
                    for p in paths:                          # keep basenames distinct unless deliberately colliding
                        b = p.rstrip('/').split('/')[-1]
                        if b not in seen:
                            seen.add(b)
                            paths2.append(p)
                    paths = paths2
                idents = rng.sample(['a', 'b', 'fasta', 'idx'], len(paths))
                prog.append({'op': 'igroup', 'files': [[i, p] for i, p in zip(idents, paths)]})
                handles.append(('group', idents))
        njobs = rng.choice([1, 2, 2, 3, 3, 4])
        # one long name per program: jobs created in a per-sample loop share it (equal names, 240..260 characters)
        long_name = ('sample-NA12878_chr20.' * 14)[:rng.choice([240, 244, 245, 246, 247, 248, 249, 250, 251, 255, 260])]
        jobs = []             # per job: dict(attrs={name: 'file'|('group', idents)}, valid=set(names), ext=set())
        for j in range(njobs):
            name = self._job_name(rng, long_name)
            info = {'attrs': {}, 'valid': set(), 'ext': set(), 'calls': 0}
            if (j > 0 and rng.random() < 0.2) or (j == 0 and rng.random() < 0.06):
                # a PythonJob whose call gets resources of earlier jobs / inputs as arguments
                prog.append({'op': 'pyjob', 'name': name})
                jobs.append(info)
                for _ in range(rng.choice([1, 1, 1, 2])):
                    args = []
                    for _ in range(rng.choice([1, 1, 2, 3])):
                        shape = rng.random()
                        refs = [r for r in (self._foreign_ref(rng, j, jobs, handles, whole=0.6) for _ in range(rng.choice([1, 2, 3])))
                                if r] if j > 0 else []
                        if shape < 0.1:
                            args.append(['v', rng.randint(0, 99)])
                        elif not refs:
                            continue
                        elif shape < 0.7:
                            args.append(['r', refs[0]])
                        elif shape < 0.85:
                            args.append(['l', refs])
                        else:
                            args.append(['d', [[f'k{i}', r] for i, r in enumerate(refs)]])
                    prog.append({'op': 'pycall', 'j': j, 'args': args})
                    info['calls'] += 1
                continue
            prog.append({'op': 'job', 'name': name})
            jobs.append(info)
            wide = rng.choice(self.WIDE) if rng.random() < 0.3 else None     # this job uses a family of near-identical identifiers
            if rng.random() < 0.35:
                gname = rng.choice(['out', 'tmp1', 'grp'])
                idents = rng.sample(['bed', 'bim', 'fam', 'log'], rng.choice([1, 2, 3]))
                # the user names the files of a group: distinct names (two identical names are the user's own collision)
                temps = rng.sample(self.TEMPLATES, len(idents)) if rng.random() < 0.3 else rng.sample(self.TEMPLATES[:5], len(idents))
                prog.append({'op': 'rgroup', 'j': j, 'gname': gname, 'files': [[i, t] for i, t in zip(idents, temps)]})
                info['attrs'][gname] = ('group', idents)
                info['valid'].add(gname)
            if rng.random() < 0.1:
                a = rng.choice(self.ATTRS)
                if a not in info['attrs']:
                    prog.append({'op': 'ext', 'j': j, 'name': a, 'ext': rng.choice(['.txt', '.vcf.bgz'])})
                    info['attrs'][a] = 'file'
                    info['ext'].add(a)
            for _ in range(rng.choice([1, 1, 2])):
                pieces = [['t', rng.choice(['cat ', 'echo ', 'plink --bfile ', 'wc '])]]
                for _ in range(rng.choice([1, 2, 2, 3, 4])):
                    r = rng.random()
                    ref = None
                    if r < 0.25 and handles:
                        k = rng.randrange(len(handles))
                        if handles[k][0] == 'group' and rng.random() < 0.4:
                            ref = ['m', k, rng.choice(handles[k][1]) if rng.random() < 0.97 else 'nope']
                        else:
                            ref = ['h', k]
                    elif r < 0.6 and j > 0:
                        ref = self._foreign_ref(rng, j, jobs, handles, inputs=False)
                    if ref is None and wide is not None and rng.random() < 0.75:
                        a = rng.choice(wide)
                        ref = ['a', j, a]
                        info['attrs'].setdefault(a, 'file')
                        info['valid'].add(a)
                    if ref is None:
                        a = rng.choice(self.ATTRS + sorted(info['attrs']))
                        kind = info['attrs'].get(a, 'file')
                        if kind != 'file' and rng.random() < 0.5:
                            ref = ['b', j, a, rng.choice(kind[1])]
                        else:
                            ref = ['a', j, a]
                            info['attrs'].setdefault(a, 'file')
                        info['valid'].add(a)
                    pieces.append(ref)
                    t = rng.choice(self.TEXTS)
                    if rng.random() < 0.006:
                        t = rng.choice(['2', '0 ', '12.txt'])            # the digit adjacency
                    if rng.random() < 0.1:
                        t = ''
                    if t:
                        pieces.append(['t', t])
                prog.append({'op': 'cmd', 'j': j, 'pieces': pieces})
            if rng.random() < 0.02:
                cand = [a for a, k in info['attrs'].items() if k == 'file' and a not in info['ext']]
                if cand:
                    a = rng.choice(sorted(cand))
                    prog.append({'op': 'ext', 'j': j, 'name': a, 'ext': '.txt'})
                    info['ext'].add(a)
        self._sprinkle_mutations(rng, prog, long_name)
        for _ in range(rng.choice([0, 1, 1, 2])):
            r = rng.random()
            results = [(p, k) for p in range(njobs) for k in range(jobs[p].get('calls', 0))]
            if r < 0.15 and handles:
                ref = ['h', rng.randrange(len(handles))]
            elif r < 0.45 and results:
                p, k = rng.choice(results)
                ref = ['c', p, k, rng.choice(['str', 'repr', 'json'])]
            else:
                p = rng.randrange(njobs)
                pool = sorted(jobs[p]['valid']) if rng.random() < 0.95 else self.ATTRS
                if not pool:
                    continue
                ref = ['a', p, rng.choice(pool)]
            prog.append({'op': 'out', 'ref': ref, 'dest': rng.choice(['gs://res/out', 'gs://res/x.txt', 'gs://res/dir/final'])})
        return {'prog': prog}

    def _triggers(self, c):
        return [k for k, rep in ((K_DIGIT, self._repair_digit), (K_BASENAME, self._repair_basename), (K_EXT, self._repair_ext))
                if rep(c) is not None]

    def cases(self, rng, n, tier):
        made = 0
        while made < n:
            c = self._random_case(rng)
            if len(self._triggers(c)) > 1:
                continue          # at most one of the three known defect triggers per generated program
            made += 1
            yield c

    # ------------------------------------------------------------------------------------------ model side
    @staticmethod
    def _ref_tok(r):
        if r[0] == 'h':
            return f'H{r[1]}'
        if r[0] == 'm':
            return f'M{r[1]}.{hx(r[2])}'
        if r[0] == 'a':
            return f'A{r[1]}.{hx(r[2])}'
        if r[0] == 'c':
            return f'X{r[1]}.{r[2]}.{r[3][0]}'          # (result of call k of python job j).as_json/as_str/as_repr()
        return f'B{r[1]}.{hx(r[2])}.{hx(r[3])}'

    def model_lines(self, c):
        out = []
        for s in c['prog']:
            op = s['op']
            if op == 'input':
                out.append(f"I {hx(s['path'])}")
            elif op == 'igroup':
                out.append('G ' + (','.join(f'{hx(i)}={hx(p)}' for i, p in s['files']) or '-'))
            elif op == 'job':
                out.append(f"J {hx(s['name']) if s['name'] else '-'}")
            elif op == 'rgroup':
                out.append(f"D {s['j']} {hx(s['gname'])} " + (','.join(f'{hx(i)}={hx(t)}' for i, t in s['files']) or '-'))
            elif op == 'cmd':
                out.append(f"C {s['j']} " + ' '.join(('T' + hx(p[1])) if p[0] == 't' else self._ref_tok(p) for p in s['pieces']))
            elif op == 'ext':
                out.append(f"E {s['j']} {hx(s['name'])} {hx(s['ext'])}")
            elif op == 'out':
                out.append(f"W {self._ref_tok(s['ref'])} {hx(s['dest'])}")
            elif op == 'rename':
                out.append(f"N {s['j']} {hx(s['name']) if s['name'] else '-'}")
            elif op == 'touch':
                out.append(f"N {s['j']} -")           # always_run / image / cpu / attributes: no path-relevant effect either
            elif op == 'pyjob':
                out.append(f"P {hx(s['name']) if s['name'] else '-'}")
            elif op == 'pycall':
                toks = []
                for a in map(norm_arg, s['args']):
                    if a[0] == 'r':
                        toks.append('R' + self._ref_tok(a[1]))
                    elif a[0] == 'l':
                        toks.append('L' + ','.join(self._ref_tok(r) for r in a[1]))
                    elif a[0] == 'd':
                        toks.append('K' + ','.join(f'{hx(k)}={self._ref_tok(r)}' for k, r in a[1]))
                    else:
                        toks.append('V' + hx(repr(a[1])))
                out.append(f"Y {s['j']} " + ' '.join(toks))
        return [' ; '.join(out)]

    # ------------------------------------------------------------------------------------------ real side
    def _resolve(self, env, r):
        if r[0] == 'h':
            return env['handles'][r[1]]
        if r[0] == 'm':
            return getattr(env['handles'][r[1]], r[2])
        if r[0] == 'a':
            return env['jobs'][r[1]][r[2]]          # item access: any string is an identifier (j.x is j['x'])
        if r[0] == 'c':
            return getattr(env['results'][r[1]][r[2]], 'as_' + r[3])()
        return env['jobs'][r[1]][r[2]][r[3]]

    def _run(self, c):
        key = json.dumps(c, sort_keys=True)
        if key in self._cache:
            return self._cache[key]
        res = self._run_uncached(c)
        if len(self._cache) > 20000:
            self._cache.clear()
        self._cache[key] = res
        return res

    def _run_uncached(self, c):
        hb, backend, batchmod, jobmod, resource = self.hb, self.backend, self.batchmod, self.jobmod, self.resource
        resource.ResourceFile._counter = 0
        resource.ResourceGroup._counter = 0
        jobmod.Job._counter = 1
        tok = [0]

        def fake_secret(n=22, **kw):
            tok[0] += 1
            return f'tk{tok[0]}'
        saved_secret = batchmod.secret_alnum_string
        saved_uuid = backend.uuid

        class FakeUuid:
            n = 0

            @staticmethod
            def uuid4():
                FakeUuid.n += 1

                class H:
                    hex = f'{FakeUuid.n:032x}'[::-1]
                return H
        batchmod.secret_alnum_string = fake_secret
        backend.uuid = FakeUuid
        be = backend.ServiceBackend.__new__(backend.ServiceBackend)
        be.remote_tmpdir = 'gs://tmp/rt'
        be.regions = ['r1']
        client = FakeClient()
        be._ServiceBackend__batch_client = client
        fakefs = FakeFs()
        be._ServiceBackend__fs = fakefs
        be._closed = True
        be.close = lambda: None    # Backend.__del__ -> close() would run a nested event loop during garbage collection

        async def no_validate(uri, rp=None):
            return None
        be.validate_file = no_validate
        env = {'handles': [], 'jobs': [], 'results': {}}
        self._uploads = []
        mentions = []       # (job index, command index, pieces with resolved resource objects)
        out_stmts = []
        pycalls = []        # (job index, call index, the argument objects as passed)
        asyncio.set_event_loop(self.loop)
        try:
            with warnings.catch_warnings():
                warnings.simplefilter('ignore')
                try:
                    b = hb.Batch(backend=be, name='verif', default_python_image='hailgenetics/python-dill:3.11-slim')
                    for s in c['prog']:
                        op = s['op']
                        if op == 'input':
                            env['handles'].append(b.read_input(s['path']))
                        elif op == 'igroup':
                            env['handles'].append(b.read_input_group(**{i: p for i, p in s['files']}))
                        elif op == 'job':
                            env['jobs'].append(b.new_job(name=s['name']))
                        elif op == 'rename':
                            env['jobs'][s['j']].name = s['name']
                        elif op == 'touch':
                            j = env['jobs'][s['j']]
                            if s['what'] == 'always_run':
                                j.always_run()
                            elif s['what'] == 'image':
                                j.image('ubuntu:22.04')
                            elif s['what'] == 'cpu':
                                j.cpu(2)
                            else:
                                j.attributes = {'sample': 'NA12878'}
                        elif op == 'pyjob':
                            env['jobs'].append(b.new_python_job(name=s['name']))
                        elif op == 'pycall':
                            j = env['jobs'][s['j']]
                            args, flat = [], []
                            for a in map(norm_arg, s['args']):
                                if a[0] == 'r':
                                    args.append(self._resolve(env, a[1]))
                                    flat.append(args[-1])
                                elif a[0] == 'l':
                                    args.append([self._resolve(env, r) for r in a[1]])
                                    flat += args[-1]
                                elif a[0] == 'd':
                                    args.append({k: self._resolve(env, r) for k, r in a[1]})
                                    flat += list(args[-1].values())
                                else:
                                    args.append(a[1])
                            mentions.append((s['j'], None, [('r', a) for a in flat]))
                            pycalls.append((s['j'], len(j._function_calls), args))
                            env['results'].setdefault(s['j'], []).append(j.call(verif_count_lines, *args))
                        elif op == 'rgroup':
                            env['jobs'][s['j']].declare_resource_group(**{s['gname']: {i: t for i, t in s['files']}})
                        elif op == 'cmd':
                            j = env['jobs'][s['j']]
                            resolved = []
                            text = ''
                            for p in s['pieces']:
                                if p[0] == 't':
                                    resolved.append(('t', p[1]))
                                    text += p[1]
                                else:
                                    r = self._resolve(env, p)
                                    resolved.append(('r', r))
                                    text += f'{r}'
                            if text.strip() != '':          # BashJob.command ignores a blank command (with a warning)
                                mentions.append((s['j'], len(j._command), resolved))
                            j.command(text)
                        elif op == 'ext':
                            env['jobs'][s['j']][s['name']].add_extension(s['ext'])
                        elif op == 'out':
                            r = self._resolve(env, s['ref'])
                            b.write_output(r, s['dest'])
                            out_stmts.append((r, s['dest']))
                    with contextlib.redirect_stdout(io.StringIO()):
                        self.loop.run_until_complete(be._async_run(b, False, False, False, wait=False, disable_progress_bar=True))
                except self.BatchException as e:
                    return {'status': 'err BatchException', 'detail': str(e)}
                except (AssertionError, AttributeError, IndexError) as e:
                    return {'status': 'err notDsl', 'detail': repr(e)}
                except Exception as e:  # noqa: BLE001
                    return {'status': f'err {type(e).__name__}', 'detail': repr(e)}
        finally:
            batchmod.secret_alnum_string = saved_secret
            backend.uuid = saved_uuid
        fb = client.batches[0]
        uid6 = f'{1:032x}'[::-1][:6]
        remote, local = f'gs://tmp/rt/{uid6}', f'/io/batch/{uid6}'

        uuid_dir = re.compile(re.escape(remote) + r'/[0-9a-f]{8}/inputs/')

        def canon(s):
            # the fresh uuid directory of a local-input upload is written @U (which uuid a job gets depends on set order)
            return uuid_dir.sub('$R/@U/inputs/', s).replace(remote, '$R').replace(local, '$L')
        by_async = {id(fj): fj for fj in fb.jobs}
        jobs = []
        xin = []
        for fj in fb.jobs:
            if (fj.kw.get('attributes') or {}).get('name') == 'write_external_inputs':
                xin = [(d['from'], d['to']) for d in json.loads(fj.kw['command'][-1])]
        for idx, j in enumerate(env['jobs']):
            fj = by_async[id(j._client_job._async_job)]
            kw = fj.kw
            parents = []
            for p in kw.get('parents') or []:
                parents.append(next(i for i, jj in enumerate(env['jobs']) if jj._client_job._async_job is p))
            cmd = kw['command'][2]
            syms = []
            for line in cmd.split('\n'):
                if line.startswith('ln -sf '):
                    for part in line.split('; '):
                        a = shlex.split(part)
                        syms.append((a[2], a[3]))
            ins = [tuple(x) for x in (kw.get('input_files') or [])]
            # the pickled function / argument files a PythonJob reads are uploaded by the client itself, not by a job
            code_in = [x for x in ins if x[0].startswith(remote + '/') and x[0].endswith('.p') and
                       ('/functions/code' in x[0] or '/args/code' in x[0])]
            jobs.append({'cmds': list(j.__dict__.get('_command', [])), 'cmd': cmd, 'in': [x for x in ins if x not in code_in], 'code_in': code_in,
                         'out': [tuple(x) for x in (kw.get('output_files') or [])], 'par': parents, 'sym': syms,
                         'python': '_command' not in j.__dict__})      # never getattr(): Job.__getattr__ creates resources
        # what each PythonJob's function will be handed: the pickled (args, kwargs) the job loads from <job dir>/args/code<i>.p
        import pickle
        for idx, j in enumerate(env['jobs']):
            handed = {}
            for url, data in fakefs.written:
                pre = f'{remote}/{j._dirname}/args/code'
                if url.startswith(pre) and url.endswith('.p'):
                    handed[int(url[len(pre):-2])] = pickle.loads(data)[0]
            jobs[idx]['handed'] = [handed[i] for i in sorted(handed)]
        return {'status': 'ok', 'uploads': list(self._uploads), 'pycalls': pycalls, 'jobs': jobs, 'xin': xin, 'canon': canon, 'env': env, 'mentions': mentions, 'outs': out_stmts, 'batch': b,
                'local': local, 'remote': remote}

    def impl(self, c):
        r = self._run(c)
        if r['status'] != 'ok':
            return [r['status']]
        canon = r['canon']

        def pairs(ps):
            return ','.join(sorted(f'{canon(a)}>{canon(b)}' for a, b in ps)) or '-'
        parts = [f"ok xin={pairs(r['xin'])} xup={pairs(r['uploads'])}"]
        for i, j in enumerate(r['jobs']):
            cmds = ','.join(hx(x) for x in j['cmds']) or '-'
            par = ','.join(sorted(str(p) for p in set(j['par']))) or '-'
            parts.append(f"job{i} cmds={cmds} in={pairs(j['in'])} out={pairs(j['out'])} par={par} sym={pairs(j['sym'])} "
                         f"args={self._fmt_handed(j['handed'], canon)}")
        return [' | '.join(parts)]

    @staticmethod
    def _fmt_handed(calls, canon):
        def one(p):
            if p[0] == 'path':
                return 'p:' + canon(p[1])
            if p[0] == 'dict_path':
                return 'd:{' + '&'.join(f'{k}={canon(v)}' for k, v in p[1].items()) + '}'
            return f'?{p[0]}'

        def arg(p):
            if p[0] in ('path', 'dict_path'):
                return one(p)
            if p[0] == 'list':
                return 'l:[' + '|'.join(one(e) for e in p[1]) + ']'
            if p[0] == 'dict':
                return 'm:{' + '|'.join(f'{k}={one(v)}' for k, v in p[1].items()) + '}'
            if p[0] == 'value':
                return 'v:' + repr(p[1])
            return f'?{p[0]}'
        return ';'.join(','.join(arg(a) for a in args) for args in calls) if calls else '-'

    # ------------------------------------------------------------------------------------------ the property, executably
    def _check(self, c):
        """the property on the real run -> None or (category, message)"""
        r = self._run(c)
        if r['status'] != 'ok':
            return self._error_expected(c, r['status'])
        resource = self.resource
        jobs, env, local, remote = r['jobs'], r['env'], r['local'], r['remote']
        jidx = {id(j): i for i, j in enumerate(env['jobs'])}

        def files_of(res):
            if isinstance(res, resource.ResourceGroup):
                return list(res._resources.values())
            return [res]
        # (1) every reference is replaced by its quoted local path and nothing else changes
        for (ji, ci, pieces) in r['mentions']:
            if ci is None:
                continue                     # PythonJob.call: no command text
            expected = ''.join(p[1] if p[0] == 't' else '${BATCH_TMPDIR}' + shlex.quote(p[1]._get_path('')) for p in pieces)
            actual = jobs[ji]['cmds'][ci] if ci < len(jobs[ji]['cmds']) else None
            if actual != expected:
                return ('interp', f'job {ji} command {ci}: expected {expected!r}, submitted {actual!r}')
            if expected.strip() not in jobs[ji]['cmd']:
                return ('interp', f'job {ji} command {ci} is not part of the submitted shell command')
        # (1b) a bash command that names a whole *input* resource group reads <group path>.<identifier>: inside THIS job's container
        # each of these must be a link, created by this job's own command prefix, to a file this job downloads
        for (ji, ci, pieces) in r['mentions']:
            if ci is None:
                continue
            for p in pieces:
                if p[0] == 'r' and isinstance(p[1], resource.ResourceGroup) and p[1]._source is None:
                    root = p[1]._get_path(local)
                    dsts = {b for _, b in jobs[ji]['in']}
                    for ident, f in p[1]._resources.items():
                        link = (f._get_path(local), f'{root}.{ident}')
                        if link not in jobs[ji]['sym']:
                            return ('links', f'job {ji} command {ci} reads {root}.{ident} but its own command creates no link there '
                                             f'(links of this job: {jobs[ji]["sym"]})')
                        if link[0] not in dsts:
                            return ('links', f'job {ji}: {root}.{ident} links to {link[0]} but nothing is downloaded there')
        # (2)+(3) producer uploads where the consumer downloads; consumer is a child of the producer
        for (ji, ci, pieces) in r['mentions']:
            for p in pieces:
                if p[0] != 'r':
                    continue
                for f in files_of(p[1]):
                    src = f.source()
                    loc = f._get_path(local)
                    if src is None:
                        downloads = [a for a, b in jobs[ji]['in'] if b == loc]
                        if not downloads:
                            return ('plan', f'job {ji} reads input {f._input_path} at {loc} but nothing is downloaded there '
                                            f'(input_files: {jobs[ji]["in"]})')
                        for a in downloads:
                            if self._is_local(f._input_path):
                                if (f._input_path, a) not in r['uploads']:
                                    return ('plan', f'job {ji} downloads local input {f._input_path} from {a} but the client uploads it to '
                                                    f'{[t for s_, t in r["uploads"] if s_ == f._input_path]}')
                            elif a != f._input_path:
                                return ('plan', f'job {ji} reads input {f._input_path} but downloads {a} to {loc}')
                        continue
                    pi = jidx[id(src)]
                    if pi == ji:
                        continue
                    downloads = [a for a, b in jobs[ji]['in'] if b == loc]
                    if not downloads:
                        return ('plan', f'job {ji} reads {f} of job {pi} but does not download it to {loc}')
                    for a in downloads:
                        if (loc, a) not in jobs[pi]['out']:
                            return ('plan', f'job {ji} downloads {f} from {a} but job {pi} does not upload it there (uploads: {jobs[pi]["out"]})')
                    if pi not in jobs[ji]['par']:
                        return ('plan', f'job {ji} consumes {f} of job {pi} but is not submitted as its child (parents {jobs[ji]["par"]})')
        # every resource handed to a PythonJob's function is handed as the local path the job downloads that resource to
        for (ji, ci, args) in r['pycalls']:
            handed = jobs[ji]['handed']
            if ci >= len(handed) or len(handed[ci]) != len(args):
                return ('pyargs', f'job {ji} call {ci}: the pickled arguments do not match the call ({handed[ci:ci + 1]})')
            local_dsts = {b for _, b in jobs[ji]['in']}

            def check_one(a, h, where):
                if isinstance(a, resource.ResourceGroup):
                    if h[0] != 'dict_path' or list(h[1]) != list(a._resources):
                        return f'{where}: a resource group must be handed as a dict over its identifiers, got {h}'
                    for ident, f in a._resources.items():
                        want = f._get_path(local)
                        if h[1][ident] != want:
                            return f'{where}: member {ident!r} is handed as {h[1][ident]} but the job has it at {want}'
                        if f.source() is not env['jobs'][ji] and want not in local_dsts:
                            return f'{where}: member {ident!r} is handed as {want} but nothing is downloaded there'
                    return None
                want = a._get_path(local)
                if h != ('path', want):
                    return f'{where}: the file is handed as {h} but the job has it at {want}'
                if a.source() is not env['jobs'][ji] and want not in local_dsts:
                    return f'{where}: handed as {want} but nothing is downloaded there'
                return None
            for k, (a, h) in enumerate(zip(args, handed[ci])):
                where = f'job {ji} call {ci} argument {k}'
                if isinstance(a, list):
                    if h[0] != 'list' or len(h[1]) != len(a):
                        return ('pyargs', f'{where}: list handed as {h}')
                    msgs = [check_one(x, y, where) for x, y in zip(a, h[1])]
                elif isinstance(a, dict):
                    if h[0] != 'dict' or list(h[1]) != list(a):
                        return ('pyargs', f'{where}: dict handed as {h}')
                    msgs = [check_one(a[key], h[1][key], where) for key in a]
                elif isinstance(a, resource.Resource):
                    msgs = [check_one(a, h, where)]
                else:
                    msgs = [None if h == ('value', a) else f'{where}: value {a!r} handed as {h}']
                for m in msgs:
                    if m:
                        return ('pyargs', m)
        # the clause on the submitted specs themselves: whatever a job downloads from the batch's internal (remote tmpdir)
        # location must be uploaded to exactly that location by a job it is submitted as a child of
        for ci, cj in enumerate(jobs):
            uploaded = {t for _, t in r['uploads']}
            for src, dst in cj['in']:
                if not src.startswith(remote + '/') or src in uploaded:
                    continue              # downloaded from outside the batch, or uploaded by the client itself (local input)
                producers = [pi for pi, pj in enumerate(jobs) if pi != ci and (dst, src) in pj['out']]
                if not producers:
                    anywhere = [(pi, a) for pi, pj in enumerate(jobs) for a, b in pj['out'] if b == src]
                    return ('plan', f'job {ci} downloads {src} -> {dst} but no other job uploads {dst} to that location '
                                    f'(uploads to it: {anywhere})')
                if not any(pi in cj['par'] for pi in producers):
                    return ('plan', f'job {ci} downloads {src}, uploaded by job(s) {producers}, but is not their child (parents {cj["par"]})')
        # external outputs
        for res, dest in r['outs']:
            for f in files_of(res):
                d = dest if not isinstance(res, resource.ResourceGroup) else dest + '.' + next(k for k, v in res._resources.items() if v is f)
                src = f.source()
                if src is None:
                    if (f._input_path, d) not in r['xin']:
                        return ('plan', f'write_output of input {f._input_path} to {d} is not submitted')
                elif (f._get_path(local), d) not in jobs[jidx[id(src)]]['out']:
                    return ('plan', f'write_output({f}, {d}) is missing from the output_files of job {jidx[id(src)]}')
        # (4) distinct resources never share a path
        seen = {}
        for uid, res in r['batch']._resource_map.items():
            if isinstance(res, resource.ResourceGroup):
                continue
            p = res._get_path(local)
            if p in seen and seen[p] != uid:
                return ('path', f'distinct resources {seen[p]} and {uid} share the path {p}')
            seen[p] = uid
        return None

    def _error_expected(self, c, status):
        """a program that the DSL rejects: legitimate only for the documented reasons"""
        if status == 'err notDsl':
            return None if self._not_dsl(c) else ('error', f'the DSL raised an internal error on a legitimate program ({status})')
        if status != 'err BatchException':
            return ('error', f'the DSL raised {status}')
        return None if self._has_user_error(c) else ('error', 'BatchException on a program without a user error')

    # user errors the DSL documents: unknown group member, resource of another job that its owner never defined,
    # write_output of a never-mentioned job resource, second add_extension
    def _has_user_error(self, c):
        handles, jobs = [], []
        for s in c['prog']:
            op = s['op']
            if op == 'input':
                handles.append(None)
            elif op == 'igroup':
                handles.append([i for i, _ in s['files']])
            elif op in ('job', 'pyjob'):
                jobs.append({'groups': {}, 'valid': set(), 'ext': set(), 'attrs': set(), 'python': op == 'pyjob'})
            elif op == 'rgroup':
                jobs[s['j']]['groups'][s['gname']] = [i for i, _ in s['files']]
                jobs[s['j']]['valid'].add(s['gname'])
                jobs[s['j']]['attrs'].add(s['gname'])
            elif op in ('cmd', 'pycall'):
                for p in (s['pieces'] if op == 'cmd' else [r for a in s['args'] for r in arg_refs(a)]):
                    if p[0] == 'm' and p[2] not in (handles[p[1]] or []):
                        return True
                    if p[0] in ('a', 'b'):
                        owner = jobs[p[1]]
                        if p[0] == 'b' and p[3] not in owner['groups'].get(p[2], []):
                            return True
                        if p[1] != s['j'] and p[2] not in owner['valid']:
                            return True
                        owner['attrs'].add(p[2])
                        if p[1] == s['j']:
                            owner['valid'].add(p[2])
            elif op == 'ext':
                if s['name'] in jobs[s['j']]['ext']:
                    return True
                jobs[s['j']]['ext'].add(s['name'])
                jobs[s['j']]['attrs'].add(s['name'])
            elif op == 'out':
                p = s['ref']
                if p[0] == 'a' and not jobs[p[1]]['python'] and p[2] not in jobs[p[1]]['groups'] and p[2] not in jobs[p[1]]['valid']:
                    return True          # (the check in write_output only looks at resources of BashJobs)
        return False

    @staticmethod
    def _not_dsl(c):
        """the program itself is malformed (dangling handle / job index, member access on a non-group, redeclared name,
        add_extension on a group): Python raises IndexError / AttributeError / AssertionError before the DSL is involved"""
        jobs, handles = [], []

        def bad_ref(p):
            if p[0] in ('h', 'm'):
                if p[1] >= len(handles):
                    return True
                return p[0] == 'm' and handles[p[1]] != 'group'
            if p[1] >= len(jobs):
                return True
            if p[0] == 'c':
                return not jobs[p[1]]['python'] or p[2] >= jobs[p[1]]['calls'] or p[3] not in ('json', 'str', 'repr')
            if p[0] == 'b' and p[2] not in jobs[p[1]]['groups']:
                return True
            jobs[p[1]]['attrs'].add(p[2])
            return False
        for s in c['prog']:
            op = s['op']
            if op == 'input':
                handles.append('file')
            elif op == 'igroup':
                handles.append('group')
            elif op in ('job', 'pyjob'):
                jobs.append({'groups': set(), 'attrs': set(), 'python': op == 'pyjob', 'calls': 0})
            elif op == 'rgroup':
                if s['j'] >= len(jobs) or jobs[s['j']]['python'] or s['gname'] in jobs[s['j']]['attrs']:
                    return True
                jobs[s['j']]['groups'].add(s['gname'])
                jobs[s['j']]['attrs'].add(s['gname'])
            elif op in ('cmd', 'pycall'):
                if s['j'] >= len(jobs) or jobs[s['j']]['python'] != (op == 'pycall'):
                    return True
                for p in (s['pieces'] if op == 'cmd' else [r for a in s['args'] for r in arg_refs(a)]):
                    if p[0] != 't' and bad_ref(p):
                        return True
                if op == 'pycall':
                    jobs[s['j']]['calls'] += 1
            elif op in ('rename', 'touch'):
                if s['j'] >= len(jobs):
                    return True
            elif op == 'ext':
                if s['j'] >= len(jobs) or s['name'] in jobs[s['j']]['groups']:
                    return True
                jobs[s['j']]['attrs'].add(s['name'])
            elif op == 'out':
                if bad_ref(s['ref']):
                    return True
        return False

    @staticmethod
    def _is_local(path):
        from urllib.parse import urlparse
        return urlparse(path).scheme in ('', 'file')

    def oracle(self, c, impl_out):
        if impl_out[0].startswith('IMPL-EXC'):
            return impl_out[0]
        res = self._check(c)
        return None if res is None else f'[{res[0]}] {res[1]}'

    # ------------------------------------------------------------------------------------------ bookkeeping
    def classify(self, c, impl_out):
        line = impl_out[0]
        prog = c['prog']
        njobs = sum(1 for s in prog if s['op'] in ('job', 'pyjob'))
        tags = ['res=' + (line.split(' ')[1] if line.startswith('err') else 'ok'), f'jobs={njobs}']
        cross = 0
        groups_whole, member_only, convs = set(), set(), {}
        for s in prog:
            if s['op'] in ('cmd', 'pycall'):
                for p in (s['pieces'] if s['op'] == 'cmd' else [r for a in s['args'] for r in arg_refs(a)]):
                    if p[0] == 'c':
                        cross += 1
                        convs.setdefault((p[1], p[2]), set()).add(p[3])
                    if p[0] in ('a', 'b') and p[1] != s['j']:
                        cross += 1
                        (member_only if p[0] == 'b' else groups_whole).add((p[1], p[2]))
            if s['op'] == 'out' and s['ref'][0] == 'c':
                convs.setdefault((s['ref'][1], s['ref'][2]), set()).add(s['ref'][3])
            if s['op'] in ('igroup', 'rgroup', 'ext', 'out', 'pycall', 'rename', 'touch'):
                tags.append('has-' + s['op'])
        if member_only - groups_whole:
            tags.append('has-member-only-reference')
        idents = {p[2] for s in prog if s['op'] == 'cmd' for p in s['pieces'] if p[0] == 'a'}
        if any(not i.isidentifier() for i in idents):
            tags.append('has-non-python-identifier')
        in_paths = [s['path'] for s in prog if s['op'] == 'input'] + [p for s in prog if s['op'] == 'igroup' for _, p in s['files']]
        local_paths = [p for p in in_paths if self._is_local(p)]
        if local_paths:
            tags.append('has-local-input')
        if len(set(local_paths)) < len(local_paths):
            tags.append('same-local-path-read-more-than-once')
        if convs:
            tags.append('has-converted-result')
        if any({'str', 'repr'} <= v for v in convs.values()):
            tags.append('has-str-and-repr-of-one-result')
        for s in prog:
            if s['op'] == 'pycall':
                for a in map(norm_arg, s['args']):
                    tags.append({'r': 'pyarg=resource', 'l': 'pyarg=list', 'd': 'pyarg=dict', 'v': 'pyarg=value'}[a[0]])
                    if any(r[0] in ('a', 'h') and self._is_group_ref(prog, r) for r in arg_refs(a)):
                        tags.append('pyarg=whole-group')
        names = [s['name'] for s in prog if s['op'] in ('job', 'pyjob')]
        if any(n and len(n) >= 240 for n in names):
            tags.append('has-long-job-name')
        named = [n for n in names if n]
        if len(set(named)) < len(named):
            tags.append('has-equal-job-names')
        if sum(1 for n in named if len(n) >= 240 and named.count(n) > 1) > 1:
            tags.append('has-equal-long-job-names')
        tags = sorted(set(tags))
        tags.append(f'cross-job-refs={min(cross, 3)}')
        nontrivial = line.startswith('ok') and cross > 0
        return (json.dumps(c, sort_keys=True) if nontrivial else None, tags)

    # repairs: each removes exactly one of the three known defect triggers from a program
    @staticmethod
    def _repair_digit(c):
        prog = json.loads(json.dumps(c['prog']))
        hit = False
        for s in prog:
            if s['op'] == 'cmd':
                ps = s['pieces']
                for i in range(len(ps) - 1):
                    if ps[i][0] != 't' and ps[i + 1][0] == 't' and ps[i + 1][1][:1].isdigit():
                        ps[i + 1][1] = ' ' + ps[i + 1][1]
                        hit = True
        return {'prog': prog} if hit else None

    @staticmethod
    def _repair_basename(c):
        prog = json.loads(json.dumps(c['prog']))
        hit = False
        for s in prog:
            if s['op'] == 'igroup':
                seen = set()
                for k, f in enumerate(s['files']):
                    b = f[1].rstrip('/').split('/')[-1]
                    if b in seen:
                        f[1] = f[1].rstrip('/') + f'_{k}'
                        hit = True
                    seen.add(f[1].rstrip('/').split('/')[-1])
        return {'prog': prog} if hit else None

    @staticmethod
    def _repair_ext(c):
        """move every add_extension in front of the first command that mentions the resource"""
        prog = json.loads(json.dumps(c['prog']))
        hit = False
        for i, s in enumerate(list(prog)):
            if s['op'] != 'ext':
                continue
            first = next((k for k, t in enumerate(prog) if t['op'] in ('cmd', 'out', 'pycall') and any(
                p[0] in ('a', 'b') and p[1] == s['j'] and p[2] == s['name']
                for p in (t['pieces'] if t['op'] == 'cmd' else [r for a in t['args'] for r in arg_refs(a)] if t['op'] == 'pycall'
                          else [t['ref']]))), None)
            pos = prog.index(s)
            if first is not None and first < pos:
                prog.remove(s)
                prog.insert(first, s)
                hit = True
        return {'prog': prog} if hit else None

    @staticmethod
    def _is_group_ref(prog, r):
        if r[0] == 'h':
            hs = [s for s in prog if s['op'] in ('input', 'igroup')]
            return r[1] < len(hs) and hs[r[1]]['op'] == 'igroup'
        return any(s['op'] == 'rgroup' and s['j'] == r[1] and s['gname'] == r[2] for s in prog)

    def finding_key(self, c, msg):
        if self._check(c) is None:
            return json.dumps(c, sort_keys=True)
        fixes = []
        for key, rep in ((K_DIGIT, self._repair_digit), (K_BASENAME, self._repair_basename), (K_EXT, self._repair_ext)):
            c2 = rep(c)
            if c2 is not None:
                fixes.append((key, c2))
        # exactly one known trigger present whose removal makes the property hold: that defect and nothing else
        for key, c2 in fixes:
            try:
                if self._check(c2) is None:
                    return key
            except Exception:  # noqa: BLE001
                pass
        return json.dumps(c, sort_keys=True)

    def shrink(self, c, fails):
        cur = json.loads(json.dumps(c))
        changed = True
        while changed:
            changed = False
            cands = []
            for i, s in enumerate(cur['prog']):
                if s['op'] not in ('job', 'pyjob'):
                    cands.append({'prog': cur['prog'][:i] + cur['prog'][i + 1:]})
                if s['op'] == 'cmd' and len(s['pieces']) > 1:
                    for k in range(len(s['pieces'])):
                        s2 = {**s, 'pieces': s['pieces'][:k] + s['pieces'][k + 1:]}
                        cands.append({'prog': cur['prog'][:i] + [s2] + cur['prog'][i + 1:]})
                if s['op'] == 'pycall' and len(s['args']) > 1:
                    for k in range(len(s['args'])):
                        s2 = {**s, 'args': s['args'][:k] + s['args'][k + 1:]}
                        cands.append({'prog': cur['prog'][:i] + [s2] + cur['prog'][i + 1:]})
                if s['op'] == 'igroup' and len(s['files']) > 1:
                    for k in range(len(s['files'])):
                        s2 = {**s, 'files': s['files'][:k] + s['files'][k + 1:]}
                        cands.append({'prog': cur['prog'][:i] + [s2] + cur['prog'][i + 1:]})
            for cand in cands:
                try:
                    ok = (not self._not_dsl(cand)) and fails(cand)
                except Exception:  # noqa: BLE001
                    ok = False
                if ok:
                    cur, changed = cand, True
                    break
        return cur


PROP = C18()

"""C17 Batch jobs run in dependency order with failure propagation.

Real `hailtop.batch.Batch` (`_async_run`: schedule_job DFS, cycle check) + `LocalBackend._async_run` (cancel_child_jobs loop) with
the backend module's `subprocess` replaced by a scripted pass/fail oracle keyed by job name — no shell is ever spawned — vs the
Lean model `BatchOrder.accept/runLocal`.
"""
import contextlib
import io
import json
import os
import shutil
import tempfile
import types
import warnings

from .. import loader
from ..framework import Prop


def verif_fn(*args, **kwargs):
    return len(args) + len(kwargs)


def tree_sources(t):
    """jobs whose resources occur in an argument tree (values of dicts, elements of lists/tuples, at any depth)"""
    k = t[0]
    if k == 'r':
        return [t[1]]
    if k in ('l', 't'):
        return [x for e in t[1] for x in tree_sources(e)]
    if k == 'd':
        return [x for _key, e in t[1] for x in tree_sources(e)]
    return []


def tree_tokens(t):
    k = t[0]
    if k == 'r':
        return ['R', t[1]]
    if k == 'i':
        return ['N']
    if k in ('l', 't'):
        return ['L', len(t[1])] + [x for e in t[1] for x in tree_tokens(e)]
    if k == 'd':
        return ['D', len(t[1])] + [x for _key, e in t[1] for x in tree_tokens(e)]
    return ['V']


class C17(Prop):
    id = 'C17'
    title = 'Batch jobs run in dependency order with failure propagation'
    lean_props = ['HailVerif.Props.C17']
    driver = 'Driver/C17.lean'
    engine = 'E5-dsl'
    design_ref = 'DESIGN.md §4 C17'
    technique = ('Lean 4 theorems about an executable model of the DFS numbering, the cycle check and the local-backend loop + differential '
                 'correspondence with the real Batch/LocalBackend (subprocess replaced by a scripted oracle)')
    level_text = ('Proved for every finite pipeline, every iteration order of the dependency sets and every set of failing commands: an accepted '
                  'numbering lists every job exactly once with every dependency strictly earlier (accepted_is_topological); a pipeline with a cycle is '
                  'never accepted (cyclic_rejected); every acyclic pipeline whose dependencies are jobs of the batch is accepted (dag_accepted, '
                  'accepted_iff_acyclic); the local backend executes the accepted order minus the skipped jobs, each once (executed_once_in_order); '
                  'the skipped set satisfies skip j <-> not always_run j and some dependency failed or was skipped, and is contained in every set '
                  'closed under that rule (skip_set_is_lfp); the run raises iff an executed job failed (raises_iff). Dependency construction: one '
                  'PythonJob.call depends on exactly the other jobs whose resources occur in a positional argument or a keyword-argument value at '
                  'any nesting depth (call_argument_dependencies); such a consumer is numbered after its producer (consumer_after_producer) and '
                  'skipped when the producer failed or was skipped (consumer_skipped_when_producer_fails).')
    level_note = ('All theorems are closed (no _partial). Partial only in the tie: the model is connected to batch.py/backend.py by the correspondence '
                  'cases (<= 9 jobs); the dependency sets built by depends_on/_interpolate_command/PythonJob.call are modelled by jobDeps (compared '
                  'with the real _dependencies of every job on every case) with resources abstracted to their source job; shell/Docker execution is '
                  'replaced by a scripted pass/fail oracle; dill is an inert stub (argument serialisation is not exercised).')
    budget = {'quick': 1500, 'thorough': 25000}
    search_budget = {'quick': 3000, 'thorough': 30000}
    rule = ('case = (n <= 9 bash and python jobs created in the order 0..n-1 of a randomly relabelled graph, explicit depends_on edges, '
            'resource-induced edges: a bash consumer mentions the producer\'s file / resource-group member / PythonResult.as_str() in its command, '
            'a python consumer receives the producer\'s JobResourceFile, ResourceGroup, PythonResult, as_str/as_json file through '
            'PythonJob.call as a positional OR keyword argument, bare or nested in lists/tuples/dict values; noise arguments: plain values, '
            'input files, the job\'s own results; always_run flags, per-job pass/fail script). Graphs: random DAGs '
            '(edges low->high under a random permutation, so creation order is unrelated to dependency order), DAGs plus injected back/self '
            'edges (cycles), chains, diamonds, fan-in/out. Non-trivial = accepted pipeline with >= 1 failing job that has descendants, or a '
            'rejected cyclic one; distinct by case content')
    trusted = ['harness/props/c17.py fake `subprocess` namespace installed in hailtop.batch.backend (check_call scripted by job name, run = no-op)',
               'orjson shim (json) on the LocalBackend path; dill inert stub (PythonJob argument/function pickling writes nothing meaningful)']
    assumptions = ['a job "fails" iff its shell command exits non-zero (CalledProcessError); Docker/shell execution itself is not modelled',
                   'every dependency is a job of the same batch',
                   'the iteration order of the Python set j._dependencies is arbitrary: theorems hold for every order; the model driver is given '
                   'the order the real run used']

    # ------------------------------------------------------------------------------------------
    def setup(self, repo):
        loader.install(repo)
        import subprocess as real_sp

        import hailtop.batch as hb
        from hailtop.batch import backend as be
        from hailtop.batch.exceptions import BatchException
        self.hb, self.be, self.BatchException, self.CalledProcessError = hb, be, BatchException, real_sp.CalledProcessError
        self.calls = []
        self.fail_names = set()
        prop = self

        def check_call(code, shell=False, **kw):
            name = None
            for line in code.split('\n'):
                if line.startswith('# ') and ': J' in line and line[2:].split(':')[0].isdigit():
                    name = line.split(': ', 1)[1].strip()
                    jid = int(line[2:].split(':')[0])
                    break
            prop.calls.append((name, jid if name else None))
            if name in prop.fail_names:
                raise real_sp.CalledProcessError(1, f'job {name}')
            return 0

        def no_shell(*a, **k):
            return types.SimpleNamespace(returncode=0)

        def forbidden(*a, **k):
            raise RuntimeError('the code under test tried to spawn a process')

        be.sp = types.SimpleNamespace(check_call=check_call, run=no_shell, CalledProcessError=real_sp.CalledProcessError,
                                      Popen=forbidden, check_output=forbidden, call=forbidden)
        self.cache = {}
        self.tmp_root = tempfile.mkdtemp(prefix='c17-')

    def __del__(self):
        try:
            shutil.rmtree(self.tmp_root, ignore_errors=True)
        except Exception:
            pass

    # ------------------------------------------------------------------------------------------
    def _graph_case(self, rng):
        n = rng.choice([1, 2, 3, 3, 4, 4, 5, 5, 6, 7, 8, 9])
        perm = list(range(n))
        rng.shuffle(perm)           # perm[k] = creation index of the k-th node in a topological numbering
        shape = rng.choice(['random', 'random', 'random', 'chain', 'diamond', 'fan'])
        edges = set()               # (consumer, producer) in topological numbering: producer < consumer
        if shape == 'chain':
            for k in range(1, n):
                edges.add((k, k - 1))
        elif shape == 'diamond' and n >= 4:
            for k in range(1, n - 1):
                edges.add((k, 0))
                edges.add((n - 1, k))
        elif shape == 'fan':
            hub = rng.randrange(n)
            for k in range(n):
                if k < hub:
                    edges.add((hub, k))
                elif k > hub:
                    edges.add((k, hub))
        else:
            p = rng.choice([0.15, 0.3, 0.5])
            for a in range(n):
                for b in range(a):
                    if rng.random() < p:
                        edges.add((a, b))
        pe = rng.choice([0.0, 0.15, 0.3])      # command-less bash jobs: barriers that only carry depends_on edges
        kinds = [('e' if rng.random() < pe else 'p' if rng.random() < 0.35 else 'b') for _ in range(n)]
        explicit, resource = [], []
        callres = {}                # python consumer -> [producer, ...] passed through call arguments
        all_edges = [[perm[a], perm[b]] for (a, b) in sorted(edges)]
        # cycles: back edges / self edges
        if rng.random() < 0.3:
            for _ in range(rng.choice([1, 1, 2])):
                a, b = rng.randrange(n), rng.randrange(n)
                if a > b:
                    a, b = b, a
                all_edges.append([perm[a], perm[b]])      # earlier node depends on a later (or the same) one
        for e in all_edges:
            r = rng.random()
            if e[0] == e[1]:
                explicit.append(e)      # only depends_on can make a job depend on itself
            elif r < 0.35 or 'e' in (kinds[e[0]], kinds[e[1]]):
                explicit.append(e)
            elif kinds[e[0]] == 'b':
                resource.append(e)
                if r > 0.92:
                    explicit.append(e)
            else:
                callres.setdefault(e[0], []).append(e[1])

        def wrap(t, depth):
            if depth <= 0 or rng.random() < 0.45:
                return t
            k = rng.choice(['l', 't', 'd'])
            noise = [['v', rng.randrange(5)] for _ in range(rng.randrange(2))]
            items = noise + [wrap(t, depth - 1)]
            rng.shuffle(items)
            if k == 'd':
                return ['d', [[f'k{i}', e] for i, e in enumerate(items)]]
            return [k, items]

        calls = []
        for j in range(n):
            if kinds[j] != 'p':
                continue
            prods = callres.get(j, [])
            ncalls = 1 if len(prods) <= 1 else rng.choice([1, 2])
            cs = [{'j': j, 'args': [], 'kwargs': []} for _ in range(ncalls)]
            for p in prods:
                c = rng.choice(cs)
                t = wrap(['r', p, rng.randrange(3)], 2)
                if rng.random() < 0.5:
                    c['args'].append(t)
                else:
                    c['kwargs'].append([f'kw{len(c["kwargs"])}', t])
            for c in cs:   # noise: values, an input file, the job's own first result
                for _ in range(rng.randrange(3)):
                    t = rng.choice([['v', rng.randrange(9)], ['i'], ['r', j, 0], ['l', []], ['d', []]])
                    if rng.random() < 0.5:
                        c['args'].insert(rng.randrange(len(c['args']) + 1), t)
                    else:
                        c['kwargs'].append([f'kw{len(c["kwargs"])}', t])
            calls += [c for c in cs if c['args'] or c['kwargs'] or rng.random() < 0.3]
        ar = [1 if rng.random() < 0.2 else 0 for _ in range(n)]
        pf = rng.random()
        fails = [1 if rng.random() < (0.0 if pf < 0.2 else 0.25 if pf < 0.8 else 0.6) else 0 for _ in range(n)]
        fails = [0 if kinds[i] == 'e' else f for i, f in enumerate(fails)]    # a job without a command cannot fail
        return {'n': n, 'kinds': kinds, 'explicit': explicit, 'resource': resource, 'calls': calls, 'always_run': ar, 'fails': fails}

    def cases(self, rng, n, tier):
        for _ in range(n):
            yield self._graph_case(rng)

    # ------------------------------------------------------------------------------------------
    def _eval(self, c):
        key = json.dumps(c, sort_keys=True)
        if key in self.cache:
            return self.cache[key]
        hb = self.hb
        n = c['n']
        tmp = tempfile.mkdtemp(dir=self.tmp_root)
        res = {}
        try:
            with warnings.catch_warnings():
                warnings.simplefilter('ignore')
                backend = hb.LocalBackend(tmp_dir=tmp)
                b = hb.Batch(backend=backend, name='c17', default_python_image='verif/python-dill')
                kinds = c.get('kinds') or ['b'] * n
                jobs = [(b.new_python_job(name=f'J{i}') if kinds[i] == 'p' else b.new_job(name=f'J{i}')) for i in range(n)]
                inp = b.read_input('/etc/hostname')
                for i, j in enumerate(jobs):
                    if c['always_run'][i]:
                        j.always_run()
                # every job declares its outputs first, so that any other job may consume them
                first_result = {}
                for i, j in enumerate(jobs):
                    if kinds[i] == 'p':
                        first_result[i] = j.call(verif_fn, i)
                    elif kinds[i] == 'e':
                        pass        # a barrier: no command, no resources
                    else:
                        j.declare_resource_group(grp={'a': '{root}.a', 'b': '{root}.b'})
                        j.command(f'echo {i} > {j.ofile}; touch {j.grp.a} {j.grp.b}')

                def res_of(pj, flavour, for_bash):
                    if kinds[pj] == 'p':
                        r = first_result[pj]
                        if for_bash:
                            return r.as_str() if flavour % 2 == 0 else r.as_json()
                        return [r, r.as_str(), r.as_json()][flavour % 3]
                    pjob = jobs[pj]
                    if for_bash:
                        return pjob.ofile if flavour % 2 == 0 else pjob.grp.a
                    return [pjob.ofile, pjob.grp, pjob.grp.b][flavour % 3]

                def build(t):
                    k = t[0]
                    if k == 'r':
                        return res_of(t[1], t[2], False)
                    if k == 'i':
                        return inp
                    if k == 'l':
                        return [build(e) for e in t[1]]
                    if k == 't':
                        return tuple(build(e) for e in t[1])
                    if k == 'd':
                        return {key: build(e) for key, e in t[1]}
                    return t[1]
                for k, (a, p) in enumerate(c['resource']):
                    jobs[a].command(f'cat {res_of(p, k, True)}')
                for call in c.get('calls', []):
                    jobs[call['j']].call(verif_fn, *[build(t) for t in call['args']], **{key: build(t) for key, t in call['kwargs']})
                for (a, p) in c['explicit']:
                    jobs[a].depends_on(jobs[p])
                idx = {id(j): i for i, j in enumerate(jobs)}
                res['deps'] = [[idx[id(d)] for d in j._dependencies] for j in jobs]   # the set's iteration order
                self.calls = []
                self.fail_names = {f'J{i}' for i in range(n) if c['fails'][i]}
                exc = None
                try:
                    with contextlib.redirect_stdout(io.StringIO()):
                        b.run(delete_scratch_on_exit=True)
                except self.BatchException as e:
                    exc = ('batch', str(e))
                except self.CalledProcessError:
                    exc = ('called', '')
                except AssertionError:
                    exc = ('assert', '')
                except KeyError:
                    exc = ('keyerror', '')
                res['exc'] = exc
                res['calls'] = list(self.calls)
                res['order'] = [idx[id(j)] for j in b._jobs]
                res['ids'] = [j._job_id for j in b._jobs]
                res['submitted'] = [idx[id(j)] for j in b._jobs if j._submitted]
                try:
                    backend.close()
                except Exception:
                    pass
                backend.close = lambda: None    # Backend.__del__ would run an event loop from inside the garbage collector
        finally:
            shutil.rmtree(tmp, ignore_errors=True)
        if len(self.cache) > 200000:
            self.cache.clear()
        self.cache[key] = res
        return res

    @staticmethod
    def _decl(c, j):
        ex = [p for a, p in c['explicit'] if a == j]
        cs = [p for a, p in c['resource'] if a == j]
        args = [t for call in c.get('calls', []) if call['j'] == j for t in call['args']]
        kws = [t for call in c.get('calls', []) if call['j'] == j for _k, t in call['kwargs']]
        return ex, cs, args, kws

    def model_lines(self, c):
        r = self._eval(c)
        lines = []
        for j in range(c['n']):
            ex, cs, args, kws = self._decl(c, j)
            toks = ['deps', j, 'E', len(ex)] + ex + ['C', len(cs)] + cs + ['A', len(args)] + [x for t in args for x in tree_tokens(t)] \
                + ['K', len(kws)] + [x for t in kws for x in tree_tokens(t)]
            lines.append(' '.join(map(str, toks)))
        kinds = c.get('kinds') or ['b'] * c['n']
        toks = [c['n']] + c['always_run'] + c['fails'] + [0 if k == 'e' else 1 for k in kinds]
        for ds in r['deps']:
            toks += [len(ds)] + ds
        return lines + [' '.join(map(str, toks))]

    def impl(self, c):
        r = self._eval(c)
        if 'error' in r:
            return [r['error']] * (c['n'] + 1)
        head = [','.join(map(str, sorted(ds))) for ds in r['deps']]
        if r['exc'] and r['exc'][0] == 'batch':
            return head + ['cycle' if 'cycle detected' in r['exc'][1] else 'batchexception ' + r['exc'][1][:60]]
        if r['exc'] and r['exc'][0] in ('assert', 'keyerror'):
            return head + [r['exc'][0]]
        kinds = c.get('kinds') or ['b'] * c['n']
        # observable: which jobs WITH commands ran (whether the empty shell block of a command-less job is spawned is immaterial)
        ex = [int(name[1:]) for name, _ in r['calls'] if name and kinds[int(name[1:])] != 'e']
        sk = [j for j in r['order'] if j not in ex and kinds[j] != 'e']
        s = lambda l: ','.join(map(str, l))
        return head + [f'order={s(r["order"])} exec={s(ex)} skip={s(sk)} exc={1 if r["exc"] else 0}']

    # ------------------------------------------------------------------------------------------
    @staticmethod
    def _deps(c):
        deps = {i: set() for i in range(c['n'])}
        for a, p in c['explicit']:
            deps[a].add(p)
        for a, p in c['resource']:
            if p != a:
                deps[a].add(p)
        # every resource handed to PythonJob.call, positionally or by keyword, bare or nested, makes its producer a dependency
        for call in c.get('calls', []):
            for t in call['args'] + [t for _k, t in call['kwargs']]:
                for p in tree_sources(t):
                    if p != call['j']:
                        deps[call['j']].add(p)
        return deps

    @staticmethod
    def _cyclic(deps):
        state = {}

        def go(v):
            state[v] = 1
            for w in deps[v]:
                if state.get(w) == 1 or (w not in state and go(w)):
                    return True
            state[v] = 2
            return False
        return any(v not in state and go(v) for v in deps)

    def oracle(self, c, out):
        if out and out[0].startswith('IMPL-EXC'):
            return out[0]
        r = self._eval(c)
        deps = self._deps(c)
        n = c['n']
        # the dependency sets the DSL built are the declared edges (explicit + through consumed resources)
        for i in range(n):
            if set(r['deps'][i]) != deps[i]:
                miss = sorted(deps[i] - set(r['deps'][i]))
                how = ''
                for call in c.get('calls', []):
                    if call['j'] == i:
                        for key, t in call['kwargs']:
                            if set(tree_sources(t)) & set(miss):
                                how = f' (resource of job {sorted(set(tree_sources(t)) & set(miss))} passed to call() as keyword argument {key!r})'
                        for t in call['args']:
                            if set(tree_sources(t)) & set(miss) and not how:
                                how = ' (passed to call() positionally)'
                return f'job {i} consumes resources of {sorted(deps[i])} but its dependencies are {sorted(r["deps"][i])}: missing {miss}{how}'
        executed = [name for name, _ in r['calls']]
        if None in executed:
            return 'a shell block that belongs to no job was executed'
        if self._cyclic(deps):
            if not (r['exc'] and r['exc'][0] == 'batch' and 'cycle detected' in r['exc'][1]):
                return f'cyclic pipeline was not rejected: {out[-1]}'
            if executed:
                return f'cyclic pipeline: {executed} ran before the rejection'
            return None
        if r['exc'] and r['exc'][0] != 'called':
            return f'acyclic pipeline rejected: {r["exc"]}'
        order = r['order']
        if sorted(order) != list(range(n)):
            return f'jobs are not numbered exactly once each: {order}'
        if r['ids'] != list(range(1, n + 1)):
            return f'job ids are {r["ids"]}, expected 1..{n} in execution order'
        pos = {j: k for k, j in enumerate(order)}
        for j in range(n):
            for d in deps[j]:
                if pos[d] >= pos[j]:
                    return f'job {j} is numbered {pos[j] + 1}, not after its dependency {d} (numbered {pos[d] + 1})'
        # least fixpoint of: skip j <-> not always_run j and some dependency failed or was skipped
        fails = c['fails']
        skip = set()
        changed = True
        while changed:
            changed = False
            for j in range(n):
                if j not in skip and not c['always_run'][j] and any((p in skip) or (fails[p] and p not in skip) for p in deps[j]):
                    skip.add(j)
                    changed = True
        kinds = c.get('kinds') or ['b'] * n
        ex = [int(x[1:]) for x in executed if kinds[int(x[1:])] != 'e']
        want = [j for j in order if j not in skip and kinds[j] != 'e']
        if ex != want:
            return (f'executed {ex}, expected {want} (order {order}, skipped should be exactly {sorted(skip)}: failing {[j for j in range(n) if fails[j]]}, '
                    f'always_run {[j for j in range(n) if c["always_run"][j]]}, command-less jobs {[j for j in range(n) if kinds[j] == "e"]})')
        for (name, jid) in r['calls']:
            if jid != pos[int(name[1:])] + 1:
                return f'job {name} ran under id {jid}, its number is {pos[int(name[1:])] + 1}'
        if sorted(j for j in r['submitted'] if kinds[j] != 'e') != sorted(ex):
            return f'jobs marked submitted {sorted(r["submitted"])} differ from the executed ones {sorted(ex)}'
        raised = bool(r['exc'])
        if raised != any(fails[j] for j in ex):
            return f'run raised={raised} but failing executed jobs = {[j for j in ex if fails[j]]}'
        return None

    def classify(self, c, out):
        o = out[-1]
        deps = self._deps(c)
        ne = sum(len(v) for v in deps.values())
        tags = [f'n={c["n"]}', 'edges=' + ('0' if ne == 0 else '1-3' if ne <= 3 else '4-8' if ne <= 8 else '9+'),
                'resource-edges' if c['resource'] else 'no-resource-edges']
        calls = c.get('calls', [])
        if 'p' in (c.get('kinds') or []):
            tags.append('python jobs')
        if 'e' in (c.get('kinds') or []):
            tags.append('command-less jobs')
            kk = c['kinds']
            if any(kk[p] == 'e' and deps[p] for j in deps for p in deps[j]):
                tags.append('command-less job between a dependency and a dependent')
        if any(p != call['j'] for call in calls for _k, t in call['kwargs'] for p in tree_sources(t)):
            tags.append('resource in a keyword argument of call()')
        if any(p != call['j'] for call in calls for t in call['args'] for p in tree_sources(t)):
            tags.append('resource in a positional argument of call()')
        if any(t[0] in 'ltd' and tree_sources(t) for call in calls for t in call['args'] + [t for _k, t in call['kwargs']]):
            tags.append('resource nested in list/tuple/dict')
        if o == 'cycle':
            tags.append('rejected cycle' + (' (self)' if any(a == p for a, p in c['explicit']) else ''))
            return (json.dumps(c, sort_keys=True), tags)
        if not o.startswith('order='):
            return (None, tags + ['other: ' + o[:20]])
        f = dict(x.split('=') for x in o.split())
        nskip = len([x for x in f['skip'].split(',') if x])
        tags.append('accepted skipped=' + ('0' if nskip == 0 else '1-2' if nskip <= 2 else '3+'))
        tags.append('raised' if f['exc'] == '1' else 'completed')
        if any(c['always_run'][j] and any(p for p in deps[j]) for j in range(c['n'])):
            tags.append('always_run job with dependencies')
        order = [int(x) for x in f['order'].split(',') if x]
        if order != sorted(order):
            tags.append('creation order is not a valid execution order')
        return (json.dumps(c, sort_keys=True) if nskip >= 1 else None, tags)

    def finding_key(self, c, msg):
        return json.dumps(c, sort_keys=True)

    def shrink(self, c, fails):
        cur = json.loads(json.dumps(c))
        changed = True
        while changed:
            changed = False
            cands = []
            for fld in ('explicit', 'resource'):
                for i in range(len(cur[fld])):
                    cands.append({**cur, fld: cur[fld][:i] + cur[fld][i + 1:]})
            for i in range(len(cur.get('calls', []))):
                cands.append({**cur, 'calls': cur['calls'][:i] + cur['calls'][i + 1:]})
                call = cur['calls'][i]
                for fld in ('args', 'kwargs'):
                    for k in range(len(call[fld])):
                        nc = {**call, fld: call[fld][:k] + call[fld][k + 1:]}
                        cands.append({**cur, 'calls': cur['calls'][:i] + [nc] + cur['calls'][i + 1:]})
            for i in range(cur['n']):
                if cur['fails'][i]:
                    cands.append({**cur, 'fails': cur['fails'][:i] + [0] + cur['fails'][i + 1:]})
                if cur['always_run'][i]:
                    cands.append({**cur, 'always_run': cur['always_run'][:i] + [0] + cur['always_run'][i + 1:]})
            # drop the last job if nothing mentions it
            m = cur['n'] - 1
            used = [x for e in cur['explicit'] + cur['resource'] for x in e] + [call['j'] for call in cur.get('calls', [])] + \
                [p for call in cur.get('calls', []) for t in call['args'] + [t for _k, t in call['kwargs']] for p in tree_sources(t)]
            if m >= 1 and m not in used:
                cands.append({**cur, 'n': m, 'fails': cur['fails'][:m], 'always_run': cur['always_run'][:m],
                              'kinds': (cur.get('kinds') or ['b'] * cur['n'])[:m]})
            for cand in cands:
                if fails(cand):
                    cur = cand
                    changed = True
                    break
        return cur


PROP = C17()

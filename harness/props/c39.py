"""C39 Job lifecycle protocol terminates and never double-runs — E1 family.  A client-submission prefix (compared with the Lean model
like every E1 history) is followed by the REAL driver loop bodies acting in a scripted order (harness/batchdb/actors.py): pool scheduler,
the three canceller loops, workers (started / complete with any outcome, duplicated reports), instance preemption, client cancellation of
groups (sub-group then ancestor).  Safety after every actor step, liveness after a fair run to quiescence."""
import json
import random

from ..batchdb import actors, gen
from ..batchdb.prop import E1Prop, RunResult
from ..batchdb.world import World


class C39(E1Prop):
    id = 'C39'
    title = 'Job lifecycle protocol terminates and never double-runs'
    design_ref = 'DESIGN.md §4 C39 (Engine E1)'
    oracle_name = ''
    budget = {'quick': 80, 'thorough': 2000}
    search_budget = {'quick': 100, 'thorough': 2000}
    level_text = ('Safety, after every step of the real scheduler / canceller loop bodies, worker reports, preemptions and cancellations on small committed batches: '
                  'a job in Running/Creating has an attempt row that is its current attempt, un-ended, on a live instance; terminal states are absorbing; a Running job '
                  'falls back to Ready only when its current attempt was ended (no two live attempts that were both current); one actor step opens at most one '
                  'attempt per job (the scheduler hands a job to one worker per pass). Liveness, after a fair run to quiescence '
                  '(every loop runs, every running job finishes): every committed job is terminal, always_run jobs did not end Cancelled, every batch and job group with '
                  'jobs is complete, no un-ended attempt remains on an active instance. The submission prefix is compared op by op with the Lean model BatchDB.')
    level_note = ('Partial: actor steps are whole loop bodies / whole transactions in scripted orders (real asyncio concurrency of the driver loops and HTTP to workers are '
                  'not exhibited); the autoscaler is replaced by "a fresh active instance appears after a preemption"; the server is harness/minisql. The Lean measure '
                  'theorem is claimed only when Props/C39.lean exists.')
    rule = ('case = submission prefix (1-2 committed updates of 1-5 pool jobs in nested groups with DAG parents) + script of 4-16 actor steps '
            '(S scheduler, R/U/O canceller loops, W worker outcome, D duplicate report, F preemption, P preemption of the target instance while the worker request of schedule_job is in flight, C cancel group, X second attempt reports started '
            '= orphan, L late unschedule of the completed attempt) + fair run to quiescence; '
            'non-trivial = at least one job was scheduled by the real scheduler and one cancel or fault occurred; distinct by (prefix, script)')

    def make_history(self, rng):
        return gen.submission(rng)

    @staticmethod
    def key(c):
        return json.dumps([c['ops'], c.get('actors'), c.get('aseed')])

    def run_case(self, c) -> RunResult:
        res = RunResult()
        w = World(0, getattr(self, 'repo', None))
        try:
            res.lines.append('ok')
            accepted = True
            for i, op in enumerate(c['ops']):
                ans = w.apply(op)
                res.lines.append(ans)
                res.lines.append(w.dump())
                res.n_ops = i + 1
                if op.startswith('commit') and ans != 'ok 0':     # (a re-sent group bunch is answered 400 without harm; a refused commit is not)
                    accepted = False
            if not accepted:
                # the property is about batches whose submission went through; a prefix with a refused request (only reachable through
                # shrinking or a generator slip) is compared with the model but not handed to the driver loops
                res.tags.append('prefix-with-refused-request')
                return res
            act = actors.Actors(w, random.Random(c.get('aseed', 0)))
            fail = None
            for a in c.get('actors', []):
                before = act.view()
                act.step(a)
                after = act.view()
                fail = actors.safety(after) or actors.transition_safety(before, after)
                for t, cond in (('orphan-attempt-unscheduled', a == 'O' and any(
                        x['end_time'] is None and x['attempt_id'].startswith('orphan') and
                        after.attempts[(x['batch_id'], x['job_id'], x['attempt_id'])]['end_time'] is not None for x in before.attempts.values())),
                                ('late-unschedule-of-completed-attempt', a == 'L' and act.last_complete is not None),
                                ('orphan-attempt-recorded', a == 'X' and len(after.attempts) > len(before.attempts)),
                                ('instance-preempted-while-job-in-flight', a == 'P' and act.preempted_in_flight > 0),
                                ('job-started-while-schedule_job-in-flight', a == 'Q' and act.started_in_flight > 0),
                                ('job-private-path', a[0] == 'J' and act.jp_scheduled > 0),
                                ('job-private-activation-timeout', a == 'Jtimeout' and act.jp_timeouts > 0)):
                    if cond and t not in res.tags:
                        res.tags.append(t)
                if fail:
                    fail = (fail[0], f'after actor step {a!r} (steps so far {act.log}): {fail[1]}')
                    break
            if fail is None:
                rounds = act.quiesce()
                v = act.view()
                fail = actors.safety(v) or actors.liveness(v, {})
                if fail:
                    fail = (fail[0], f'after script {c.get("actors")} and {rounds} fair rounds: {fail[1]}'
                            + (f' [loop errors: {sorted(set(act.errors))[:3]}]' if act.errors else ''))
            if any(a.startswith('C') for a in act.log):
                res.tags.append('cancel')
            if 'F' in act.log:
                res.tags.append('preemption')
            if any(x['instance_name'] for x in w.db.tables['attempts']):
                res.tags.append('scheduled-by-real-scheduler')
            if any(j['cores_mcpu'] == i['cores_mcpu'] for j in w.db.tables['jobs'] for i in w.db.tables['instances']
                   if j['inst_coll'] == 'standard' and i['inst_coll'] == 'standard'):
                res.tags.append('job-asks-for-exactly-a-whole-pool-instance')
            if any('1242' in e for e in act.errors):
                res.tags.append('loop-error-1242')
            for e in sorted(set(x.split(':')[0] for x in act.errors)):
                res.tags.append('loop-error:' + e)
            if fail:
                res.failure = (max(res.n_ops - 1, 0), fail[0], fail[1])
        finally:
            w.close()
        return res

    def nontrivial(self, r):
        return 'scheduled-by-real-scheduler' in r.tags and ('cancel' in r.tags or 'preemption' in r.tags)

    def classify(self, c, out):
        r = self._get(c)
        tags = sorted(set(r.tags)) + sorted({'actor:' + a[0] for a in c.get('actors', [])})
        return (self.key(c) if self.nontrivial(r) else None, tags)

    def oracle(self, c, out):
        if out and out[0].startswith('IMPL-EXC'):
            return out[0]
        r = self._get(c)
        if r.failure is None:
            return None
        return f'[{r.failure[1]}] {r.failure[2]}'

    def shrink(self, c, fails):
        from ..framework import generic_shrink_list
        cur = dict(c)
        if not fails(cur):
            return c
        cur['actors'] = generic_shrink_list(cur['actors'], lambda a: fails({**cur, 'actors': a})) if len(cur['actors']) > 1 else cur['actors']
        return cur


PROP = C39()

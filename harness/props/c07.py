"""C07 Cancellation stops work in the cancelled subtree only — E1 family: the real code over minisql vs the Lean model BatchDB, oracle `oracles.c07`."""
from ..batchdb import actors
from ..batchdb.prop import ActorCasesMixin, E1Prop


class C07(ActorCasesMixin, E1Prop):
    actor_share = 0.3
    actor_flavour = 'c07'
    id = 'C07'
    title = 'Cancellation stops work in the cancelled subtree only'
    design_ref = 'DESIGN.md §4 C07 (Engine E1)'
    oracle_name = 'c07'
    adversarial_share = 0.0
    nontrivial_tags = ['cancel', 'repeat-cancel', 'cancel-ancestor-after-descendant']
    level_text = 'Lean: no_start_after_cancel, no_job_insert_under_cancelled, no_group_insert_under_cancelled, no_update_on_cancelled_batch, cancel_idempotent, siblings untouched, requests_answered (Props/C07.lean). Oracle after every op: no non-always-run job under a cancelled group moves into Creating/Running; no job/group/update appears beneath a cancelled group; a repeated cancel changes no table; cancel touches only the subtree and its ancestors; schedule/creating/started requests are answered without MySQL error; is_job_group_cancelled() agrees with the ancestor walk on every group. A third of the cases run the REAL canceller loops (ready, creating, running, orphaned) and schedulers on committed submissions with sibling groups and a second batch of the same user after one group was cancelled: a canceller pass changes only jobs that are cancelled (non-always_run, marked or under a cancelled group); at quiescence every committed job is terminal.'
    level_note = ('Partial: the server is harness/minisql (semantics list in trusted_base), every transaction is one atomic step, histories are generated '
                  '(not exhaustive); the Lean model is tied to the code only as far as the compared answers and dumps show. '
                  'Known findings of the unchanged tree are listed in known_findings.json and printed as KNOWN-FINDING.')

    def make_history(self, rng):
        from ..batchdb import gen
        return gen.history(rng, cancel_bias=0.07, special=0.25, weights={'jp-cancel-path': 8.0}, knobs={'jp_jobs': 0.4, 'cancel_between_bunches': 0.3, 'group_bunches': 0.6})

    def nontrivial(self, r):
        return any(t in r.tags for t in self.nontrivial_tags)


    def actor_checks(self):
        return ([actors.cancel_scope, lambda w, before, after: actors.safety(after)], [lambda w, v: actors.liveness(v, {})])


PROP = C07()

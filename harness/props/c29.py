"""C29 Post-login redirects stay on Hail hosts.

Real code: auth/auth/auth.py `validate_next_page_url` (imported unmodified; module global `deploy_config` replaced by a real
`hailtop.config.deploy_config.DeployConfig` built from the case's domain / base path) and the stdlib `urlparse` it calls.
Model: lean/HailVerif/Model/NextUrl.lean (`pyNetloc`, `validate`, `browserDest`).
The "browser" of the oracle is harness/whatwg_url.py, a state-by-state transcription of the WHATWG URL parser (no browser exists in
the sandbox); it is compared with the functional Lean `browserDest` on every case."""
import json

from .. import loader, svcenv, whatwg_url
from ..framework import Prop, generic_shrink_list

SERVICES = ['batch', 'auth', 'ci', 'monitoring']
KEY_SCHEME = 'validate_next_page_url accepts a URL whose scheme is not http(s)'


def enc(s):
    return 'e' if s == '' else ','.join(str(ord(c)) for c in s)


def is_exotic(netloc):
    return any(c in '[]' or ord(c) >= 0x80 for c in netloc)


class C29(Prop):
    id = 'C29'
    title = 'Post-login redirects stay on Hail hosts'
    lean_props = ['HailVerif.Props.C29']
    driver = 'Driver/C29.lean'
    engine = 'E3-pure'
    design_ref = 'DESIGN.md §4 C29'
    technique = ('Lean 4 theorems relating a model of CPython 3.12 urlsplit().netloc + validate_next_page_url to a transcription of the '
                 'WHATWG URL parser; differential correspondence of the Python half with the real validate_next_page_url/urlparse on a '
                 'grammar-based URL fuzzer; the browser half cross-checked against an independent state-machine transcription')
    level_text = ('For every deploy config whose four service hosts are plain lower-case DNS names and every string s: if the model of '
                  'validate_next_page_url (scheme in (http, https) and netloc verbatim one of the four hosts) accepts s, the WHATWG parse of s '
                  '(base https://<auth host>/) is an http(s) URL whose host is exactly one of the four Hail hosts on the default port '
                  '(accepted_lands_on_hail, no further hypothesis). The validator as it was before commit 46b6e6f3a is kept as validateOld: '
                  'the statement is refuted for it in Lean on javascript://auth.hail.is/%0aalert(1). The model of the Python half is compared '
                  'with the real validator and the real urlparse on every run. The flow: in the model of /login, /signup, /oauth2callback and '
                  '/creating a redirect to the `next` string happens only after that very string passed the validator in the same request '
                  '(callback_redirects_to_valid_next, creating_redirects_to_valid_next, flow_redirect_lands_on_hail); the real handlers are driven '
                  'over all (caller, account state, session next incl. planted ones) combinations and every 3xx Location is judged.')
    level_note = ('PARTIAL: browserDest is a hand transcription of the WHATWG URL Standard (scheme/authority/host/port states, ASCII '
                  'fast path of domain-to-ASCII, IPv4 parser) and of the Fetch rule that redirects to non-http(s) schemes are network '
                  'errors; it is cross-checked only against a second transcription (harness/whatwg_url.py), never against a browser. '
                  'IPv6 literals, IDNA/punycode hosts are an explicit `unmodelled` outcome (they never arise for accepted URLs). CPython\'s '
                  'bracket/ipaddress/NFKC checks are abstracted to the outcome `exotic` (netloc with [ ] or non-ASCII: ValueError or a '
                  'netloc that cannot equal a plain host). The re-serialisation of the Location header by aiohttp/yarl is observed by the '
                  'oracle but not modelled.')
    rule = ('case = (deploy-config domain, base path, next URL); URLs from a grammar (leading controls × scheme × colon × slashes/backslashes '
            '× userinfo × host variants of the configured Hail hosts and foreign hosts × port × tail) with random character mutations; '
            'non-trivial = the real validator accepts, or the netloc mentions a configured Hail host without being equal to it (near miss); '
            'distinct by full case')
    trusted = ['harness/whatwg_url.py and Model/NextUrl.browserDest: transcriptions of the WHATWG URL Standard / Fetch redirect rule, not '
               'compared with any browser', 'harness/svcenv.py: env vars and global-config the auth module reads at import',
               'shim prometheus_async.aio.web, stub googlecloudprofiler',
               'flow cases: aiohttp_session replaced by a dict-backed session store, render_template / insert_new_user / create_session / the OAuth flow client / the users table replaced by fakes in the namespace of auth.auth']
    assumptions = ['deploy config domain is a plain lower-case DNS name (letters, digits, -, .), not IPv4-like, no xn-- label; base path '
                   'empty or starting with /', 'the browser follows the redirect as the WHATWG URL / Fetch standards prescribe',
                   'the Location header carries the accepted string (aiohttp/yarl re-quoting observed, not modelled)']
    budget = {'quick': 8000, 'thorough': 100000}
    search_budget = {'quick': 8000, 'thorough': 100000}

    # ---- real code ---------------------------------------------------------------------------------------------------------
    def setup(self, repo):
        loader.install(repo)
        svcenv.prepare()
        import auth.auth as a
        from aiohttp import web
        from hailtop.config.deploy_config import DeployConfig
        self.auth = a
        self.web = web
        self.DeployConfig = DeployConfig
        self._flow_cache = {}
        self.mk = __import__('aiohttp.test_utils', fromlist=['make_mocked_request']).make_mocked_request

    def _cfg(self, c):
        return self.DeployConfig('external', 'default', c['domain'], c['base_path'])

    def _real_netloc(self, url):
        """real urllib.parse.urlparse (the name auth.py imported) -> model observable"""
        try:
            n = self.auth.urlparse(url).netloc
        except ValueError:
            return None
        return None if is_exotic(n) else n

    def _real_accepts(self, c):
        self.auth.deploy_config = self._cfg(c)
        try:
            self.auth.validate_next_page_url(c['url'])
            return True
        except (self.web.HTTPBadRequest, ValueError):
            return False

    def base_host(self, c):
        return self._cfg(c).domain('auth')

    def hail_hosts(self, c):
        cfg = self._cfg(c)
        return [cfg.domain(s) for s in SERVICES]

    @staticmethod
    def show_dest(d):
        if d[0] == 'host':
            return f"host:{enc(d[1])}:{enc(d[2])}:{'default' if d[3] is None else d[3]}"
        if d[0] == 'blocked':
            return f'blocked:{enc(d[1])}'
        if d[0] == 'failure':
            return 'failure'
        return f'unmodelled:{enc(d[1])}'

    def _url_impl(self, c):
        url = c['url']
        n = self._real_netloc(url)
        py = 'exotic' if n is None else 'ok:' + enc(n)
        cfg = self._cfg(c)
        acc = self._real_accepts(c)
        if url == '':
            verdict = 'accept' if acc else 'deny'
        elif any(self._real_netloc(cfg.external_url(s, '/')) is None for s in SERVICES):
            verdict = 'unmodelled'
        else:
            verdict = 'accept' if acc else 'deny'
        dest = whatwg_url.destination(url, self.base_host(c))
        return [f'py={py} verdict={verdict} dest={self.show_dest(dest)}']

    def _url_model_lines(self, c):
        return [f"{enc(c['domain'])} {'N' if c['base_path'] is None else enc(c['base_path'])} {enc(c['url'])}"]

    # ---- the property on the real behaviour ------------------------------------------------------------------------------------
    def _judge(self, c, location, via):
        d = whatwg_url.destination(location, self.base_host(c))
        hosts = self.hail_hosts(c)
        if d[0] == 'host':
            if d[2] in hosts:
                return None
            return f'foreign-host: accepted next={c["url"]!r} {via}: the browser lands on {d[1]}://{d[2]} which is not one of {hosts}'
        if d[0] == 'blocked':
            return (f'non-http-scheme-accepted: next={c["url"]!r} {via}: scheme {d[1]!r} is not http(s); the browser does not land on a '
                    f'Hail host (redirect refused; as a link/script navigation it runs in the auth origin)')
        if d[0] == 'failure':
            return f'unparseable-accepted: next={c["url"]!r} {via}: the browser cannot parse it'
        return f'unmodelled-host-accepted: next={c["url"]!r} {via}: host {d[1]!r} needs IDNA/IPv6 parsing'

    def plain_cfg(self, c):
        """the deployments the property is claimed for (assumptions[0]); stated independently of the Lean `plainCfg`"""
        import re
        bp = c['base_path']
        if not (bp is None or bp == '' or bp.startswith('/')):
            return False
        for h in self.hail_hosts(c):
            if not re.fullmatch(r'[a-z0-9.-]+', h) or whatwg_url.ends_in_a_number(h) or any(l.startswith('xn--') for l in h.split('.')):
                return False
        return True

    def _url_oracle(self, c, out):
        if out[0].startswith('IMPL-EXC'):
            return out[0]
        if not self.plain_cfg(c) or not self._real_accepts(c):
            return None
        msg = self._judge(c, c['url'], '')
        if msg:
            return msg
        # what the installed aiohttp actually puts into the Location header of `raise web.HTTPFound(next_page)`
        try:
            loc = self.web.HTTPFound(c['url']).headers['Location']
        except Exception:
            return None     # no redirect is emitted (500): nothing to follow
        if loc != c['url']:
            return self._judge(c, loc, f'(Location header {loc!r})')
        return None

    # ==== the flow: /login, /signup, /oauth2callback, /creating =========================================================================
    IDP = 'https://accounts.idp.example/o/oauth2/auth?state=xyz'
    NEXTS = ['https://batch.{d}/batches/3', 'https://ci.{d}/', 'http://monitoring.{d}/x?y=1', 'https://evil.com/', 'https://evil.com/?//auth.{d}',
             '//evil.com/x', 'javascript://auth.{d}/%0aalert(1)', 'https://auth.{d}@evil.com/', 'https://auth.{d}%2F@evil.com/',
             'https://auth.{d}.evil.com/', 'https:/\\evil.com', '/user', '', 'https://notebook.{d}/', 'data://ci.{d}/,x', 'https://AUTH.{d}/']

    def _flow_setup(self):
        if getattr(self, '_flow_ready', False):
            return
        import asyncio
        import types
        a, web = self.auth, self.web
        self.flow_loop = asyncio.new_event_loop()
        self.session_store = {}

        class Session(dict):
            pass
        fake = types.ModuleType('aiohttp_session')

        async def get_session(request):
            return self.session_store.setdefault('s', Session())

        async def new_session(request):
            self.session_store['s'] = Session()
            return self.session_store['s']
        fake.get_session, fake.new_session = get_session, new_session
        a.aiohttp_session = fake

        async def render_template(service, request, userdata, file, page_context, status_code=200, **k):
            self.flow_env['rendered'] = file
            return web.Response(status=status_code, text=file)
        a.render_template = render_template

        async def insert_new_user(db, username, login_id, **k):
            if not self.flow_env['signup_ok']:
                raise a.DuplicateUsername('erin', 'erin@org.example')
            self.flow_env['inserted'] = (username, login_id)
            return True

        async def create_session(db, user_id, *args, **k):
            return 'session-' + str(user_id)
        a.insert_new_user, a.create_session = insert_new_user, create_session

        async def session_user(request):
            # the browser's own session: an already signed-in user when the case says so
            if self.flow_env.get('signed_in'):
                return {'id': 7, 'username': 'erin', 'login_id': 'erin@org.example', 'state': 'active', 'is_developer': 0,
                        'is_service_account': 0, 'namespace_name': 'default', 'hail_credentials_secret_name': 'x', 'tokens_secret_name': 'y'}
            return None
        a.auth._fetch_userdata = session_user
        prop = self

        class DB:
            async def select_and_fetchall(self_, sql, args=None):
                st = prop.flow_env['account']
                if st != 'none':
                    yield {'id': 7, 'username': 'erin', 'login_id': 'erin@org.example', 'state': st, 'is_developer': 0}

        class FlowClient:
            def initiate_flow(self_, redirect_uri):
                return {'authorization_url': prop.IDP, 'state': 'xyz'}

            def receive_callback(self_, request, flow_dict):
                return types.SimpleNamespace(login_id='erin@org.example', unverified_email='erin@org.example', organization_id='org.example', token={})

            def organization_id(self_):
                return 'org.example'
        app = web.Application()
        app[a.AppKeys.DB] = DB()
        app[a.AppKeys.FLOW_CLIENT] = FlowClient()
        self.flow_app = app
        self.flow_routes = {(r.method, r.path): r.handler for r in a.routes if hasattr(r, 'method')}
        self._flow_ready = True

    def _flow_run(self, c):
        """one step of the flow on the REAL handler; returns (status, Location or None)"""
        k = json.dumps(c, sort_keys=True)
        if k in self._flow_cache:
            return self._flow_cache[k]
        self._flow_setup()
        from urllib.parse import quote
        a, web = self.auth, self.web
        a.deploy_config = self._cfg(c)
        self.flow_env = {'account': c.get('account', 'none'), 'signup_ok': bool(c.get('signup_ok', True)), 'inserted': None,
                         'signed_in': bool(c.get('signed_in'))}
        step, nxt = c['step'], c['next']
        sess = self.session_store.setdefault('s', {})
        sess.clear()
        if step in ('login', 'signup'):
            path = '/' + step + ('' if nxt is None else '?next=' + quote(nxt, safe=''))
            key = ('GET', '/' + step)
        elif step == 'callback':
            if c.get('has_flow', True):
                sess.update({'flow': {'state': 'xyz'}, 'caller': c['caller']})
            else:
                sess.update({'caller': c['caller']})
            if nxt is not None:
                sess['next'] = nxt          # however it got there: through /login, an old session, another code path
            path, key = '/oauth2callback?code=abc', ('GET', '/oauth2callback')
        else:
            if c.get('pending', True):
                sess.update({'pending': True, 'login_id': 'erin@org.example'})
            if nxt is not None:
                sess['next'] = nxt
            path, key = '/creating', ('GET', '/creating')
        req = self.mk('GET', path, app=self.flow_app)
        try:
            resp = self.flow_loop.run_until_complete(self.flow_routes[key](req))
            res = (resp.status if not self.flow_env.get('rendered') else 200, resp.headers.get('Location'))
        except web.HTTPException as e:
            res = (e.status, e.headers.get('Location'))
        except AssertionError:
            res = (500, None)
        except ValueError:
            res = (400, None)        # urlparse's own refusal (bracket / NFKC checks): the request is refused
        self._flow_cache[k] = res
        return res

    def _flow_impl(self, c):
        status, loc = self._flow_run(c)
        cfg = self._cfg(c)
        if 300 <= status < 400:
            nxt = c['next'] if c['next'] is not None else cfg.external_url('auth', '/user')
            # aiohttp re-serialises the Location through yarl: compare the browser destinations, not the strings
            def same(u):
                try:
                    return loc == u or loc == str(self.web.HTTPFound(u).headers['Location'])
                except Exception:
                    return False
            if loc == self.IDP:
                return ['redirect:idp']
            if same(cfg.external_url('auth', '/creating')):
                return ['redirect:creating']
            if same(cfg.external_url('auth', '')):
                return ['redirect:home']
            if same(nxt):
                return ['redirect:next']
            return ['redirect:other:' + enc(loc or '')]
        if status in (400, 401, 500):
            return [str(status)]
        return ['page']

    def _flow_model_lines(self, c):
        head = f"flow {enc(c['domain'])} {'N' if c['base_path'] is None else enc(c['base_path'])} {'N' if c['next'] is None else enc(c['next'])}"
        if c['step'] in ('login', 'signup'):
            return [head + ' entry']
        if c['step'] == 'callback':
            return [head + f" cb {1 if c.get('has_flow', True) else 0} {c['caller']} {c['account']} {1 if c.get('signup_ok', True) else 0}"]
        return [head + f" cr {1 if c.get('pending', True) else 0} {c['account']}"]

    def _flow_oracle(self, c, out):
        """every 3xx the service emits in the flow must send the browser to a Hail host (the hop to the identity provider excepted)"""
        status, loc = self._flow_run(c)
        if not (300 <= status < 400) or loc == self.IDP:
            return None
        if loc is None:
            return f'flow {c["step"]}: {status} without Location'
        d = whatwg_url.destination(loc, self.base_host(c))
        hosts = self.hail_hosts(c)
        if d[0] == 'host' and d[2] in hosts:
            return None
        return (f'flow-foreign-redirect: /{"oauth2callback" if c["step"] == "callback" else c["step"]} ({"already signed in, " if c.get("signed_in") else ""}session caller {c.get("caller")!r}, account '
                f'{c.get("account")!r}, next {c["next"]!r}) answered {status} Location {loc!r}: the browser ends at {d}, not on one of {hosts}')

    def _flow_cases(self, rng):
        cfgs = [('hail.is', None), ('hail.is', None), ('internal.hail.is', '/ns1')]
        for domain, bp in cfgs:
            nexts = [None] + [t.format(d=domain) for t in self.NEXTS] + [self.gen_url(rng, domain, bp) for _ in range(6)]
            cfg = self.DeployConfig('external', 'default', domain, bp)
            fixed = {cfg.external_url('auth', ''), cfg.external_url('auth', '/creating'), cfg.external_url('auth', '') + '/'}
            for nxt in nexts:
                if nxt in fixed:
                    continue      # the redirect could not be told apart from the handler's own fixed targets
                base = {'kind': 'flow', 'domain': domain, 'base_path': bp, 'next': nxt}
                for signed_in in (False, True):      # also for a browser that already has a valid session
                    yield {**base, 'step': 'login', 'signed_in': signed_in}
                    yield {**base, 'step': 'signup', 'signed_in': signed_in}
                yield {**base, 'step': 'callback', 'caller': 'login', 'account': 'active', 'signed_in': True}
                yield {**base, 'step': 'creating', 'account': 'active', 'signed_in': True}
                for caller in ('login', 'signup'):
                    for account in ('none', 'creating', 'active', 'inactive', 'deleting', 'deleted'):
                        yield {**base, 'step': 'callback', 'caller': caller, 'account': account}
                    yield {**base, 'step': 'callback', 'caller': caller, 'account': 'none', 'signup_ok': False}
                    yield {**base, 'step': 'callback', 'caller': caller, 'account': 'active', 'has_flow': False}
                for account in ('none', 'creating', 'active', 'inactive', 'deleting', 'deleted'):
                    yield {**base, 'step': 'creating', 'account': account}
                yield {**base, 'step': 'creating', 'account': 'active', 'pending': False}

    # ---- dispatch on the kind of case ---------------------------------------------------------------------------------------------
    def impl(self, c):
        return self._flow_impl(c) if c.get('kind') == 'flow' else self._url_impl(c)

    def model_lines(self, c):
        return self._flow_model_lines(c) if c.get('kind') == 'flow' else self._url_model_lines(c)

    def oracle(self, c, out):
        if out and out[0].startswith('IMPL-EXC'):
            return out[0]
        return self._flow_oracle(c, out) if c.get('kind') == 'flow' else self._url_oracle(c, out)

    def classify(self, c, out):
        if c.get('kind') == 'flow':
            return (json.dumps(c, sort_keys=True) if out[0].startswith('redirect') else None, [f"flow:{c['step']}:{out[0].split(':e')[0][:20]}"])
        return self._url_classify(c, out)

    def finding_key(self, c, msg):
        if msg.startswith('non-http-scheme-accepted'):
            return KEY_SCHEME
        return msg.split(':', 1)[0] + ' ' + json.dumps(c, sort_keys=True)

    def _url_classify(self, c, out):
        line = out[0]
        tags = []
        if line.startswith('py='):
            py, verdict, dest = line.split(' ')
            tags.append(verdict)
            tags.append('dest=' + dest[5:].split(':')[0])
            tags.append('py=' + py[3:].split(':')[0])
        u = c['url']
        n = self._real_netloc(u)
        for name, pred in (('has-backslash', '\\' in u), ('has-at', '@' in u), ('has-control', any(ord(ch) < 0x20 for ch in u)),
                           ('non-ascii', any(ord(ch) > 0x7f for ch in u)), ('has-percent', '%' in u),
                           ('base-path-config', c['base_path'] is not None)):
            if pred:
                tags.append(name)
        hosts = self.hail_hosts(c)
        accepted = ' verdict=accept ' in line
        near = (n is not None and n not in hosts and any(h and (h in n or (n and n in h)) for h in hosts)) or \
               (n is None and any(h and h in u for h in hosts))
        if near:
            tags.append('near-miss')
        sch = self.auth.urlparse(u).scheme if n is not None else '?'
        tags.append('scheme=' + (sch if sch in ('', 'http', 'https', '?') else 'other'))
        return (json.dumps(c, sort_keys=True) if (accepted or near) else None, tags)

    # ---- generator -----------------------------------------------------------------------------------------------------------
    CONFIGS = [('hail.is', None)] * 8 + [('hail.populationgenomics.org.au', None)] * 3 + [('internal.hail.is', '/ns1')] * 3 + [
        ('internal.hail.is', ''), ('localhost', None), ('Hail.IS', None), ('hail.is:8443', None), ('1.2.3', None), ('0x10', '/d'),
        ('xn--hil-ula.is', None), ('hail.is/x', None), ('h@il.is', None), ('[::1]', '/p'), ('héil.is', None), ('hail.is', 'nb'),
        ('a-b.c', '/x\ty'), ('hail.is.', None), ('', None), ('hail.is', '/a/b'),
    ]
    LEAD = [''] * 10 + [' ', '\t', '\n', '\x00', '\x01\x1f ', ' ', '\r\n', '\x0b']
    SCHEMES = [''] * 4 + ['https'] * 16 + ['http'] * 8 + [ 'HTTPS', 'hTtP', 'javascript', 'data', 'vbscript', 'ftp', 'file', 'ws',
               'wss', 'mailto', 'x-y+z.1', 'blob', '1http', 'ht tp', 'http\t', 'ht\ntps', '+http', 'h', 'https​', 'view-source', 'intent']
    COLON = [':'] * 12 + ['', '::', ' :', ':\t']
    SLASHES = ['//'] * 30 + ['/', '', '\\\\', '/\\', '\\/', '///', '////', '/\t/', '//\\', '/ /', '/\n/']
    USERINFO = [''] * 30 + ['user@', 'u:p@', '@', '@@', 'a\\@', 'a%40b@', ':@']
    PORT = [''] * 40 + [':443', ':80', ':8443', ':', ':99999', ':8a', ':０', ':0443', ':65535', ':65536']
    TAIL = ['', '', '/', '/', '/path?x=1#f', '?q', '#f', '\\x', '/\\evil.com', '@evil.com', '/@evil.com', ';p', ' ', '\x01', '\n', '/%0aalert(1)',
            '/..//evil.com', '.evil.com/', ':p@evil.com/', '\t', '/a b', '?next=//evil.com', '\\@evil.com']
    FOREIGN = ['evil.com', 'evil.com', 'EVIL.com', '127.1', '0x7f.1', '[::1]', '[v1.x]', '[::1', '', 'localhost', '169.254.169.254', '1.2.3.4.5',
               'xn--evil', 'ev%69l.com', 'ⓔvil.com', 'a..b', '%00', 'e vil.com', '4294967295', '0x.0x.0', '1.1.1.256', 'a.0x', '08', '%']
    # percent-encoded delimiters (upper / lower hex, double and triple encoding): a validator that decodes before parsing sees a
    # different authority than the browser, which gets the raw string
    ENC = ['%2F', '%2f', '%23', '%3F', '%3f', '%5C', '%5c', '%40', '%3A', '%3a', '%252F', '%2523', '%2540', '%25252F', '%09', '%0a', '%00',
           '%2E', '%20']
    AFFIX = '0123456789:.-@/\\%'     # what may be glued to an allowed host: digits (ports without colon), separators, escapes
    MUT_CHARS = list('/\\@:?#.%[]- \t\n\r\x00\x1fhaisAZ09+;&=') + ['。', '．', '｡', 'é', '℀', '／', '​', '\U0001f600']

    def _host_variant(self, rng, hosts, domain):
        h = rng.choice(hosts) if hosts else ''
        r = rng.random()
        if r < 0.45:
            return h
        if r < 0.55:
            return rng.choice(self.FOREIGN)
        if r < 0.72:
            # an allowed host with a short affix over the alphabet of port digits and separators, appended or prepended
            aff = ''.join(rng.choice(self.AFFIX) for _ in range(rng.choice([1, 1, 2, 2, 3])))
            return h + aff if rng.random() < 0.7 else aff + h
        if r < 0.80:
            e, e2 = rng.choice(self.ENC), rng.choice(self.ENC)
            f = rng.choice(['evil.com', 'evil.com', 'EVIL.com', '127.1', 'evil.com:8443', h + '.evil.com'])
            return rng.choice([
                h + e + '@' + f, h + e + '@' + f, h + e + f, h + e + e2 + '@' + f, h + e + '@' + f + e2, f + e + '@' + h, 'u' + e + 'p@' + h,
                'u:' + e + '@' + h, h + ':' + e + '@' + f, h + ':443' + e + '@' + f, h + e, e + h, h + '@' + f + e + h, h + e + ':80@' + f,
                'user' + e + h + '@' + f, h + e + '.' + f,
            ])
        variants = [
            h.upper(), h + '.', h + '.evil.com', 'evil.com.' + h, 'evil' + h, 'x.' + domain, 'x' + domain, domain, h[1:], h[:-1],
            h[:len(h) // 2], h[len(h) // 2:], h.replace('.', '。'), h.replace('.', '．', 1), h.replace('.', '%2e', 1),
            h[:2] + '\t' + h[2:], h[:2] + '\n' + h[2:], h[:3] + '%' + '%02x' % ord(h[3]) + h[4:] if len(h) > 4 else h,
            h + '\x00', h + ' ', ' ' + h, h + '\\', h + '@' + 'evil.com', 'evil.com@' + h, h.capitalize(), h.replace('a', 'ａ', 1),
            h + ':', h + '%', 'www.' + h, 'www.' + domain, rng.choice(SERVICES) + '.' + domain, 'notebook.' + domain, domain.split('.', 1)[-1],
        ]
        return rng.choice(variants)

    def gen_url(self, rng, domain, base_path):
        cfg = self.DeployConfig('external', 'default', domain, base_path)
        hosts = [cfg.domain(s) for s in SERVICES]
        scheme = rng.choice(self.SCHEMES)
        u = rng.choice(self.LEAD)
        if scheme:
            u += scheme + rng.choice(self.COLON)
        u += rng.choice(self.SLASHES)
        u += rng.choice(self.USERINFO)
        u += self._host_variant(rng, hosts, domain)
        u += rng.choice(self.PORT)
        u += rng.choice(self.TAIL)
        r = rng.random()
        if r < 0.25:
            chars = list(u)
            for _ in range(rng.choice([1, 1, 2, 3])):
                op = rng.random()
                pos = rng.randint(0, len(chars))
                if op < 0.45:
                    chars.insert(pos, rng.choice(self.MUT_CHARS))
                elif op < 0.75 and chars:
                    del chars[min(pos, len(chars) - 1)]
                elif chars:
                    chars[min(pos, len(chars) - 1)] = rng.choice(self.MUT_CHARS)
            u = ''.join(chars)
        elif r < 0.28:
            u = ''.join(rng.choice(self.MUT_CHARS) for _ in range(rng.randint(0, 8)))
        return u

    def _affix_cases(self):
        """exhaustive: every string of length <= 2 over AFFIX appended / prepended to two of the allowed hosts, for both schemes"""
        import itertools
        affixes = [''.join(t) for k in (1, 2) for t in itertools.product(self.AFFIX, repeat=k)]
        for host in ('auth.hail.is', 'ci.hail.is'):
            for scheme in ('https', 'http'):
                for aff in affixes:
                    for netloc in (host + aff, aff + host):
                        yield {'domain': 'hail.is', 'base_path': None, 'url': f'{scheme}://{netloc}/x'}

    def cases(self, rng, n, tier):
        yield from self._flow_cases(rng)
        yield from self._affix_cases()
        for _ in range(n):
            domain, bp = rng.choice(self.CONFIGS)
            yield {'domain': domain, 'base_path': bp, 'url': self.gen_url(rng, domain, bp)}

    def shrink(self, c, fails):
        """delete characters of the URL while the SAME kind of failure (foreign host / non-http scheme / …) remains"""
        if c.get('kind') == 'flow':
            return c
        cur = dict(c)
        m0 = self.oracle(cur, self.impl(cur))
        if not m0 or not fails(cur):
            return cur
        kind = m0.split(':', 1)[0]

        def f(chars):
            c2 = {**cur, 'url': ''.join(chars)}
            if not fails(c2):
                return False
            m2 = self.oracle(c2, self.impl(c2))
            return bool(m2) and m2.split(':', 1)[0] == kind
        cur['url'] = ''.join(generic_shrink_list(list(cur['url']), f))
        return cur


PROP = C29()

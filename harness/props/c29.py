"""C29 Post-login redirects stay on Hail hosts.

Real code: auth/auth/auth.py `validate_next_page_url` (imported unmodified; module global `deploy_config` replaced by a real
`hailtop.config.deploy_config.DeployConfig` built from the case's domain / base path) and the stdlib `urlparse` it calls.
Model: lean/HailVerif/Model/NextUrl.lean (`pyNetloc`, `validate`, `browserDest`).
The "browser" of the oracle is harness/whatwg_url.py, a state-by-state transcription of the WHATWG URL parser (no browser exists in
the sandbox); it is compared with the functional Lean `browserDest` on every case."""
import json

from .. import loader, svcenv, whatwg_url
from ..framework import Prop, generic_shrink_list

SERVICES = ['batch', 'auth', 'ci', 'monitoring']
KEY_SCHEME = 'validate_next_page_url accepts a URL whose scheme is not http(s)'


def enc(s):
    return 'e' if s == '' else ','.join(str(ord(c)) for c in s)


def is_exotic(netloc):
    return any(c in '[]' or ord(c) >= 0x80 for c in netloc)


class C29(Prop):
    id = 'C29'
    title = 'Post-login redirects stay on Hail hosts'
    lean_props = ['HailVerif.Props.C29']
    driver = 'Driver/C29.lean'
    engine = 'E3-pure'
    design_ref = 'DESIGN.md §4 C29'
    technique = ('Lean 4 theorems relating a model of CPython 3.12 urlsplit().netloc + validate_next_page_url to a transcription of the '
                 'WHATWG URL parser; differential correspondence of the Python half with the real validate_next_page_url/urlparse on a '
                 'grammar-based URL fuzzer; the browser half cross-checked against an independent state-machine transcription')
    level_text = ('For every deploy config whose four service hosts are plain lower-case DNS names and every string s: if the model of '
                  'validate_next_page_url (scheme in (http, https) and netloc verbatim one of the four hosts) accepts s, the WHATWG parse of s '
                  '(base https://<auth host>/) is an http(s) URL whose host is exactly one of the four Hail hosts on the default port '
                  '(accepted_lands_on_hail, no further hypothesis). The validator as it was before commit 46b6e6f3a is kept as validateOld: '
                  'the statement is refuted for it in Lean on javascript://auth.hail.is/%0aalert(1). The model of the Python half is compared '
                  'with the real validator and the real urlparse on every run.')
    level_note = ('PARTIAL: browserDest is a hand transcription of the WHATWG URL Standard (scheme/authority/host/port states, ASCII '
                  'fast path of domain-to-ASCII, IPv4 parser) and of the Fetch rule that redirects to non-http(s) schemes are network '
                  'errors; it is cross-checked only against a second transcription (harness/whatwg_url.py), never against a browser. '
                  'IPv6 literals, IDNA/punycode hosts are an explicit `unmodelled` outcome (they never arise for accepted URLs). CPython\'s '
                  'bracket/ipaddress/NFKC checks are abstracted to the outcome `exotic` (netloc with [ ] or non-ASCII: ValueError or a '
                  'netloc that cannot equal a plain host). The re-serialisation of the Location header by aiohttp/yarl is observed by the '
                  'oracle but not modelled.')
    rule = ('case = (deploy-config domain, base path, next URL); URLs from a grammar (leading controls × scheme × colon × slashes/backslashes '
            '× userinfo × host variants of the configured Hail hosts and foreign hosts × port × tail) with random character mutations; '
            'non-trivial = the real validator accepts, or the netloc mentions a configured Hail host without being equal to it (near miss); '
            'distinct by full case')
    trusted = ['harness/whatwg_url.py and Model/NextUrl.browserDest: transcriptions of the WHATWG URL Standard / Fetch redirect rule, not '
               'compared with any browser', 'harness/svcenv.py: env vars and global-config the auth module reads at import',
               'shim prometheus_async.aio.web, stub googlecloudprofiler']
    assumptions = ['deploy config domain is a plain lower-case DNS name (letters, digits, -, .), not IPv4-like, no xn-- label; base path '
                   'empty or starting with /', 'the browser follows the redirect as the WHATWG URL / Fetch standards prescribe',
                   'the Location header carries the accepted string (aiohttp/yarl re-quoting observed, not modelled)']
    budget = {'quick': 8000, 'thorough': 100000}
    search_budget = {'quick': 8000, 'thorough': 100000}

    # ---- real code ---------------------------------------------------------------------------------------------------------
    def setup(self, repo):
        loader.install(repo)
        svcenv.prepare()
        import auth.auth as a
        from aiohttp import web
        from hailtop.config.deploy_config import DeployConfig
        self.auth = a
        self.web = web
        self.DeployConfig = DeployConfig

    def _cfg(self, c):
        return self.DeployConfig('external', 'default', c['domain'], c['base_path'])

    def _real_netloc(self, url):
        """real urllib.parse.urlparse (the name auth.py imported) -> model observable"""
        try:
            n = self.auth.urlparse(url).netloc
        except ValueError:
            return None
        return None if is_exotic(n) else n

    def _real_accepts(self, c):
        self.auth.deploy_config = self._cfg(c)
        try:
            self.auth.validate_next_page_url(c['url'])
            return True
        except (self.web.HTTPBadRequest, ValueError):
            return False

    def base_host(self, c):
        return self._cfg(c).domain('auth')

    def hail_hosts(self, c):
        cfg = self._cfg(c)
        return [cfg.domain(s) for s in SERVICES]

    @staticmethod
    def show_dest(d):
        if d[0] == 'host':
            return f"host:{enc(d[1])}:{enc(d[2])}:{'default' if d[3] is None else d[3]}"
        if d[0] == 'blocked':
            return f'blocked:{enc(d[1])}'
        if d[0] == 'failure':
            return 'failure'
        return f'unmodelled:{enc(d[1])}'

    def impl(self, c):
        url = c['url']
        n = self._real_netloc(url)
        py = 'exotic' if n is None else 'ok:' + enc(n)
        cfg = self._cfg(c)
        acc = self._real_accepts(c)
        if url == '':
            verdict = 'accept' if acc else 'deny'
        elif any(self._real_netloc(cfg.external_url(s, '/')) is None for s in SERVICES):
            verdict = 'unmodelled'
        else:
            verdict = 'accept' if acc else 'deny'
        dest = whatwg_url.destination(url, self.base_host(c))
        return [f'py={py} verdict={verdict} dest={self.show_dest(dest)}']

    def model_lines(self, c):
        return [f"{enc(c['domain'])} {'N' if c['base_path'] is None else enc(c['base_path'])} {enc(c['url'])}"]

    # ---- the property on the real behaviour ------------------------------------------------------------------------------------
    def _judge(self, c, location, via):
        d = whatwg_url.destination(location, self.base_host(c))
        hosts = self.hail_hosts(c)
        if d[0] == 'host':
            if d[2] in hosts:
                return None
            return f'foreign-host: accepted next={c["url"]!r} {via}: the browser lands on {d[1]}://{d[2]} which is not one of {hosts}'
        if d[0] == 'blocked':
            return (f'non-http-scheme-accepted: next={c["url"]!r} {via}: scheme {d[1]!r} is not http(s); the browser does not land on a '
                    f'Hail host (redirect refused; as a link/script navigation it runs in the auth origin)')
        if d[0] == 'failure':
            return f'unparseable-accepted: next={c["url"]!r} {via}: the browser cannot parse it'
        return f'unmodelled-host-accepted: next={c["url"]!r} {via}: host {d[1]!r} needs IDNA/IPv6 parsing'

    def plain_cfg(self, c):
        """the deployments the property is claimed for (assumptions[0]); stated independently of the Lean `plainCfg`"""
        import re
        bp = c['base_path']
        if not (bp is None or bp == '' or bp.startswith('/')):
            return False
        for h in self.hail_hosts(c):
            if not re.fullmatch(r'[a-z0-9.-]+', h) or whatwg_url.ends_in_a_number(h) or any(l.startswith('xn--') for l in h.split('.')):
                return False
        return True

    def oracle(self, c, out):
        if out[0].startswith('IMPL-EXC'):
            return out[0]
        if not self.plain_cfg(c) or not self._real_accepts(c):
            return None
        msg = self._judge(c, c['url'], '')
        if msg:
            return msg
        # what the installed aiohttp actually puts into the Location header of `raise web.HTTPFound(next_page)`
        try:
            loc = self.web.HTTPFound(c['url']).headers['Location']
        except Exception:
            return None     # no redirect is emitted (500): nothing to follow
        if loc != c['url']:
            return self._judge(c, loc, f'(Location header {loc!r})')
        return None

    def finding_key(self, c, msg):
        if msg.startswith('non-http-scheme-accepted'):
            return KEY_SCHEME
        return msg.split(':', 1)[0] + ' ' + json.dumps(c, sort_keys=True)

    def classify(self, c, out):
        line = out[0]
        tags = []
        if line.startswith('py='):
            py, verdict, dest = line.split(' ')
            tags.append(verdict)
            tags.append('dest=' + dest[5:].split(':')[0])
            tags.append('py=' + py[3:].split(':')[0])
        u = c['url']
        n = self._real_netloc(u)
        for name, pred in (('has-backslash', '\\' in u), ('has-at', '@' in u), ('has-control', any(ord(ch) < 0x20 for ch in u)),
                           ('non-ascii', any(ord(ch) > 0x7f for ch in u)), ('has-percent', '%' in u),
                           ('base-path-config', c['base_path'] is not None)):
            if pred:
                tags.append(name)
        hosts = self.hail_hosts(c)
        accepted = ' verdict=accept ' in line
        near = (n is not None and n not in hosts and any(h and (h in n or (n and n in h)) for h in hosts)) or \
               (n is None and any(h and h in u for h in hosts))
        if near:
            tags.append('near-miss')
        sch = self.auth.urlparse(u).scheme if n is not None else '?'
        tags.append('scheme=' + (sch if sch in ('', 'http', 'https', '?') else 'other'))
        return (json.dumps(c, sort_keys=True) if (accepted or near) else None, tags)

    # ---- generator -----------------------------------------------------------------------------------------------------------
    CONFIGS = [('hail.is', None)] * 8 + [('hail.populationgenomics.org.au', None)] * 3 + [('internal.hail.is', '/ns1')] * 3 + [
        ('internal.hail.is', ''), ('localhost', None), ('Hail.IS', None), ('hail.is:8443', None), ('1.2.3', None), ('0x10', '/d'),
        ('xn--hil-ula.is', None), ('hail.is/x', None), ('h@il.is', None), ('[::1]', '/p'), ('héil.is', None), ('hail.is', 'nb'),
        ('a-b.c', '/x\ty'), ('hail.is.', None), ('', None), ('hail.is', '/a/b'),
    ]
    LEAD = [''] * 10 + [' ', '\t', '\n', '\x00', '\x01\x1f ', ' ', '\r\n', '\x0b']
    SCHEMES = [''] * 4 + ['https'] * 16 + ['http'] * 8 + [ 'HTTPS', 'hTtP', 'javascript', 'data', 'vbscript', 'ftp', 'file', 'ws',
               'wss', 'mailto', 'x-y+z.1', 'blob', '1http', 'ht tp', 'http\t', 'ht\ntps', '+http', 'h', 'https​', 'view-source', 'intent']
    COLON = [':'] * 12 + ['', '::', ' :', ':\t']
    SLASHES = ['//'] * 30 + ['/', '', '\\\\', '/\\', '\\/', '///', '////', '/\t/', '//\\', '/ /', '/\n/']
    USERINFO = [''] * 30 + ['user@', 'u:p@', '@', '@@', 'a\\@', 'a%40b@', ':@']
    PORT = [''] * 40 + [':443', ':80', ':8443', ':', ':99999', ':8a', ':０', ':0443', ':65535', ':65536']
    TAIL = ['', '', '/', '/', '/path?x=1#f', '?q', '#f', '\\x', '/\\evil.com', '@evil.com', '/@evil.com', ';p', ' ', '\x01', '\n', '/%0aalert(1)',
            '/..//evil.com', '.evil.com/', ':p@evil.com/', '\t', '/a b', '?next=//evil.com', '\\@evil.com']
    FOREIGN = ['evil.com', 'evil.com', 'EVIL.com', '127.1', '0x7f.1', '[::1]', '[v1.x]', '[::1', '', 'localhost', '169.254.169.254', '1.2.3.4.5',
               'xn--evil', 'ev%69l.com', 'ⓔvil.com', 'a..b', '%00', 'e vil.com', '4294967295', '0x.0x.0', '1.1.1.256', 'a.0x', '08', '%']
    # percent-encoded delimiters (upper / lower hex, double and triple encoding): a validator that decodes before parsing sees a
    # different authority than the browser, which gets the raw string
    ENC = ['%2F', '%2f', '%23', '%3F', '%3f', '%5C', '%5c', '%40', '%3A', '%3a', '%252F', '%2523', '%2540', '%25252F', '%09', '%0a', '%00',
           '%2E', '%20']
    MUT_CHARS = list('/\\@:?#.%[]- \t\n\r\x00\x1fhaisAZ09+;&=') + ['。', '．', '｡', 'é', '℀', '／', '​', '\U0001f600']

    def _host_variant(self, rng, hosts, domain):
        h = rng.choice(hosts) if hosts else ''
        r = rng.random()
        if r < 0.45:
            return h
        if r < 0.55:
            return rng.choice(self.FOREIGN)
        if r < 0.67:
            e, e2 = rng.choice(self.ENC), rng.choice(self.ENC)
            f = rng.choice(['evil.com', 'evil.com', 'EVIL.com', '127.1', 'evil.com:8443', h + '.evil.com'])
            return rng.choice([
                h + e + '@' + f, h + e + '@' + f, h + e + f, h + e + e2 + '@' + f, h + e + '@' + f + e2, f + e + '@' + h, 'u' + e + 'p@' + h,
                'u:' + e + '@' + h, h + ':' + e + '@' + f, h + ':443' + e + '@' + f, h + e, e + h, h + '@' + f + e + h, h + e + ':80@' + f,
                'user' + e + h + '@' + f, h + e + '.' + f,
            ])
        variants = [
            h.upper(), h + '.', h + '.evil.com', 'evil.com.' + h, 'evil' + h, 'x.' + domain, 'x' + domain, domain, h[1:], h[:-1],
            h[:len(h) // 2], h[len(h) // 2:], h.replace('.', '。'), h.replace('.', '．', 1), h.replace('.', '%2e', 1),
            h[:2] + '\t' + h[2:], h[:2] + '\n' + h[2:], h[:3] + '%' + '%02x' % ord(h[3]) + h[4:] if len(h) > 4 else h,
            h + '\x00', h + ' ', ' ' + h, h + '\\', h + '@' + 'evil.com', 'evil.com@' + h, h.capitalize(), h.replace('a', 'ａ', 1),
            h + ':', h + '%', 'www.' + h, 'www.' + domain, rng.choice(SERVICES) + '.' + domain, 'notebook.' + domain, domain.split('.', 1)[-1],
        ]
        return rng.choice(variants)

    def gen_url(self, rng, domain, base_path):
        cfg = self.DeployConfig('external', 'default', domain, base_path)
        hosts = [cfg.domain(s) for s in SERVICES]
        scheme = rng.choice(self.SCHEMES)
        u = rng.choice(self.LEAD)
        if scheme:
            u += scheme + rng.choice(self.COLON)
        u += rng.choice(self.SLASHES)
        u += rng.choice(self.USERINFO)
        u += self._host_variant(rng, hosts, domain)
        u += rng.choice(self.PORT)
        u += rng.choice(self.TAIL)
        r = rng.random()
        if r < 0.25:
            chars = list(u)
            for _ in range(rng.choice([1, 1, 2, 3])):
                op = rng.random()
                pos = rng.randint(0, len(chars))
                if op < 0.45:
                    chars.insert(pos, rng.choice(self.MUT_CHARS))
                elif op < 0.75 and chars:
                    del chars[min(pos, len(chars) - 1)]
                elif chars:
                    chars[min(pos, len(chars) - 1)] = rng.choice(self.MUT_CHARS)
            u = ''.join(chars)
        elif r < 0.28:
            u = ''.join(rng.choice(self.MUT_CHARS) for _ in range(rng.randint(0, 8)))
        return u

    def cases(self, rng, n, tier):
        for _ in range(n):
            domain, bp = rng.choice(self.CONFIGS)
            yield {'domain': domain, 'base_path': bp, 'url': self.gen_url(rng, domain, bp)}

    def shrink(self, c, fails):
        """delete characters of the URL while the SAME kind of failure (foreign host / non-http scheme / …) remains"""
        cur = dict(c)
        m0 = self.oracle(cur, self.impl(cur))
        if not m0 or not fails(cur):
            return cur
        kind = m0.split(':', 1)[0]

        def f(chars):
            c2 = {**cur, 'url': ''.join(chars)}
            if not fails(c2):
                return False
            m2 = self.oracle(c2, self.impl(c2))
            return bool(m2) and m2.split(':', 1)[0] == kind
        cur['url'] = ''.join(generic_shrink_list(list(cur['url']), f))
        return cur


PROP = C29()

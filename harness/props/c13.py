"""C13 Job billing never exceeds the instance and survives serialization — T tie (machine / disk tables) + correspondence of
Billing.Config.{fromDict,toDict,quantifiedResources} with the real GCPSlimInstanceConfig / AzureSlimInstanceConfig
create -> to_dict -> json -> from_dict -> quantified_resources."""
import json
import os

from .. import loader
from ..extract import machines
from ..framework import Prop
from .c11 import _ENV

MIB = 1024 * 1024


def is_pow2(n):
    return n > 0 and n & (n - 1) == 0


def is_pow2_quarter(mcpu):
    return mcpu > 0 and (4 * mcpu) % 1000 == 0 and is_pow2(4 * mcpu // 1000)


class C13(Prop):
    id = 'C13'
    title = 'Job billing never exceeds the instance and survives serialization'
    lean_props = ['HailVerif.Props.C13']
    driver = 'Driver/C13.lean'
    engine = 'E3-pure'
    design_ref = 'DESIGN.md §4 C13'
    technique = ('Lean 4 theorems about a Nat model of worker_fraction_in_1024ths, the resource mixins and the config dict round trip; '
                 'machine and disk tables re-generated from the imported modules on every run; differential correspondence with the real '
                 'create -> to_dict -> json -> from_dict -> quantified_resources on both clouds')
    level_text = ('Theorems for every config, every resource list and every list of jobs accepted by the asserts of quantified_resources with '
                  'sum cpu <= cores*1000 and sum memory <= instance memory: for every worker resource (compute, memory, static/local disks, '
                  'ip fee, service fee, vm, accelerator) the quantities billed to the jobs sum to at most the quantity billed for the whole '
                  'worker; the 1024ths fraction is exact for power-of-two quarter-core jobs on power-of-two workers <= 256 cores (a full '
                  'packing sums to exactly 1024); the whole-worker job is billed 1024/1024 of every per-worker resource; '
                  'fromDict(toDict c) = c for every well-formed config, hence identical quantities; version-1 accelerator dicts read as one '
                  'gpu. Per-job extra disks (dynamic disk resources) are billed per job: gcp exactly ext GiB, azure the least disk size >= ext.')
    level_note = ('Trusted: Lean kernel; table translator harness/extract/machines.py; the hand-written model agrees with the Python classes '
                  'only as far as the correspondence cases show; resource names come from a fake ProductVersions (names are opaque in the '
                  'model); `create` itself (which resources a config gets) is exercised through the real code only; resource_id of Terra configs is opaque.')
    budget = {'quick': 6000, 'thorough': 100000}
    search_budget = {'quick': 4000, 'thorough': 60000}
    rule = ('case = (cloud, machine type from the generated table, preemptible, local-ssd or external data disk with size, boot disk size, '
            'job_private, location, regional products present or hidden (fallback names), legacy dict form, packing); packing = recursive '
            'halving of the worker into power-of-two quarter-core jobs with some dropped, memory = proportional share rounded down to MiB or '
            'less, or (60% of the pool-eligible machine types) exactly what the real front-end conversion grants for the job\'s cpu on that '
            'worker type; extra storage 0 / random / disk-size boundaries; every case also bills the whole worker; non-trivial = at least two jobs '
            'billed without an assert; distinct by full case')
    trusted = ['harness/extract/machines.py (table translator)',
               'fake ProductVersions: every product has a version; optionally regional products are hidden to take the fallback names']
    assumptions = ['jobs satisfy the asserts of quantified_resources (memory multiple of MiB; pool workers have power-of-two cores <= 256)',
                   'azure extra storage <= the largest managed disk (32 TiB), as C12 guarantees']

    tables = None

    def extra_coverage(self):
        return {'instance_config_classes_covered': getattr(self, 'config_classes', [])}

    def generate(self, repo):
        for k, v in _ENV.items():
            os.environ.setdefault(k, v)
        self.tables, notes = machines.generate(repo)
        return notes

    def setup(self, repo):
        for k, v in _ENV.items():
            os.environ.setdefault(k, v)
        loader.install(repo)
        if self.tables is None:
            self.tables = machines.read_tables(repo)
        import batch.resources as res
        from batch.cloud.azure.instance_config import AzureSlimInstanceConfig
        from batch.cloud.gcp.instance_config import GCPSlimInstanceConfig
        from batch.cloud.utils import instance_config_from_config_dict
        from batch.driver.billing_manager import ProductVersionInfo, ProductVersions
        self.res = res
        from batch.cloud.terra.azure.instance_config import TerraAzureSlimInstanceConfig
        from batch.instance_config import InstanceConfig
        self.cls = {'gcp': GCPSlimInstanceConfig, 'azure': AzureSlimInstanceConfig, 'terra': TerraAzureSlimInstanceConfig}

        def subclasses(k):
            out = []
            for x in k.__subclasses__():
                out += [x] + subclasses(x)
            return out
        # every InstanceConfig class the tree defines must be one the cases cover
        self.config_classes = sorted(x.__name__ for x in subclasses(InstanceConfig))
        unknown = set(subclasses(InstanceConfig)) - set(self.cls.values())
        if unknown:
            raise RuntimeError(f'InstanceConfig subclasses the check does not cover: {sorted(x.__name__ for x in unknown)}')
        self.from_dict = instance_config_from_config_dict
        self.PV, self.PVI = ProductVersions, ProductVersionInfo
        t = self.tables
        self.machines = {'gcp': {m[0]: (m[3], m[4]) for m in t['gcp_machines']},
                         'azure': {m[0]: (m[2], m[3]) for m in t['azure_machines']}}
        self.azure_disk_sizes = sorted({z for _f, ds in t['azure_disks'] for _n, z in ds})
        # what the front end grants a pool job of a given cpu: cpu x memory-per-core of the pool's worker type (C12)
        from batch.cloud.azure.resource_utils import azure_cores_mcpu_to_memory_bytes
        from batch.cloud.gcp.resource_utils import gcp_cores_mcpu_to_memory_bytes
        fam = t['gcp_family']
        self.per_core = {'gcp': {wt: v * MIB for (f, wt), v in t['gcp_mem_per_core'] if f == fam}, 'azure': {wt: v * MIB for wt, v in t['azure_mem_per_core']}}
        self.worker_type = {'gcp': {m[0]: m[2] for m in t['gcp_machines'] if m[1] == fam and m[2] in self.per_core['gcp']},
                            'azure': {m[0]: m[1] for m in t['azure_machines'] if m[1] in self.per_core['azure']}}
        self.grant = {'gcp': lambda cpu, wt: gcp_cores_mcpu_to_memory_bytes(cpu, fam, wt), 'azure': azure_cores_mcpu_to_memory_bytes}

    # ---- real code -------------------------------------------------------------------------------------
    def _product_versions(self, c):
        PVI = self.PVI
        hide = c.get('hide_regional', False)
        loc = c['location']
        region = loc.rsplit('-', 1)[0] if c['cloud'] == 'gcp' else loc

        class Versions(dict):
            def get(self, product, default=None):
                if hide and product.split('/')[0] in ('disk', 'compute', 'memory') and product.endswith('/' + region):
                    return None
                return PVI(latest_version=str(1 + sum(map(ord, product)) % 3), sku=None)

            def __str__(self):
                return '<fake product versions>'
        return self.PV(Versions())

    def _create(self, c):
        return self.cls['terra' if c.get('terra') else c['cloud']].create(
            product_versions=self._product_versions(c), machine_type=c['machine_type'], preemptible=c['preemptible'],
            local_ssd_data_disk=c['local_ssd'], data_disk_size_gb=c['data_disk'], boot_disk_size_gb=c['boot_disk'],
            job_private=c['job_private'], location=c['location'])

    def _reload(self, c, d):
        """the dispatch the driver uses to read a stored config (batch.cloud.utils.instance_config_from_config_dict); Terra deployments
        are selected by the HAIL_TERRA environment variable"""
        old = os.environ.pop('HAIL_TERRA', None)
        try:
            if c.get('terra'):
                os.environ['HAIL_TERRA'] = '1'
            return self.from_dict(d)
        finally:
            os.environ.pop('HAIL_TERRA', None)
            if old is not None:
                os.environ['HAIL_TERRA'] = old

    def _stored(self, c):
        """the dict as it comes back from the database"""
        d = json.loads(json.dumps(self._create(c).to_dict()))
        if c.get('legacy') == 'accelerator_v1':
            for r in d['resources']:
                if r['type'] == 'gcp_accelerator':
                    r['format_version'] = 1
                    r.pop('number', None)
        elif c.get('legacy') == 'azure_v1' and d['cloud'] == 'azure':
            d['version'] = 1
            d.pop('resources', None)
        return d

    @staticmethod
    def _bill(cfg, job):
        try:
            qs = cfg.quantified_resources(job[0], job[1], job[2])
        except (AssertionError, KeyError):
            return None
        return [(q['name'], q['quantity']) for q in qs]

    @staticmethod
    def _line(b):
        return 'err' if b is None else ' '.join(['ok'] + [f'{n}:{q}' for n, q in b])

    def _jobs(self, c):
        cores, mem = self.machines[c['cloud']][c['machine_type']]
        return [list(j) for j in c['jobs']] + [[cores * 1000, mem, 0]]

    def impl(self, c):
        d = self._stored(c)
        cfg = self._reload(c, d)
        out = [self._line(self._bill(cfg, j)) for j in self._jobs(c)]
        out.append(self._render(cfg.to_dict()))
        return out

    # ---- encoding for the Lean driver -----------------------------------------------------------------------
    @staticmethod
    def _tok(s):
        s = str(s)
        assert s and ' ' not in s and '\n' not in s, s
        return s

    def _enc_resource(self, r):
        toks = []
        for k in ('name', 'storage_in_gib', 'number', 'version', 'format_version', 'disk_type', 'location'):
            if k in r:
                toks.append(f'{k}={self._tok(r[k])}')
        if 'latest_disk_versions' in r:
            toks.append('ldv')
            for dk, dv in r['latest_disk_versions'].items():
                assert '=' not in dk
                toks.append(f'ldv:{self._tok(dk)}={self._tok(dv)}')
        extra = set(r) - {'type', 'name', 'storage_in_gib', 'number', 'version', 'format_version', 'disk_type', 'location', 'latest_disk_versions'}
        assert not extra, f'resource dict has keys the model does not know: {extra}'
        return [self._tok(r['type']), str(len(toks))] + toks

    def _enc(self, d):
        b = lambda x: '1' if x else '0'
        t = ['terra' if 'resource_id' in d else d['cloud'], str(d['version']), self._tok(d['machine_type']), b(d['preemptible']), b(d['local_ssd_data_disk']),
             str(d['data_disk_size_gb']), str(d['boot_disk_size_gb']), b(d['job_private'])]
        if d.get('resources') is None:
            return t + ['~']
        t.append(str(len(d['resources'])))
        for r in d['resources']:
            t += self._enc_resource(r)
        return t

    def _render(self, d):
        b = lambda x: '1' if x else '0'
        # only what billing reads: cloud, version, machine type (cores, memory), job_private (the power-of-two assert), resources
        head = ' '.join([d['cloud'], str(d['version']), d['machine_type'], b(d['job_private'])])
        if d.get('resources') is None:
            return head + ' ~'
        parts = [head]
        for r in d['resources']:
            toks = [r['type']]
            for k in sorted(r):
                if k == 'type':
                    continue
                if k == 'latest_disk_versions':
                    toks.append('ldv')
                    toks += [f'ldv:{dk}={dv}' for dk, dv in r[k].items()]
                else:
                    toks.append(f'{k}={r[k]}')
            # the model prints keys in this fixed order: disk_type format_version ldv location name number storage_in_gib version
            order = {'disk_type': 0, 'format_version': 1, 'ldv': 2, 'location': 3, 'name': 4, 'number': 5, 'storage_in_gib': 6, 'version': 7}
            head_tok, rest = toks[0], toks[1:]
            rest.sort(key=lambda x: order['ldv' if x.startswith('ldv') else x.split('=')[0]])
            parts.append(' '.join([head_tok] + rest))
        return ' | '.join(parts)

    def model_lines(self, c):
        enc = self._enc(self._stored(c))
        if c.get('terra'):
            enc[0] = 'terra'
        lines = [' '.join(['q'] + enc + ['J', str(j[0]), str(j[1]), str(j[2])]) for j in self._jobs(c)]
        lines.append(' '.join(['d'] + enc))
        return lines

    # ---- the property on the real output ---------------------------------------------------------------------
    @staticmethod
    def _parse(line):
        if line == 'err':
            return None
        assert line.startswith('ok'), line
        out = []
        for t in line.split(' ')[1:]:
            n, q = t.rsplit(':', 1)
            out.append((n, int(q)))
        return out

    def oracle(self, c, out):
        if any(o.startswith('IMPL-EXC') for o in out):
            return next(o for o in out if o.startswith('IMPL-EXC'))
        cloud = c['cloud']
        cores, memory = self.machines[cloud][c['machine_type']]
        jobs = self._jobs(c)
        bills = [self._parse(o) for o in out[:len(jobs)]]
        d = self._stored(c)
        cfg1 = self._reload(c, d)
        legacy = c.get('legacy')
        # (3) serialization: the reloaded config bills what the original bills
        if legacy is None or (legacy == 'accelerator_v1' and not any(
                r['type'] == 'gcp_accelerator' and r.get('number', 1) != 1 for r in json.loads(json.dumps(self._create(c).to_dict()))['resources'])):
            cfg0 = self._create(c)
            for j, b in zip(jobs, bills):
                b0 = self._bill(cfg0, j)
                if b0 != b:
                    return f'job {j}: the stored and reloaded config bills {b}, the original config bills {b0}'
        if legacy == 'azure_v1':
            return None   # version-1 azure configs carry no resources: nothing is billed (legacy reading), nothing to compare
        # asserts are the code's stated preconditions: they must fire exactly when a precondition is violated
        has_az_dynamic = any(isinstance(r, self.res.DynamicSizedDiskResourceMixin) for r in cfg1.resources) and cloud == 'azure'
        for j, b in zip(jobs, bills):
            pre_ok = (j[1] % MIB == 0 and (c['job_private'] or (is_pow2(cores) and cores <= 256))
                      and not (has_az_dynamic and j[2] > self.azure_disk_sizes[-1]))
            if (b is None) == pre_ok:
                return f'job {j} on {c["machine_type"]} (job_private={c["job_private"]}): billing {"refused" if b is None else "accepted"} although its preconditions {"hold" if pre_ok else "do not hold"}'
        if any(b is None for b in bills):
            return None
        R = self.res
        resources = list(cfg1.resources)

        def aligned(job, bill):
            """quantity per resource object (None = not billed); only dynamic disks may skip, and only when ext == 0"""
            out_q = []
            it = iter(bill)
            for r in resources:
                if isinstance(r, R.DynamicSizedDiskResourceMixin) and job[2] == 0:
                    out_q.append(None)
                    continue
                try:
                    out_q.append(next(it))
                except StopIteration:
                    return None
            return out_q if next(it, None) is None else None

        per = [aligned(j, b) for j, b in zip(jobs, bills)]
        for j, a, b in zip(jobs, per, bills):
            if a is None:
                return f'job {j}: {len(b)} quantities for {len(resources)} resources (only an extra-storage disk with ext = 0 may be skipped)'
        # (2) the whole-worker job is billed exactly the whole worker
        whole = per[-1]
        for r, w in zip(resources, whole):
            if isinstance(r, R.DynamicSizedDiskResourceMixin):
                exp = None
            elif isinstance(r, R.StaticSizedDiskResourceMixin):
                exp = r.storage_in_gib * 1024
            elif isinstance(r, R.VMResourceMixin):
                exp = getattr(r, 'number', 1) * 1024
            elif isinstance(r, R.IPFeeResourceMixin):
                exp = 1024
            elif isinstance(r, R.MemoryResourceMixin):
                exp = memory // MIB
            else:   # compute, service fee, support/logs fees: per mcpu
                exp = cores * 1000
            got = None if w is None else w[1]
            if got != exp:
                return f'the whole-worker job is billed {got} of {type(r).__name__} {getattr(r, "name", "")}, the whole worker is {exp}'
        # (1) a packing never adds up to more than the whole worker
        packing = jobs[:-1]
        wt = self.worker_type[cloud].get(c['machine_type'])
        granted = (c.get('memory_from') == 'grant' and wt is not None
                   and all(1000 * j[1] == j[0] * self.per_core[cloud][wt] for j in packing))
        if sum(j[0] for j in packing) > cores * 1000:
            return None   # not a packing (the generator only makes packings; replayed / shrunk cases may not be)
        if not granted and sum(j[1] for j in packing) > memory:
            return None   # memories chosen freely must fit; memories granted by the platform for the jobs' cpus are a packing by construction
        full_cpu = (sum(j[0] for j in packing) == cores * 1000 and all(is_pow2_quarter(j[0]) for j in packing)
                    and is_pow2(cores) and cores <= 256)
        for k, r in enumerate(resources):
            if isinstance(r, R.DynamicSizedDiskResourceMixin):
                # the job's own extra disk: billed per job, at least what was asked, gcp exactly, azure the least disk size
                for j, a in zip(packing, per[:-1]):
                    if j[2] == 0:
                        continue
                    q = a[k][1]
                    if cloud == 'gcp' and q != j[2] * 1024:
                        return f'job {j}: gcp extra disk billed {q} MiB, requested {j[2]} GiB'
                    if cloud == 'azure' and q != 1024 * min(z for z in self.azure_disk_sizes if z >= j[2]):
                        return f'job {j}: azure extra disk billed {q} MiB, the least disk size >= {j[2]} GiB expected'
                continue
            total = sum(a[k][1] for a in per[:-1])
            if total > whole[k][1]:
                return (f'{type(r).__name__} {r.name}: the packed jobs are billed {total} in total, the whole worker {whole[k][1]} '
                        f'(machine {c["machine_type"]}, jobs {packing[:6]})')
            if full_cpu and not isinstance(r, R.MemoryResourceMixin) and total != whole[k][1]:
                return f'{type(r).__name__} {r.name}: a full packing is billed {total}, the whole worker {whole[k][1]}'
            names = {a[k][0] for a in per}
            if len(names) != 1:
                return f'{type(r).__name__}: billed under different names {sorted(names)}'
        return None

    # ---- generation ----------------------------------------------------------------------------------------
    def _packing(self, rng, cores, memory, cloud):
        jobs = []
        if is_pow2(cores) and rng.random() < 0.9:
            pieces = [cores * 1000]
            for _ in range(rng.choice([0, 1, 2, 3, 5, 8, 13, 40])):
                big = [i for i, p in enumerate(pieces) if p > 250]
                if not big:
                    break
                i = rng.choice(big)
                p = pieces.pop(i)
                pieces += [p // 2, p // 2]
            if rng.random() < 0.35:
                pieces = [p for p in pieces if rng.random() < 0.7]
        else:
            pieces = []
            left = cores * 1000
            if rng.random() < 0.4:
                pieces = [left]
            else:
                while left >= 250 and rng.random() < 0.85:
                    p = 250 * 2 ** rng.randrange(0, 9)
                    if p <= left:
                        pieces.append(p)
                        left -= p
        mem_left = memory
        for p in pieces:
            share = (p * memory // (cores * 1000)) // MIB * MIB
            m = share if rng.random() < 0.75 else rng.randrange(0, share // MIB + 1) * MIB
            if rng.random() < 0.01:
                m += rng.choice([1, 512, MIB - 1])
            m = min(m, mem_left)
            mem_left -= m
            e = 0
            if rng.random() < 0.3:
                e = rng.choice([1, 4, 5, 10, 100, 375, rng.randint(1, 3000), 32768, 32767])
                if rng.random() < 0.03:
                    e = 32769
            jobs.append([p, m, e])
        return jobs

    def cases(self, rng, n, tier):
        gcp_m = list(self.machines['gcp'].keys())
        az_m = list(self.machines['azure'].keys())
        for _ in range(n):
            cloud = rng.choice(['gcp', 'azure'])
            mt = rng.choice(gcp_m if cloud == 'gcp' else az_m)
            cores, memory = self.machines[cloud][mt]
            job_private = rng.random() < (0.25 if is_pow2(cores) else 0.8)
            local_ssd = rng.random() < 0.5
            if cloud == 'gcp':
                data_disk = 375 if local_ssd else rng.choice([10, 100, 200, 375, 1000, rng.randint(10, 5000)])
                boot = rng.choice([10, 20, 30])
                location = rng.choice(['us-central1-a', 'us-east1-b', 'australia-southeast1-b', 'europe-west2-c'])
            else:
                data_disk = rng.choice([0, 100, 128, 129, 300, 1024, rng.randint(1, 32768)])
                boot = rng.choice([10, 30, 32, 33, 64])
                location = rng.choice(['eastus', 'australiaeast', 'westeurope'])
            c = {'cloud': cloud, 'machine_type': mt, 'preemptible': rng.random() < 0.6, 'local_ssd': local_ssd, 'data_disk': data_disk,
                 'boot_disk': boot, 'job_private': job_private, 'location': location, 'hide_regional': cloud == 'gcp' and rng.random() < 0.3,
                 'legacy': None, 'jobs': self._packing(rng, cores, memory, cloud)}
            wt = self.worker_type[cloud].get(mt)
            if wt is not None and rng.random() < 0.6:
                # jobs as the front end provisions them on a pool of this worker type: memory = what the real conversion grants for the cpu
                c['memory_from'] = 'grant'
                for j in c['jobs']:
                    j[1] = self.grant[cloud](j[0], wt)
            if cloud == 'azure' and rng.random() < 0.3:
                c['terra'] = True          # TerraAzureSlimInstanceConfig (Terra on Azure): VM + boot disk only
            r = rng.random()
            if cloud == 'gcp' and '+nvidia' in mt or mt.startswith(('g2-', 'a2-')):
                if r < 0.2:
                    c['legacy'] = 'accelerator_v1'
            elif cloud == 'azure' and r < 0.03 and not c.get('terra'):
                c['legacy'] = 'azure_v1'
            yield c

    def classify(self, c, out):
        cores, _memory = self.machines[c['cloud']][c['machine_type']]
        jobs = c['jobs']
        n_err = sum(1 for o in out[:-1] if o == 'err')
        tags = [f"cloud={c['cloud']}" + ('(terra)' if c.get('terra') else ''), 'job_private' if c['job_private'] else 'pool-worker',
                'cores=pow2' if is_pow2(cores) else 'cores=not-pow2',
                f"jobs={len(jobs) if len(jobs) < 3 else '3-8' if len(jobs) <= 8 else '9+'}",
                'some-assert' if n_err else 'all-billed']
        if c.get('legacy'):
            tags.append('legacy=' + c['legacy'])
        if c.get('hide_regional'):
            tags.append('fallback-product-names')
        if any(j[2] for j in jobs):
            tags.append('extra-storage')
        if c.get('memory_from') == 'grant':
            tags.append('memory-as-granted-by-the-front-end')
        tags.append('machine=' + (c['machine_type'].split('-')[0] + '-' + c['machine_type'].split('-')[1] if c['cloud'] == 'gcp' else 'azure-' + c['machine_type'].split('_')[1][0]) + ('+gpu' if '+' in c['machine_type'] else ''))
        if sum(j[0] for j in jobs) == cores * 1000 and len(jobs) > 1:
            tags.append('full-packing')
        if any('accelerator' in o for o in out[-1:]):
            tags.append('accelerator')
        nontrivial = len(jobs) >= 2 and n_err == 0
        return (json.dumps(c, sort_keys=True) if nontrivial else None, tags)

    def finding_key(self, c, msg):
        return json.dumps(c, sort_keys=True)

    def shrink(self, c, fails):
        cur = json.loads(json.dumps(c))
        if not fails(cur):
            return c
        changed = True
        while changed:
            changed = False
            for i in range(len(cur['jobs'])):
                cand = json.loads(json.dumps(cur))
                del cand['jobs'][i]
                if fails(cand):
                    cur = cand
                    changed = True
                    break
            if changed:
                continue
            for i, j in enumerate(cur['jobs']):
                if j[2]:
                    cand = json.loads(json.dumps(cur))
                    cand['jobs'][i][2] = 0
                    if fails(cand):
                        cur = cand
                        changed = True
                        break
            if changed:
                continue
            for k, v in (('hide_regional', False), ('legacy', None)):
                if cur.get(k) not in (v,):
                    cand = json.loads(json.dumps(cur))
                    cand[k] = v
                    if fails(cand):
                        cur = cand
                        changed = True
                        break
        return cur


PROP = C13()

"""C05 Dependencies gate readiness; failed parents cancel children — E1 family: the real code over minisql vs the Lean model BatchDB, oracle `oracles.c05`."""
from ..batchdb import actors
from ..batchdb.prop import ActorCasesMixin, E1Prop


class C05(ActorCasesMixin, E1Prop):
    actor_share = 0.3
    actor_flavour = 'c05'
    id = 'C05'
    title = 'Dependencies gate readiness; failed parents cancel children'
    design_ref = 'DESIGN.md §4 C05 (Engine E1)'
    oracle_name = 'c05'
    adversarial_share = 0.0
    nontrivial_tags = ['job-with-parents', 'parent-not-succeeded']
    level_text = 'Oracle after every op, for jobs of committed updates whose parents exist and precede them: not Pending => every parent terminal; Pending => n_pending_parents = number of non-terminal parents and some parent is live; a parent in Failed/Error/Cancelled => the child carries the cancelled mark; a marked non-always-run job never moves into Creating/Running; an always_run Ready job scheduled on an active instance starts (rc 0). A third of the cases run the REAL driver loops (pool scheduler, the canceller’s three loops, workers reporting Failed / Error / Success) on committed submissions with failing parents and always_run children: after every loop pass no always_run job is Cancelled, no cancelled non-always_run child has run, readiness respects the parents; at quiescence every committed job is terminal.'
    level_note = ('Partial: the server is harness/minisql (semantics list in trusted_base), every transaction is one atomic step, histories are generated '
                  '(not exhaustive); the Lean model is tied to the code only as far as the compared answers and dumps show. '
                  'Known findings of the unchanged tree are listed in known_findings.json and printed as KNOWN-FINDING.')

    def nontrivial(self, r):
        return any(t in r.tags for t in self.nontrivial_tags)


    def actor_checks(self):
        return ([lambda w, before, after: actors.dependencies(after)], [lambda w, v: actors.dependencies(v), lambda w, v: actors.liveness(v, {})])


PROP = C05()

"""C14 Batch API access control.

T: harness/extract/routes.py re-emits lean/HailVerif/Generated/BatchRoutes.lean from batch/batch/front_end/front_end.py on every run;
   the theorems of Props/C14.lean are `decide`d over that table.
C (guards): every registered route's REAL handler object (real decorator stack from gear/gear/auth.py and front_end.py, the session
   lookup stubbed at `auth._fetch_userdata`, `_user_can_access` running its real SQL over harness/minisql) is called with a real
   aiohttp request for every caller (2^8 attribute combinations); the innermost handler body is replaced by a probe; the outcome
   (allow / 302 / 401 / 403 / 404 / 500) is compared with `Access.decision` and the policy class with `Access.required`.
C (owner-only mutators): the REAL handlers with their REAL bodies, real gear.database.Database over harness/minisql executing the repo's SQL,
   for owner / project-mate / stranger / developer and fresh / already-known update tokens; compared with `Access.mutate`."""
import asyncio
import json
import os
import re

from .. import loader, svcenv
from ..extract import routes as routes_extract
from ..framework import LEAN, MachineryError, Prop, write_if_changed

CALLER_FIELDS = ['hasSession', 'active', 'developer', 'isAuth', 'member', 'owner', 'batchIdOk', 'serviceAccount']

PUBLIC = {('GET', '/healthcheck'), ('GET', '/metrics'), ('GET', '/api/v1alpha/version'), ('GET', '/api/v1alpha/cloud'),
          ('GET', '/swagger'), ('GET', '/openapi.yaml'), ('GET', '/tos'), ('GET', '/privacy'),
          ('GET', '/batch/static/js/{filename}'), ('GET', '/common_static/{filename}')}


def py_required(method, path):
    """the policy of the property text (independent statement of Access.required)"""
    if (method, path) in PUBLIC:
        return 'pub'
    segs = [s for s in path.split('/') if s]
    if '{batch_id}' in segs:
        # read / cancel / delete: billing-project members; add jobs, groups, updates, commit, close: the owner
        if method in ('GET', 'DELETE') or segs[-1] in ('cancel', 'delete'):
            return 'member'
        return 'owner'
    if method != 'GET' and ('billing_projects' in segs or 'billing_limits' in segs):
        return 'admin'
    return 'user'


def established(cls, c):
    """what the guards alone must have established for a caller that reaches the body (ownership is the SQL filter's job)"""
    user = c['hasSession'] and c['active']
    return {'pub': True, 'user': user, 'owner': user, 'member': user and c['member'],
            'admin': user and (c['developer'] or c['isAuth'])}[cls]


# owner-only mutators: (model name, method, path template)
MUTATORS = {
    'create_update': ('createUpdate', 'POST', '/api/v1alpha/batches/{batch_id}/updates/create'),
    'update_batch_fast': ('updateFast', 'POST', '/api/v1alpha/batches/{batch_id}/update-fast'),
    'create_jobs_for_update': ('createJobs', 'POST', '/api/v1alpha/batches/{batch_id}/updates/{update_id}/jobs/create'),
    'create_jobs': ('createJobs', 'POST', '/api/v1alpha/batches/{batch_id}/jobs/create'),
    'create_job_groups': ('createJobGroups', 'POST', '/api/v1alpha/batches/{batch_id}/updates/{update_id}/job-groups/create'),
    'commit_update': ('commitUpdate', 'PATCH', '/api/v1alpha/batches/{batch_id}/updates/{update_id}/commit'),
    'close_batch': ('closeBatch', 'PATCH', '/api/v1alpha/batches/{batch_id}/close'),
}
# billing-project administration through the API: (method, path, match_info, JSON body)
ADMIN_ROUTES = {
    'create': ('POST', '/api/v1alpha/billing_projects/{billing_project}/create', {'billing_project': 'bp_new'}, None),
    'add_user': ('POST', '/api/v1alpha/billing_projects/{billing_project}/users/{user}/add', {'billing_project': 'bp_x', 'user': 'carol'}, None),
    'remove_user': ('POST', '/api/v1alpha/billing_projects/{billing_project}/users/{user}/remove', {'billing_project': 'bp_alice_1', 'user': 'bob'}, None),
    'close': ('POST', '/api/v1alpha/billing_projects/{billing_project}/close', {'billing_project': 'bp_dave'}, None),
    'reopen': ('POST', '/api/v1alpha/billing_projects/{billing_project}/reopen', {'billing_project': 'bp_dave'}, None),
    'delete': ('POST', '/api/v1alpha/billing_projects/{billing_project}/delete', {'billing_project': 'bp_dave'}, None),
    'edit_limit': ('POST', '/api/v1alpha/billing_limits/{billing_project}/edit', {'billing_project': 'bp_x'}, {'limit': 5}),
}
# caller -> (username, is_developer, is_service_account)
ADMIN_WHO = {'developer': ('dave', 1, 0), 'auth': ('auth', 0, 1), 'service-account': ('ci', 0, 1), 'service-account-grafana': ('grafana', 0, 1),
             'plain-user': ('carol', 0, 0), 'auth-namesake': ('Auth', 0, 0), 'inactive-developer': ('dave', 1, 0)}
WHO = ['owner', 'mate', 'stranger', 'developer', 'namesake']     # namesake = account `Alice` (owner is `alice`), no memberships
# data-level read routes: (method, path, has batch_id?)
DATA_ROUTES = {
    'jobs_v1': '/api/v1alpha/batches/{batch_id}/jobs', 'jobs_v2': '/api/v2alpha/batches/{batch_id}/jobs',
    'group_jobs_v1': '/api/v1alpha/batches/{batch_id}/job-groups/{job_group_id}/jobs',
    'group_jobs_v2': '/api/v2alpha/batches/{batch_id}/job-groups/{job_group_id}/jobs',
    'job_groups_v1': '/api/v1alpha/batches/{batch_id}/job-groups',
    'batches_v1': '/api/v1alpha/batches', 'batches_v2': '/api/v2alpha/batches',
}
# billing read routes: name -> (path template, match_info)
BILLING_READS = {
    'bp_list_api': ('/api/v1alpha/billing_projects', {}),
    'bp_get_api:bp_x': ('/api/v1alpha/billing_projects/{billing_project}', {'billing_project': 'bp_x'}),
    'bp_get_api:bp_alice_1': ('/api/v1alpha/billing_projects/{billing_project}', {'billing_project': 'bp_alice_1'}),
    'bp_get_api:bp_carol': ('/api/v1alpha/billing_projects/{billing_project}', {'billing_project': 'bp_carol'}),
    'bp_get_api:nope': ('/api/v1alpha/billing_projects/{billing_project}', {'billing_project': 'nope'}),
    'bp_list_ui': ('/billing_projects', {}),
    'billing_ui': ('/billing', {}),
    'limits_ui': ('/billing_limits', {}),
}
# caller -> (username, is_developer, is_service_account, billing projects the account belongs to)
BILLING_WHO = {'alice': ('alice', 0, 0, {'bp_alice_1'}), 'bob': ('bob', 0, 0, {'bp_alice_1', 'bp_auth_1', 'bp_x'}), 'carol': ('carol', 0, 0, {'bp_carol'}),
               'developer': ('dave', 1, 0, {'bp_dave'}), 'auth': ('auth', 0, 1, {'bp_auth_1'}), 'service-account': ('ci', 0, 1, set()),
               'nobody': ('erin', 0, 0, set())}
STATE_WORDS = ['pending', 'ready', 'creating', 'running', 'live', 'cancelled', 'error', 'failed', 'bad', 'success', 'done']
LISTINGS = ['/api/v1alpha/batches', '/api/v2alpha/batches', '/api/v1alpha/batches/completed']
KEY_CI = 'username filters on batches.user / billing_project_users.user are case-insensitive: a namesake account passes them'
# keys of the two defects repaired by 4c50f4344 (kept so that a regression is reported under a stable name)
TTL_MS = 10_000      # gear.auth.TEN_SECONDS_IN_NANOSECONDS, the lifetime of cached userinfo
KEY_FAST = 'update_batch_fast: a non-owner who sends an existing update token with empty bunch/job_groups commits the update'
KEY_CREATE = 'create_update: a non-owner who sends an existing update token gets 2xx with the update ids instead of an error'


def make_keyed_file_store(base):
    """the batch file store (job specs, status, logs, profiles), keyed by (batch, job, attempt): every read records the key that was
    asked for and answers content that names that key"""

    class KeyedFileStore(base):
        def __init__(self):
            super().__init__()
            self.asked = []

        async def read_status_file(self, batch_id, job_id, attempt_id):
            self.asked.append(('status', batch_id, job_id, attempt_id))
            return json.dumps({'marker': f'status-b{batch_id}-j{job_id}-{attempt_id}', 'container_statuses': {}, 'state': 'succeeded'})

        async def read_log_file(self, format_version, batch_id, job_id, attempt_id, task):
            self.asked.append(('log', batch_id, job_id, attempt_id))
            return f'log-b{batch_id}-j{job_id}-{attempt_id}-{task}'.encode()

        async def read_jvm_profile(self, format_version, batch_id, job_id, attempt_id, task):
            self.asked.append(('jvm_profile', batch_id, job_id, attempt_id))
            return f'profile-b{batch_id}-j{job_id}-{attempt_id}'.encode()

        async def read_resource_usage_file(self, format_version, batch_id, job_id, attempt_id, task):
            self.asked.append(('resource_usage', batch_id, job_id, attempt_id))
            raise FileNotFoundError(f'resource usage b{batch_id} j{job_id}')

    return KeyedFileStore


class C14(Prop):
    id = 'C14'
    title = 'Batch API access control'
    lean_props = ['HailVerif.Props.C14']
    driver = 'Driver/C14.lean'
    engine = 'E8-access'
    design_ref = 'DESIGN.md §4 C14'
    technique = ('translator (front_end.py AST -> Lean route table, regenerated on every run) + Lean 4 `decide` over the generated table '
                 'lifted to all callers + differential correspondence of the decorator model with the real decorator stacks and of the '
                 'owner-check model with the real handlers run over the repo\'s SQL (minisql)')
    level_text = ('Theorems over the route table generated from the current front_end.py: every registered route whose (method, path) is not '
                  'in the public list is wrapped by a guard stack that, for EVERY caller (all 2^8 combinations of session / active / developer '
                  '/ auth-service / service-account / billing-project member / owner / well-formed batch id), refuses the caller before the handler body unless '
                  'the caller is an active authenticated user and, for batch-scoped read/cancel/delete, a member of the batch\'s billing project, '
                  'for billing-project administration a developer or the auth service; a refused request leaves the state unchanged. '
                  'Owner-only mutators: all seven start with the owner-filtered SELECT (extracted, owner_filter_first), and in the model of '
                  'their control flow a non-owner is refused without change whatever update token the request carries — PROVIDED the caller '
                  'is not a namesake of the owner (owner_only_partial): batches.user and billing_project_users.user are case-insensitive '
                  'columns, so the account `Alice` passes every owner filter and the listings of `alice` (known finding, refuted in Lean as '
                  'owner_only_fails / all_user_filters_case_sensitive_fails); _user_can_access compares user_cs (member_filter_case_sensitive). '
                  'The control flow before commit 4c50f4344 is kept as mutateOld with its refutation. Time dimension: in the model of the '
                  'authenticator + userinfo cache (Model/SessionCache) a request is let through only if the auth service called the user '
                  'active less than one cache lifetime ago (Session.staleness_bounded, all schedules); the real AuthServiceAuthenticator with '
                  'its real TimeLimitedMaxSizeCache is compared with that model on random request / deactivate / revoke schedules under a '
                  'patched time.monotonic_ns. Data level: the real job / job-group / batch list handlers run over minisql with two tenants\' data '
                  'and queries drawn from the v1 and v2 query grammars (every state keyword, negations, has:, key=value, ids); every returned '
                  'row must belong to the requested batch / to a billing project of the caller (listed_jobs_belong_to_batch for the model of '
                  'the WHERE clause). The billing read routes (billing project list / single project API, the billing projects, billing '
                  'usage and billing limits pages) run with their real bodies for members, non-members, developers, the auth service and '
                  'other service accounts; every billing project / usage row in the answer must be one the caller may read. EVERY GET route of '
                  'the generated table that names a batch (job, attempts, logs, resource usage, jvm profile, job groups, batch, UI pages) runs '
                  'with its real body over two tenants\' data with colliding job / attempt / job-group ids and a file store keyed by (batch, job, '
                  'attempt): every item returned and every file-store key asked for must belong to the requested batch.')
    level_note = ('PARTIAL for the owner-only mutators: `mutate` is a hand model of which check comes first, tied to the real handlers only by '
                  'the 39 scenario runs over minisql (MySQL itself is not available; the deprecated close_batch answers 500 to every caller on the current schema — Unknown column job_groups.deleted — so its owner case is not run). The decorator semantics (`guard`) are tied by exhaustive '
                  'differential runs (68 routes x 256 callers, plus name-sake variants and billing-administration requests with real bodies + DB diff) with the session lookup stubbed at Authenticator._fetch_userdata and aiohttp '
                  'requests built by aiohttp.test_utils.make_mocked_request; aiohttp routing, middlewares (csrf, frozen) and the auth service '
                  'are outside. /metrics (registered in run()) is classed with /healthcheck as operational/public. ownerFilter is a syntactic '
                  'fact (first SQL reached from the handler is SELECT … WHERE … user = %s).')
    rule = ('guard cases: every (route, caller) pair, exhaustive (route from the generated table, caller = 7 booleans); non-trivial = the caller '
            'is refused or the route is not public; owner cases: 7 handlers x {owner, project-mate, stranger, developer} x token/payload '
            'variants over snapshots of a seeded minisql database; distinct by full case')
    trusted = ['harness/extract/routes.py (AST walker; registrations it does not understand raise TieBroken)',
               'harness/minisql executing the repo\'s SQL in place of MySQL', 'aiohttp.test_utils.make_mocked_request as the request',
               'closure-cell patching to put a probe in place of the innermost handler body',
               'harness/svcenv.py + minisql/env.py: env vars / global-config read at import',
               'UI pages: web_common.render_template replaced in batch.front_end by a function that answers the page context as JSON',
               'minisql JSON_QUOTE / JSON_CONTAINS (added for the billing queries; unit-tested in harness/minisql/tests_minisql.py against the MySQL manual\'s rules)',
               'session schedules: aiohttp_session.get_session replaced by an empty session (the id travels as Bearer token), the auth service is a fake httpx client, time.monotonic_ns is the schedule clock']
    assumptions = ['the session lookup (_fetch_userdata / auth service) returns the true userdata of the caller',
                   'aiohttp dispatches a request only to the handler object registered for its method and path',
                   'decorators can reach the handler body only through the function they wrap (Python closure semantics)',
                   'no account has a name equal to another account\'s name up to case/accents (hypothesis of owner_only_partial; false in general: auth usernames are unique case-SENSITIVELY)']
    budget = {'quick': 0, 'thorough': 0}          # guards/admin/owner/listing: enumerated completely; session schedules: 400 / 6000 random
    search_budget = {'quick': 0, 'thorough': 0}

    # ---- T ----------------------------------------------------------------------------------------------------------------
    def generate(self, repo):
        src, table = routes_extract.emit(repo)
        changed = write_if_changed(os.path.join(LEAN, 'HailVerif', 'Generated', 'BatchRoutes.lean'), src)
        self.table = table
        unknown = sorted({t for r in table for _, t in r['decorators'] if t.startswith('unknown:')})
        return [f'T: {len(table)} route registrations from {routes_extract.FRONT_END} ({sum(1 for r in table if r["decorators"])} with decorators); '
                f'generated file {"rewritten" if changed else "unchanged"}' + (f'; decorators treated as non-guards: {unknown}' if unknown else '')]

    # ---- real code ----------------------------------------------------------------------------------------------------------
    def setup(self, repo):
        import logging
        logging.disable(logging.CRITICAL)       # the handlers log expected misses (e.g. no resource usage file) with tracebacks
        loader.install(repo)
        svcenv.prepare()
        from ..minisql.env import set_batch_env
        set_batch_env()
        import random

        from aiohttp import streams, web
        from aiohttp.test_utils import make_mocked_request

        import batch.front_end.front_end as fe
        from ..minisql import batchapp
        self.fe, self.web, self.streams, self.mk = fe, web, streams, make_mocked_request
        self.batchapp = batchapp
        if not hasattr(self, 'table'):
            self.table = routes_extract.emit(repo)[1]
        self.loop = asyncio.new_event_loop()
        asyncio.set_event_loop(self.loop)
        self.cur_userdata = None
        self._cache = {}

        async def fetch(request):
            return self.cur_userdata
        fe.auth._fetch_userdata = fetch          # the boundary: session id -> userdata (auth service)

        # the real authenticator (real TimeLimitedMaxSizeCache) for the session schedules: only the cookie-session lookup of
        # gear.auth.get_session_id (aiohttp_session, a loader stub) is replaced; the session id travels as a Bearer token
        import types as _types

        import gear.auth as ga
        fake_as = _types.ModuleType('aiohttp_session')

        async def get_session(request):
            return {}
        fake_as.get_session = get_session
        ga.aiohttp_session = fake_as
        self.ga = ga

        # UI pages: the template engine is replaced, the page context (the data the page shows) is what the handler answers
        async def render_template(service, request, userdata, file, page_context, **kw):
            return web.json_response({'template': file, 'page_context': json.loads(json.dumps(page_context, default=str))})
        fe.render_template = render_template

        # real route table
        self.real = {}
        for r in fe.routes:
            if hasattr(r, 'method'):
                self.real[(r.method, r.path)] = r
        # instrument the innermost bodies
        self.entered = []
        self.passthrough = False
        self.bare = set()
        done = {}
        for key, r in self.real.items():
            h = r.handler
            if id(h) in done:
                continue
            chain = [h]
            while hasattr(chain[-1], '__wrapped__'):
                chain.append(chain[-1].__wrapped__)
            done[id(h)] = True
            if len(chain) == 1:
                continue
            inner, parent = chain[-1], chain[-2]
            cell = next((c for c in (parent.__closure__ or ()) if c.cell_contents is inner), None)
            if cell is None:
                raise MachineryError(f'cannot instrument {inner.__name__}: no closure cell of {parent.__qualname__} holds it')
            cell.cell_contents = self._probe(inner)
        self.bare = {k for k, r in self.real.items() if not hasattr(r.handler, '__wrapped__')}

        # scenario database
        self.db = batchapp.seeded_db(random.Random(0), users=(), billing_projects=())
        self.loop.run_until_complete(self._build_scenario())

    def _probe(self, inner):
        name = inner.__name__

        async def probe(*a, **k):
            self.entered.append(name)
            if self.passthrough:
                return await inner(*a, **k)
            return self.web.Response()
        probe.__name__ = name
        return probe

    def ud(self, name, dev=0, state='active', sa=0):
        return dict(self.batchapp.USERDATA, username=name, login_id=name, is_developer=dev, state=state, is_service_account=sa,
                    hail_credentials_secret_name=f'{name}-gsa-key', tokens_secret_name=f'{name}-tokens')

    async def _build_scenario(self):
        fe, db = self.fe, self.db
        bapp = await self.batchapp.make_app(db)
        app = self.web.Application()
        for k, v in bapp.items():
            app[k] = v
        app['file_store'] = make_keyed_file_store(type(bapp['file_store']))()
        self.app = app
        bps = {'bp_alice_1': ['alice', 'bob'], 'bp_alice_2': ['alice'], 'bp_auth_1': ['auth', 'bob'], 'bp_auth_2': ['auth'],
               'bp_x': ['bob'], 'bp_carol': ['carol'], 'bp_dave': ['dave']}
        db.load_rows('billing_projects', [dict(name=b, name_cs=b) for b in bps])
        db.load_rows('billing_project_users', [dict(billing_project=b, user=u, user_cs=u) for b, us in bps.items() for u in us])
        n = [0]

        async def mk(user, bp):
            n[0] += 1
            spec = {'billing_project': bp, 'n_jobs': 0, 'n_job_groups': 0, 'token': f'batchtok{n[0]}', 'attributes': {'name': f'b{n[0]}'}}
            return await fe._create_batch(spec, self.ud(user), app['db'])
        self.batch_for = {}     # (isAuth, member, owner) -> batch id
        for is_auth, u in ((False, 'alice'), (True, 'auth')):
            self.batch_for[(is_auth, True, True)] = await mk(u, f'bp_{u}_1')
            self.batch_for[(is_auth, True, False)] = await mk('bob', f'bp_{u}_1')
            self.batch_for[(is_auth, False, True)] = await mk(u, f'bp_{u}_2')
            self.batch_for[(is_auth, False, False)] = await mk('bob', 'bp_x')
        # the owner was removed from the billing project after creating the batch
        db.execute("DELETE FROM billing_project_users WHERE billing_project IN ('bp_alice_2', 'bp_auth_2')")
        # batches for the owner-only mutators (owner alice, project-mate bob)
        self.A1 = await mk('alice', 'bp_alice_1')
        self.A2 = await mk('alice', 'bp_alice_1')
        self.R = await mk('alice', 'bp_alice_1')        # alice's batch that the data-level read cases ask for
        self.passthrough = True
        st = await self._call('POST', MUTATORS['create_update'][2], {'batch_id': self.A1}, self.ud('alice'),
                              {'token': 'TOK', 'n_jobs': 1, 'n_job_groups': 0})
        st2 = await self._call('POST', MUTATORS['create_update'][2], {'batch_id': self.A2}, self.ud('alice'),
                               {'token': 'TOKG', 'n_jobs': 0, 'n_job_groups': 1})
        if st[0] != 200 or st2[0] != 200:
            raise MachineryError(f'scenario: owner could not open updates: {st} {st2}')
        self.snap_open = db.snapshot()
        st = await self._call('POST', MUTATORS['create_jobs_for_update'][2], {'batch_id': self.A1, 'update_id': 1}, self.ud('alice'),
                              [self.batchapp.job_spec(1)])
        if st[0] != 200:
            raise MachineryError(f'scenario: owner could not upload the job: {st}')
        self.snap_full = db.snapshot()
        # for the listings: the same, with alice's batch A1 marked completed (so that /batches/completed can list it)
        db.execute("UPDATE batches SET time_completed = 1 WHERE id = %s", (self.A1,))
        self.snap_done = db.snapshot()
        db.restore(self.snap_full)
        # for the data-level cases: two tenants with committed jobs in several states
        self.D = self.batch_for[(False, False, False)]       # bob's batch in bp_x (alice is not a member)

        async def fast(bid, user, tok, n):
            body = {'update': {'token': tok, 'n_jobs': n, 'n_job_groups': 1},
                    'bunch': [self.batchapp.job_spec(i, attributes={'name': f'j{i}'} if i % 2 else None) for i in range(1, n + 1)],
                    'job_groups': [{'job_group_id': 1, 'absolute_parent_id': 0, 'attributes': {'name': f'g-b{bid}'}}]}
            st = await self._call('POST', MUTATORS['update_batch_fast'][2], {'batch_id': bid}, self.ud(user), body)
            if st[0] != 200:
                raise MachineryError(f'scenario: {user} could not submit jobs to batch {bid}: {st}')
        db.restore(self.snap_open)
        await fast(self.R, 'alice', 'TA', 5)
        await fast(self.D, 'bob', 'TB', 6)
        for bid, states in ((self.R, ['Success', 'Failed', 'Running', 'Ready', 'Cancelled']),
                            (self.D, ['Success', 'Failed', 'Error', 'Running', 'Cancelled', 'Creating'])):
            for i, stt in enumerate(states, 1):
                db.execute('UPDATE jobs SET state = %s WHERE batch_id = %s AND job_id = %s', (stt, bid, i))
        db.execute('UPDATE batches SET time_completed = 1 WHERE id IN (%s, %s)', (self.R, self.D))
        # attempts with COLLIDING ids in both tenants' batches (same job ids, same attempt ids); only the instance name and the times
        # tell them apart
        for bid in (self.R, self.D):
            rows = [dict(batch_id=bid, job_id=j, attempt_id='aaaaaa', instance_name=f'inst-b{bid}-j{j}', start_time=1000 * bid + j,
                         end_time=1000 * bid + j + 50, reason=None, rollup_time=1000 * bid + j + 50) for j in (1, 2, 3)]
            rows.append(dict(batch_id=bid, job_id=1, attempt_id='bbbbbb', instance_name=f'inst-b{bid}-j1x', start_time=1000 * bid + 100,
                             end_time=None, reason=None, rollup_time=None))
            db.load_rows('attempts', rows)
            db.execute("UPDATE jobs SET attempt_id = 'aaaaaa' WHERE batch_id = %s AND job_id <= 3", (bid,))
        import datetime as _dt
        today = _dt.date.today()
        usage = [('bp_alice_1', 'alice', 5_000_000), ('bp_alice_1', 'bob', 1_000_000), ('bp_x', 'bob', 7_000_000), ('bp_carol', 'carol', 2_000_000)]
        db.load_rows('aggregated_billing_project_user_resources_v3',
                     [dict(billing_project=b, user=u, resource_id=1, token=0, usage=n) for b, u, n in usage])
        db.load_rows('aggregated_billing_project_user_resources_by_date_v3',
                     [dict(billing_date=today, billing_project=b, user=u, resource_id=1, token=0, usage=n) for b, u, n in usage])
        self.snap_data = db.snapshot()
        # minisql must give AND precedence over OR (unit test of the interpreter on the shape the query builders produce)
        rows = db.query("SELECT batch_id, job_id FROM jobs WHERE batch_id = %s AND (jobs.state = %s) OR (jobs.state = %s)", (self.R, 'Success', 'Failed'))
        got = sorted((r['batch_id'], r['job_id']) for r in rows)
        if got != sorted([(self.R, 1), (self.R, 2), (self.D, 2)]):
            raise MachineryError(f'minisql does not parse `a AND b OR c` as `(a AND b) OR c`: {got}')
        db.restore(self.snap_full)
        self.passthrough = False

    def _request(self, method, path_t, match, body):
        path = path_t
        for k, v in match.items():
            path = path.replace('{%s}' % k, str(v))
        payload = self.streams.EMPTY_PAYLOAD
        if body is not None:
            proto = type('P', (), {'_reading_paused': False, 'pause_reading': lambda s, **k: None, 'resume_reading': lambda s, **k: None})()
            payload = self.streams.StreamReader(proto, 2 ** 22, loop=self.loop)
            payload.feed_data(json.dumps(body).encode())
            payload.feed_eof()
        return self.mk(method, path, match_info={k: str(v) for k, v in match.items()}, app=self.app, payload=payload)

    async def _call(self, method, path_t, match, userdata, body=None):
        r = self.real[(method, path_t)]
        req = self._request(method, path_t, match, body)
        self.cur_userdata = userdata
        self.entered.clear()
        try:
            resp = await r.handler(req)
            return (resp.status, None)
        except self.web.HTTPException as e:
            return (e.status, e.reason)
        except Exception as e:   # what aiohttp turns into a 500
            return (500, f'{type(e).__name__}: {e}')

    # ---- cases ----------------------------------------------------------------------------------------------------------------
    def cases(self, rng, n, tier):
        for r in self.table:
            for bits in range(256):
                cl = {f: bool(bits >> j & 1) for j, f in enumerate(CALLER_FIELDS)}
                yield {'kind': 'guard', 'route': [r['method'].upper(), r['path']], 'caller': cl}
                if cl['hasSession'] and not (cl['isAuth'] or cl['member'] or cl['owner']):
                    # a different account whose name equals a member's (and the owner's) name up to case: `Alice` on alice's batch
                    yield {'kind': 'guard', 'route': [r['method'].upper(), r['path']], 'caller': {**cl, 'namesake': True}}
                    # …and an account whose name equals the auth service's name up to case (`Auth`)
                    yield {'kind': 'guard', 'route': [r['method'].upper(), r['path']], 'caller': {**cl, 'namesake': 'auth'}}
        for key in ADMIN_ROUTES:
            for who in ADMIN_WHO:
                yield {'kind': 'admin', 'route': key, 'who': who}
        for _ in range(400 if tier == 'quick' else 6000):
            yield {'kind': 'session', 'events': self.gen_schedule(rng)}
        # every GET route of the generated table that names a batch: each item it returns must belong to that batch
        for r in self.table:
            if r['method'] == 'get' and '{batch_id}' in r['path']:
                params = re.findall(r'\{(\w+)\}', r['path'])
                for who in ('alice', 'bob'):
                    for job_id in ((1, 2, 3) if 'job_id' in params else (None,)):
                        for group in ((0, 1) if 'job_group_id' in params else (None,)):
                            yield {'kind': 'item', 'route': r['path'], 'who': who, 'job_id': job_id, 'job_group_id': group}
        # membership changes between requests of ONE front-end process: each request is judged against the membership at that time
        GETB, CANCEL, DELETE = ['GET', '/api/v1alpha/batches/{batch_id}'], ['PATCH', '/api/v1alpha/batches/{batch_id}/cancel'], ['DELETE', '/api/v1alpha/batches/{batch_id}']
        JOBS = ['GET', '/api/v1alpha/batches/{batch_id}/jobs']
        for reqs in ([GETB], [GETB, CANCEL], [JOBS, DELETE], [CANCEL]):
            yield {'kind': 'seq', 'steps': [['req', *r, 'bob'] for r in reqs] + [['remove', 'bp_alice_1', 'bob']] + [['req', *r, 'bob'] for r in (reqs + [GETB, CANCEL])]}
            yield {'kind': 'seq', 'steps': [['req', *r, 'carol'] for r in reqs] + [['add', 'bp_alice_1', 'carol']] + [['req', *r, 'carol'] for r in reqs]
                   + [['remove', 'bp_alice_1', 'carol']] + [['req', *r, 'carol'] for r in reqs]}
        for _ in range(40 if tier == 'quick' else 600):
            steps = []
            for _ in range(rng.randint(3, 9)):
                u = rng.choice(['bob', 'carol'])
                if rng.random() < 0.3:
                    steps.append([rng.choice(['add', 'remove']), 'bp_alice_1', u])
                else:
                    steps.append(['req', *rng.choice([GETB, CANCEL, JOBS, DELETE]), u])
            steps.append(['req', *GETB, rng.choice(['bob', 'carol'])])
            yield {'kind': 'seq', 'steps': steps}
        for route in BILLING_READS:
            for who in BILLING_WHO:
                yield {'kind': 'billing', 'route': route, 'who': who}
        # data level: every state keyword alone and negated on every job listing, then random queries from the grammars
        for route in ('jobs_v1', 'group_jobs_v1'):
            for w in STATE_WORDS:
                for q in (w, '!' + w, w + ' has:name', 'name=j1 ' + w):
                    yield {'kind': 'data', 'route': route, 'who': 'alice', 'q': q}
        for route in ('jobs_v2', 'group_jobs_v2'):
            for w in STATE_WORDS:
                for q in (f'state = {w}', f'state != {w}', f'state = {w}\nname = j1'):
                    yield {'kind': 'data', 'route': route, 'who': 'alice', 'q': q}
        for _ in range(300 if tier == 'quick' else 3000):
            route = rng.choice(list(DATA_ROUTES))
            yield {'kind': 'data', 'route': route, 'who': rng.choice(['alice', 'alice', 'bob', 'carol', 'dave']), 'q': self.gen_query(rng, route)}
        for path in LISTINGS:
            for who in WHO:
                yield {'kind': 'list', 'route': path, 'who': who}
        for h in MUTATORS:
            for who in WHO:
                if h == 'close_batch' and who in ('owner', 'namesake'):
                    # on the current schema the deprecated close_batch fails for EVERY caller (its first SELECT reads job_groups.deleted,
                    # a column that only `batches` has -> 1054 -> 500), so there is no owner success to compare; non-owners are still run
                    continue
                if h == 'create_update':
                    variants = [('fresh', 'n/a'), ('known', 'n/a')]
                elif h == 'update_batch_fast':
                    variants = [('fresh', 'one-job'), ('known', 'empty'), ('known', 'one-job')]
                else:
                    variants = [('n/a', 'n/a')]
                for tok, payload in variants:
                    yield {'kind': 'owner', 'handler': h, 'who': who, 'token': tok, 'payload': payload}

    @staticmethod
    def gen_query(rng, route):
        """a query string from the grammar of the v1 (space separated terms, `!` negation) or v2 (one `left op right` per line) parser"""
        v2 = route.endswith('_v2')
        batches = route.startswith('batches')
        terms = []
        for _ in range(rng.choice([0, 1, 1, 2, 3])):
            r = rng.random()
            if batches:
                if v2:
                    terms.append(rng.choice(['state = running', 'state != complete', 'user = alice', 'user = bob', 'billing_project = bp_x',
                                             'billing_project != bp_alice_1', 'batch_id >= 2', 'name = b3', '"b3"', 'b', 'cost >= 0',
                                             'state = open', 'user != alice', 'billing_project =~ bp']))
                else:
                    t = rng.choice(['open', 'closed', 'complete', 'running', 'cancelled', 'failure', 'success', 'user:alice', 'user:bob',
                                    'billing_project:bp_x', 'billing_project:bp_alice_1', 'has:name', 'name=b3', 'name=b4'])
                    terms.append(('!' if rng.random() < 0.3 else '') + t)
            elif v2:
                w = rng.choice(STATE_WORDS)
                terms.append(rng.choice([f'state = {w}', f'state != {w}', f'state == {w}', 'name = j1', 'name != j3', 'name =~ j', '"j1"', 'j',
                                         f'job_id >= {rng.randint(1, 4)}', f'job_id < {rng.randint(2, 6)}', 'instance = x', 'cost >= 0',
                                         'duration >= 0']))
            else:
                if r < 0.55:
                    t = rng.choice(STATE_WORDS)
                elif r < 0.75:
                    t = rng.choice(['has:name', 'has:nope'])
                else:
                    t = rng.choice(['name=j1', 'name=j3', 'name=zz'])
                terms.append(('!' if rng.random() < 0.3 else '') + t)
        return ('\n' if v2 else ' ').join(terms)

    @staticmethod
    def gen_schedule(rng):
        """requests, clock advances (ms) and changes of the auth service's answer for the session; the session is often kept warm
        (requests less than one cache lifetime apart) across a deactivation / revocation"""
        ev = ['r']
        warm = rng.random() < 0.6
        for _ in range(rng.randint(3, 14)):
            r = rng.random()
            if r < 0.2:
                ev.append(rng.choice(['s1', 's2', 's1', 's2', 's0']))
            gap = rng.choice([1, 500, 2500, 4000, 7000, 9000, 9999]) if warm else rng.choice([1, 3000, 9999, 10000, 10001, 15000, 30000])
            ev.append(f'a{gap}')
            ev.append('r')
        if rng.random() < 0.5:
            # exact boundary: a load, then exactly one lifetime (or 1 ms less) until the next request
            ev += [rng.choice(['s1', 's2']), f'a{rng.choice([TTL_MS - 1, TTL_MS, TTL_MS + 1])}', 'r']
        return ev

    def search_cases(self, rng, n, hint):
        return []     # the regular case stream already enumerates everything

    def model_lines(self, c):
        if c['kind'] == 'guard':
            return ['guard %d %s' % (self._index(c['route']), ' '.join('1' if c['caller'].get(f) else '0' for f in CALLER_FIELDS))]
        if c['kind'] == 'admin':
            return ['adm %d %d' % (c['who'] == 'developer', c['who'] == 'auth')]
        if c['kind'] == 'session':
            return ['sess %d %s' % (TTL_MS, ' '.join(c['events']))]
        if c['kind'] in ('data', 'billing', 'item'):
            return ['rows']
        if c['kind'] == 'seq':
            # one guard line per request, with the membership bit of that moment
            lines, member = [], {'bob': True, 'carol': False}
            for st in c['steps']:
                if st[0] == 'req':
                    bits = {'hasSession': 1, 'active': 1, 'developer': 0, 'isAuth': 0, 'member': int(member[st[3]]), 'owner': 0, 'batchIdOk': 1, 'serviceAccount': 0}
                    lines.append('guard %d %s' % (self._index([st[1], st[2]]), ' '.join(str(bits[f]) for f in CALLER_FIELDS)))
                else:
                    member[st[2]] = st[0] == 'add'
            return lines
        if c['kind'] == 'list':
            return ['list %d %d' % (c['who'] in ('owner', 'mate'), c['who'] == 'namesake')]
        m = MUTATORS[c['handler']][0]
        return ['mut %s %d %d %d %d' % (m, c['who'] == 'owner', c['token'] == 'known', c['payload'] == 'empty', c['who'] == 'namesake')]

    # ---- guards ---------------------------------------------------------------------------------------------------------------
    def _guard(self, c):
        k = json.dumps(c, sort_keys=True)
        if k not in self._cache:
            self._cache[k] = self._guard_run(c)
        return self._cache[k]

    def _index(self, route):
        for i, r in enumerate(self.table):
            if [r['method'].upper(), r['path']] == list(route):
                return i
        return 99999

    def _guard_run(self, c):
        i = self._index(c['route'])
        if i == 99999:
            return None, 'no-such-route', []
        r = self.table[i]
        method, path_t = r['method'].upper(), r['path']
        cl = c['caller']
        key = (method, path_t)
        cls = py_required(method, path_t)
        if key not in self.real:
            # registered in run() (metrics, common static): plain function / static resource, no decorator can be in front of it
            h = getattr(self.fe, r['handler'], None)
            if r['handler'] != 'static' and (h is None or hasattr(h, '__wrapped__')):
                return None, f'{method} {path_t} not-found-in-module {cls}', []
            return True, f'{method} {path_t} allow {cls}', []
        if key in self.bare:
            return True, f'{method} {path_t} allow {cls}', []
        name = 'auth' if cl['isAuth'] else 'alice'
        namesake = cl.get('namesake') is True
        if namesake:
            name = 'Alice'
        elif cl.get('namesake') == 'auth':
            name = 'Auth'
        userdata = None
        if cl['hasSession']:
            userdata = self.ud(name, dev=1 if cl['developer'] else 0, state='active' if cl['active'] else 'inactive',
                               sa=1 if cl.get('serviceAccount') else 0)
        match = {}
        for p in re.findall(r'\{(\w+)\}', path_t):
            if p == 'batch_id':
                bkey = (False, True, True) if namesake else (cl['isAuth'], cl['member'], cl['owner'])
                match[p] = self.batch_for[bkey] if cl['batchIdOk'] else 'abc'
            else:
                match[p] = '1'
        pool = self.app['db'].pool
        start = len(pool.log)
        status, _ = self.loop.run_until_complete(self._call(method, path_t, match, userdata))
        entered = bool(self.entered)
        writes = [sql for (_, _, sql) in pool.log[start:] if re.match(r'\s*(INSERT|UPDATE|DELETE|REPLACE|CALL)\b', str(sql), re.I)]
        outcome = 'allow' if entered else {302: 'redirect', 401: '401', 403: '403', 404: '404', 500: '500'}.get(status, f'status{status}')
        return entered, f'{method} {path_t} {outcome} {cls}', writes

    # ---- owner-only mutators --------------------------------------------------------------------------------------------------
    def _owner(self, c):
        k = json.dumps(c, sort_keys=True)
        if k not in self._cache:
            self._cache[k] = self._owner_run(c)
        return self._cache[k]

    def _owner_run(self, c):
        h, who, tok, payload = c['handler'], c['who'], c['token'], c['payload']
        _, method, path_t = MUTATORS[h]
        user = {'owner': 'alice', 'mate': 'bob', 'stranger': 'carol', 'developer': 'dave', 'namesake': 'Alice'}[who]
        userdata = self.ud(user, dev=1 if who == 'developer' else 0)
        job = self.batchapp.job_spec(1)
        snap, match, body = self.snap_open, {'batch_id': self.A1}, None
        if h == 'create_update':
            body = {'token': 'TOK' if tok == 'known' else 'NEWTOK', 'n_jobs': 1, 'n_job_groups': 0}
        elif h == 'update_batch_fast':
            if tok == 'fresh':
                body = {'update': {'token': 'NEWTOK', 'n_jobs': 1, 'n_job_groups': 0}, 'bunch': [job], 'job_groups': []}
            elif payload == 'empty':
                snap = self.snap_full
                body = {'update': {'token': 'TOK', 'n_jobs': 1, 'n_job_groups': 0}, 'bunch': [], 'job_groups': []}
            else:
                body = {'update': {'token': 'TOK', 'n_jobs': 1, 'n_job_groups': 0}, 'bunch': [job], 'job_groups': []}
        elif h in ('create_jobs_for_update', 'create_jobs'):
            body = [job]
            if h == 'create_jobs_for_update':
                match['update_id'] = 1
        elif h == 'create_job_groups':
            match = {'batch_id': self.A2, 'update_id': 1}
            body = [{'job_group_id': 1, 'absolute_parent_id': 0}]
        elif h == 'commit_update':
            snap = self.snap_full
            match['update_id'] = 1
        elif h == 'close_batch':
            snap = self.snap_full
        self.db.restore(snap)
        before = self.db.dump()
        self.passthrough = True
        try:
            status, reason = self.loop.run_until_complete(self._call(method, path_t, match, userdata, body))
            # let fire-and-forget notifications to the (fake) driver finish
            self.loop.run_until_complete(asyncio.sleep(0))
        finally:
            self.passthrough = False
        after = self.db.dump()
        changed = sorted(t for t in after if after[t] != before.get(t))
        return status, reason, changed

    def _listing(self, c):
        k = json.dumps(c, sort_keys=True)
        if k not in self._cache:
            user = {'owner': 'alice', 'mate': 'bob', 'stranger': 'carol', 'developer': 'dave', 'namesake': 'Alice'}[c['who']]
            self.db.restore(self.snap_done)
            self.passthrough = True
            try:
                r = self.real[('GET', c['route'])]
                req = self.mk('GET', c['route'] + '?q=', match_info={}, app=self.app)
                self.cur_userdata = self.ud(user, dev=1 if c['who'] == 'developer' else 0)
                try:
                    resp = self.loop.run_until_complete(r.handler(req))
                    ids = [b['id'] for b in json.loads(resp.body).get('batches', [])]
                    res = (resp.status, ids)
                except self.web.HTTPException as e:
                    res = (e.status, [])
                except Exception as e:
                    res = (500, [])
            finally:
                self.passthrough = False
            self._cache[k] = res
        return self._cache[k]

    def _admin(self, c):
        k = json.dumps(c, sort_keys=True)
        if k not in self._cache:
            method, path_t, match, body = ADMIN_ROUTES[c['route']]
            name, dev, sa = ADMIN_WHO[c['who']]
            userdata = self.ud(name, dev=dev, sa=sa, state='inactive' if c['who'].startswith('inactive') else 'active')
            self.db.restore(self.snap_open)
            before = self.db.dump()
            self.passthrough = True
            try:
                status, reason = self.loop.run_until_complete(self._call(method, path_t, match, userdata, body))
                self.loop.run_until_complete(asyncio.sleep(0))
            finally:
                self.passthrough = False
            after = self.db.dump()
            self._cache[k] = (status, reason, sorted(t for t in after if after[t] != before.get(t)))
        return self._cache[k]

    def _session(self, c):
        """the REAL AuthServiceAuthenticator (fresh instance, real TimeLimitedMaxSizeCache, real impersonate_user / retry_transient_errors)
        in front of a probe handler; the auth service is a fake HTTP client whose answer follows the schedule; time.monotonic_ns is
        the schedule's clock"""
        k = json.dumps(c, sort_keys=True)
        if k in self._cache:
            return self._cache[k]
        import time as _time

        import aiohttp
        ga, web = self.ga, self.web
        svc = {'state': 's0'}
        clock = {'ms': 0}
        calls = []

        class AuthService:
            async def get_read_json(self_, url, headers=None, **kw):
                assert url.endswith('/api/v1alpha/userinfo'), url
                calls.append(clock['ms'])
                if svc['state'] == 's2':
                    raise aiohttp.ClientResponseError(None, (), status=401, message='Unauthorized')
                return self.ud('erin', state='active' if svc['state'] == 's0' else 'inactive')

        authn = ga.AuthServiceAuthenticator()

        async def body(request, userdata):
            return web.Response()
        handler = authn.authenticated_users_only()(body)
        app = web.Application()
        app[ga.CommonAiohttpAppKeys.CLIENT_SESSION] = AuthService()
        saved = _time.monotonic_ns
        _time.monotonic_ns = lambda: 1_000_000_000_000 + clock['ms'] * 1_000_000
        out = []
        try:
            for e in c['events']:
                if e == 'r':
                    req = self.mk('GET', '/api/v1alpha/batches', headers={'Authorization': 'Bearer session-1'}, app=app)
                    try:
                        resp = self.loop.run_until_complete(handler(req))
                        out.append((clock['ms'], resp.status))
                    except web.HTTPException as ex:
                        out.append((clock['ms'], ex.status))
                elif e.startswith('a'):
                    clock['ms'] += int(e[1:])
                else:
                    svc['state'] = e
        finally:
            _time.monotonic_ns = saved
        self._cache[k] = out
        return out

    def _data(self, c):
        """a read route with its REAL handler body and the real query builders over minisql: (status, rows, what the caller asked for)"""
        k = json.dumps(c, sort_keys=True)
        if k in self._cache:
            return self._cache[k]
        from urllib.parse import quote
        path_t = DATA_ROUTES[c['route']]
        who = c['who']
        # alice reads her batch A2; bob (project-mate in bp_alice_1) reads A2 too; carol / dave are not admitted anywhere relevant
        bid = self.R
        match = {}
        if '{batch_id}' in path_t:
            match['batch_id'] = bid
        if '{job_group_id}' in path_t:
            match['job_group_id'] = 0
        path = path_t
        for kk, v in match.items():
            path = path.replace('{%s}' % kk, str(v))
        self.db.restore(self.snap_data)
        self.passthrough = True
        try:
            req = self.mk('GET', path + '?q=' + quote(c['q']), match_info={kk: str(v) for kk, v in match.items()}, app=self.app)
            self.cur_userdata = self.ud(who, dev=1 if who == 'dave' else 0)
            try:
                resp = self.loop.run_until_complete(self.real[('GET', path_t)].handler(req))
                body = json.loads(resp.body) if resp.body else {}
                res = (resp.status, body)
            except self.web.HTTPException as e:
                res = (e.status, {})
            except Exception as e:
                res = (500, {'error': f'{type(e).__name__}: {e}'})
        finally:
            self.passthrough = False
        self._cache[k] = res
        return res

    def _item(self, c):
        """a batch-scoped read route with its real body: (status, response text, file-store keys asked, foreign things found)"""
        k = json.dumps(c, sort_keys=True)
        if k in self._cache:
            return self._cache[k]
        path_t = c['route']
        match = {}
        for p_ in re.findall(r'\{(\w+)\}', path_t):
            match[p_] = {'batch_id': self.R, 'job_id': c.get('job_id'), 'job_group_id': c.get('job_group_id'), 'container': 'main'}.get(p_, '1')
        path = path_t
        for kk, v in match.items():
            path = path.replace('{%s}' % kk, str(v))
        self.db.restore(self.snap_data)
        fs = self.app['file_store']
        n0 = len(fs.asked)
        self.passthrough = True
        try:
            req = self.mk('GET', path, match_info={kk: str(v) for kk, v in match.items()}, app=self.app)
            self.cur_userdata = self.ud(c['who'])
            try:
                resp = self.loop.run_until_complete(self.real[('GET', path_t)].handler(req))
                body = getattr(resp, 'body', None)
                text = body.decode('utf-8', 'replace') if isinstance(body, (bytes, bytearray)) else (str(body) if body is not None else '')
                status = resp.status
            except self.web.HTTPException as e:
                status, text = e.status, ''
            except Exception as e:
                status, text = 500, ''
        finally:
            self.passthrough = False
        asked = fs.asked[n0:]
        bad = [('file-store-read', a) for a in asked if a[1] != self.R]
        # every marker of the seeded data names its batch: instance names, file-store contents, job-group names, batch_id fields
        for m in re.finditer(r'(inst|status|log|profile|g)-b(\d+)', text):
            if int(m.group(2)) != self.R:
                bad.append(('item-of-batch', int(m.group(2)), text[max(0, m.start() - 40):m.end() + 30]))
        for m in re.finditer(r'"batch_id":\s*(\d+)', text):
            if int(m.group(1)) != self.R:
                bad.append(('row-of-batch', int(m.group(1)), text[max(0, m.start() - 20):m.end() + 60]))
        res = (status, len(text), asked, bad)
        self._cache[k] = res
        return res

    def _seq(self, c):
        """requests and membership changes in ONE process (module-level state of front_end survives between the requests); the
        membership is changed through the real `_remove_user_from_billing_project` / the statement of `_add_user_to_billing_project`"""
        k = json.dumps(c, sort_keys=True)
        if k in self._cache:
            return self._cache[k]
        self.db.restore(self.snap_data)
        member = {'bob': True, 'carol': False}
        out = []
        for st in c['steps']:
            if st[0] == 'req':
                _, method, path_t, user = st
                status, _ = self.loop.run_until_complete(self._call(method, path_t, {'batch_id': self.R}, self.ud(user)))
                entered = bool(self.entered)
                outcome = 'allow' if entered else {302: 'redirect', 401: '401', 403: '403', 404: '404', 500: '500'}.get(status, f'status{status}')
                out.append((method, path_t, user, member[user], entered, outcome))
            elif st[0] == 'remove':
                try:
                    self.loop.run_until_complete(self.fe._remove_user_from_billing_project(self.app['db'], st[1], st[2]))
                except Exception:
                    pass        # not a member: the real function refuses
                member[st[2]] = False
            else:
                if not member[st[2]]:
                    # the INSERT of `_add_user_to_billing_project` (the function itself first asks the auth service about the user)
                    self.db.execute('INSERT INTO billing_project_users(billing_project, user, user_cs) VALUES (%s, %s, %s)', (st[1], st[2], st[2]))
                member[st[2]] = True
        self._cache[k] = out
        return out

    def _billing(self, c):
        k = json.dumps(c, sort_keys=True)
        if k in self._cache:
            return self._cache[k]
        path_t, match = BILLING_READS[c['route']]
        name, dev, sa, _ = BILLING_WHO[c['who']]
        path = path_t
        for kk, v in match.items():
            path = path.replace('{%s}' % kk, str(v))
        self.db.restore(self.snap_data)
        self.passthrough = True
        try:
            req = self.mk('GET', path, match_info=dict(match), app=self.app)
            self.cur_userdata = self.ud(name, dev=dev, sa=sa)
            try:
                resp = self.loop.run_until_complete(self.real[('GET', path_t)].handler(req))
                res = (resp.status, json.loads(resp.body) if resp.body else None)
            except self.web.HTTPException as e:
                res = (e.status, None)
            except Exception as e:
                res = (500, {'error': f'{type(e).__name__}: {e}'})
        finally:
            self.passthrough = False
        self._cache[k] = res
        return res

    def _billing_foreign(self, c):
        """billing projects / usage rows in the answer that the caller may not see: a plain user sees the projects it belongs to and its
        own usage; developers (and, for the project routes, the auth service) see everything"""
        status, body = self._billing(c)
        name, dev, sa, member_of = BILLING_WHO[c['who']]
        if dev or body is None:
            return []
        sees_all_projects = name == 'auth'
        bad = []

        def walk(x):
            if isinstance(x, dict):
                bp = x.get('billing_project')
                if isinstance(bp, str):
                    if 'user' in x and isinstance(x['user'], str):
                        if x['user'] != name:
                            bad.append(('usage-of', x['user'], bp))
                    elif bp not in member_of and not sees_all_projects:
                        bad.append(('billing-project', bp, x.get('users')))
                for v in x.values():
                    walk(v)
            elif isinstance(x, list):
                for v in x:
                    walk(v)
        walk(body)
        if isinstance(body, dict) and 'page_context' in body:
            for r in body['page_context'].get('billing_by_user', []):
                if r.get('user') != name:
                    bad.append(('usage-of', r.get('user'), None))
        return bad

    def _data_foreign(self, c):
        """rows of the answer the caller must not see"""
        status, body = self._data(c)
        if not isinstance(body, dict):
            return []
        who = c['who']
        bad = []
        if c['route'].startswith('batches'):
            member_of = {'alice': {'bp_alice_1'}, 'bob': {'bp_alice_1', 'bp_auth_1', 'bp_x'}, 'carol': {'bp_carol'}, 'dave': {'bp_dave'}}[who]
            for b in body.get('batches', []):
                if b.get('billing_project') not in member_of:
                    bad.append(('batch', b.get('id'), b.get('billing_project')))
        else:
            for key in ('jobs', 'job_groups'):
                for r in body.get(key, []):
                    if r.get('batch_id') != self.R:
                        bad.append((key[:-1], r.get('batch_id'), r.get('job_id', r.get('job_group_id'))))
        return bad

    def impl(self, c):
        if c['kind'] == 'guard':
            return [self._guard(c)[1]]
        if c['kind'] == 'data':
            bad = self._data_foreign(c)
            return ['only-permitted-rows' if not bad else f'foreign-rows:{len(bad)}']
        if c['kind'] == 'billing':
            bad = self._billing_foreign(c)
            return ['only-permitted-rows' if not bad else f'foreign-rows:{len(bad)}']
        if c['kind'] == 'item':
            bad = self._item(c)[3]
            return ['only-permitted-rows' if not bad else f'foreign-rows:{len(bad)}']
        if c['kind'] == 'seq':
            return [f'{m} {p} {o} member' for (m, p, u, mem, ent, o) in self._seq(c)]
        if c['kind'] == 'session':
            return [','.join(str(st) for _, st in self._session(c))]
        if c['kind'] == 'admin':
            status, reason, changed = self._admin(c)
            if c['who'] in ('developer', 'auth'):
                return ['admin-caller']
            return [f"{'ok' if 200 <= status < 300 else 'error'} {'changed' if changed else 'unchanged'}"]
        if c['kind'] == 'list':
            status, ids = self._listing(c)
            return ['listed' if self.A1 in ids else 'hidden']
        status, reason, changed = self._owner(c)
        return [f"{'ok' if 200 <= status < 300 else 'error'} {'changed' if changed else 'unchanged'}"]

    # ---- the property on the real behaviour -----------------------------------------------------------------------------------------
    def oracle(self, c, out):
        if out[0].startswith('IMPL-EXC'):
            return out[0]
        if c['kind'] == 'guard':
            entered, line, writes = self._guard(c)
            if line == 'no-such-route':
                return None      # a stale corpus case: the route no longer exists
            r = self.table[self._index(c['route'])]
            method, path_t = r['method'].upper(), r['path']
            cls = py_required(method, path_t)
            who = ','.join(f for f in CALLER_FIELDS if c['caller'].get(f)) or 'anonymous'
            if c['caller'].get('namesake') is True:
                who += ',account `Alice` on a batch of `alice`'
            elif c['caller'].get('namesake') == 'auth':
                who += ',account `Auth` (not the auth service)'
            if entered is None:
                return f'unguarded: {method} {path_t}: registered handler {r["handler"]} cannot be inspected ({line})'
            if entered and not established(cls, c['caller']):
                return (f'unguarded: {method} {path_t} ({r["handler"]}) lets the caller [{who}] reach the handler body; the policy requires '
                        f'class {cls}')
            if not entered and writes:
                return f'denied-but-wrote: {method} {path_t} ({r["handler"]}) refused [{who}] but executed {writes[0][:80]!r}'
            return None
        if c['kind'] == 'seq':
            for i, (m, p, u, mem, ent, o) in enumerate(self._seq(c)):
                if ent and not mem:
                    return (f'unguarded over time: request #{i + 1} {m} {p} (batch {self.R}) by {u} reached the handler body although {u} is not a member of the '
                            f'batch\'s billing project at that moment; steps {c["steps"]}')
            return None
        if c['kind'] == 'item':
            status, _, asked, bad = self._item(c)
            if bad:
                return (f'item leak: GET {c["route"]} (batch {self.R}, job {c.get("job_id")}, job group {c.get("job_group_id")}) as {c["who"]} '
                        f'answered {status} with items of another batch: {bad[:4]}')
            return None
        if c['kind'] == 'billing':
            bad = self._billing_foreign(c)
            if bad:
                status, _ = self._billing(c)
                path_t, match = BILLING_READS[c['route']]
                name, dev, sa, member_of = BILLING_WHO[c['who']]
                return (f'billing data leak: GET {path_t} {match} as {c["who"]} (username {name!r}, is_developer={dev}, member of '
                        f'{sorted(member_of)}) answered {status} with billing projects / usage the caller may not read: {bad[:5]}')
            return None
        if c['kind'] == 'data':
            bad = self._data_foreign(c)
            if bad:
                status, _ = self._data(c)
                return (f'data leak: GET {DATA_ROUTES[c["route"]]} (batch {self.R}) with q={c["q"]!r} as {c["who"]} answered {status} with rows the caller '
                        f'may not read (kind, batch, id / billing project): {bad[:6]}')
            return None
        if c['kind'] == 'session':
            # the property over time: a request arriving one cache lifetime or more after the auth service stopped calling the user
            # active / authenticated must be refused (inside the lifetime the documented cache may still answer)
            results = iter(self._session(c))
            t, state, bad_since = 0, 's0', None
            for e in c['events']:
                if e == 'r':
                    at, status = next(results)
                    if status == 200 and bad_since is not None and t - bad_since >= TTL_MS:
                        return (f'stale session: the request at t={t} ms was answered 200 although the auth service has said '
                                f'{"inactive" if state == "s1" else "revoked (401)"} since t={bad_since} ms, {t - bad_since} ms ago '
                                f'(cache lifetime {TTL_MS} ms); schedule {" ".join(c["events"])}')
                elif e.startswith('a'):
                    t += int(e[1:])
                else:
                    state = e
                    bad_since = None if e == 's0' else (t if bad_since is None else bad_since)
            return None
        if c['kind'] == 'admin':
            status, reason, changed = self._admin(c)
            name, dev, sa = ADMIN_WHO[c['who']]
            if c['who'] not in ('developer', 'auth') and (200 <= status < 300 or changed):
                method, path_t, match, _ = ADMIN_ROUTES[c['route']]
                return (f'billing administration {method} {path_t} {match}: caller {c["who"]} (username {name!r}, is_developer={dev}, '
                        f'is_service_account={sa}) is neither a developer nor the auth service but got {status} and the database '
                        f'{"changed in " + ", ".join(changed) if changed else "did not change"}')
            if c['who'] == 'developer' and c['route'] == 'create' and not (200 <= status < 300 and changed):
                return f'scenario problem: a developer could not create a billing project ({status} {reason})'
            return None
        if c['kind'] == 'list':
            status, ids = self._listing(c)
            if c['who'] not in ('owner', 'mate') and self.A1 in ids:
                return (f'listing {c["route"]}: {c["who"]} (not in the billing project, not the owner) is shown batch {self.A1} of '
                        f'alice ({status}, ids {ids})')
            return None
        status, reason, changed = self._owner(c)
        ok = 200 <= status < 300
        if c['who'] != 'owner' and (ok or changed):
            return (f'owner-only {c["handler"]} (token {c["token"]}, payload {c["payload"]}): non-owner {c["who"]} got {status} and the database '
                    f'{"changed in " + ", ".join(changed) if changed else "did not change"}')
        if c['who'] == 'owner' and not ok:
            return f'scenario problem: the owner\'s own {c["handler"]} request failed with {status} {reason} (no non-vacuity)'
        return None

    def finding_key(self, c, msg):
        # one root cause: `batches.user` / `billing_project_users.user` are compared case-insensitively
        if c.get('who') == 'namesake' and (c['kind'] == 'list' or (c['kind'] == 'owner' and c['handler'] != 'close_batch')):
            return KEY_CI
        if c['kind'] == 'owner' and c['who'] != 'owner' and c['token'] == 'known':
            if c['handler'] == 'update_batch_fast' and c['payload'] == 'empty' and 'changed in' in msg:
                return KEY_FAST
            if c['handler'] == 'create_update' and 'did not change' in msg:
                return KEY_CREATE
        if c['kind'] == 'guard':
            return f'{msg.split(":", 1)[0]} {c["route"][0]} {c["route"][1]}'
        return json.dumps(c, sort_keys=True)

    def classify(self, c, out):
        line = out[0] if out else ''
        if c['kind'] == 'guard':
            parts = line.split(' ')
            outcome, cls = (parts[-2], parts[-1]) if len(parts) >= 4 else ('?', '?')
            tags = ['guard:' + outcome, 'class:' + cls]
            nontrivial = outcome != 'allow' or cls != 'pub'
            return (json.dumps(c, sort_keys=True) if nontrivial else None, tags)
        if c['kind'] == 'seq':
            changed = any(st[0] != 'req' for st in c['steps'])
            return (json.dumps(c, sort_keys=True) if changed else None, ['seq:' + ('membership-changes' if changed else 'static')])
        if c['kind'] == 'item':
            status, n, asked, bad = self._item(c)
            return (json.dumps(c, sort_keys=True) if status == 200 and (n > 2 or asked) else None, [f'item:{status}:{"data" if n > 2 or asked else "empty"}'])
        if c['kind'] == 'billing':
            status, body = self._billing(c)
            return (json.dumps(c, sort_keys=True) if status == 200 else None, [f'billing:{c["route"].split(":")[0]}:{status}'])
        if c['kind'] == 'data':
            status, body = self._data(c)
            n = sum(len(body.get(kk, [])) for kk in ('jobs', 'job_groups', 'batches')) if isinstance(body, dict) else 0
            return (json.dumps(c, sort_keys=True) if n else None, [f'data:{c["route"]}:{status}:{"rows" if n else "empty"}'])
        if c['kind'] == 'session':
            sts = line.split(',')
            changed = any(e in ('s1', 's2') for e in c['events'])
            return (json.dumps(c, sort_keys=True) if changed else None,
                    ['session:refused-after-change' if changed and sts[-1] != '200' else 'session:other'])
        return (json.dumps(c, sort_keys=True), [f'{c["kind"]}-case:{c["who"]}:{line}'])

    def shrink(self, c, fails):
        if c.get('kind') != 'session' or not fails(c):
            return c
        from ..framework import generic_shrink_list
        return {**c, 'events': generic_shrink_list(c['events'], lambda ev: fails({**c, 'events': ev}))}

    def extra_checks(self, repo, tier, rng):
        """the generated table and the real RouteTableDef must list the same (method, path) registrations"""
        out = []
        ext = {(r['method'].upper(), r['path']) for r in self.table}
        real = set(self.real) | {(m, p) for (m, p) in ext if (m, p) not in self.real and p in ('/metrics', '/common_static/{filename}')}
        for k in sorted(real - ext):
            out.append(({'kind': 'table', 'route': list(k)}, f'unguarded: {k[0]} {k[1]} is registered at import time but missing from the extracted table'))
        for k in sorted(ext - real):
            out.append(({'kind': 'table', 'route': list(k)}, f'table: {k[0]} {k[1]} is in the extracted table but not registered at import time'))
        return out

    def extra_coverage(self):
        return {'exhaustive': True, 'routes': len(self.table), 'callers_per_route': 256}


PROP = C14()

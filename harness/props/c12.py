"""C12 Resource requests are never under-provisioned — T tie (machine tables -> Generated/Machines.lean) + correspondence of
Resources.frontEnd with the real resource block of front_end._create_jobs driving the real
InstanceCollectionConfigs.select_inst_coll on PoolConfig objects built without a database."""
import ast
import json
import math
import os
import re
from decimal import Decimal
from fractions import Fraction

from .. import loader
from ..extract import machines
from ..framework import Prop, TieBroken
from .c11 import _ENV, _drive

FRONT_END = 'batch/batch/front_end/front_end.py'
GIB = 1024 ** 3
CONV = {'K': 1000, 'Ki': 1024, 'M': 1000 ** 2, 'Mi': 1024 ** 2, 'G': 1000 ** 3, 'Gi': 1024 ** 3, 'T': 1000 ** 4, 'Ti': 1024 ** 4,
        'P': 1000 ** 5, 'Pi': 1024 ** 5}
_SIZE = re.compile(r'[+]?((?:[0-9]*[.])?[0-9]+)([KMGTP]i?)?B?')
_CPU = re.compile(r'[+]?((?:[0-9]*[.])?[0-9]+)(m)?')


def size_bytes(s):
    """the harness's own reading of a memory/storage string: decimal value times the unit, rounded up (C25's statement)"""
    m = _SIZE.fullmatch(s)
    assert m, s
    return math.ceil(Fraction(m.group(1)) * (CONV[m.group(2)] if m.group(2) else 1))


def size_exact(s):
    """the exact request a memory/storage string denotes: decimal value times the unit, as a Fraction (no rounding)"""
    m = _SIZE.fullmatch(s)
    assert m, s
    return Fraction(m.group(1)) * (CONV[m.group(2)] if m.group(2) else 1)


def just_above(b, unit='Gi'):
    """a string denoting b bytes plus a fraction of a byte, written in `unit` with a long fractional part (e.g. 3.7500000001Gi)"""
    f = CONV[unit]
    q = Fraction(b, f)
    den = q.denominator
    digits = 0
    while den % 10 == 0 or den % 2 == 0 or den % 5 == 0:
        if den == 1:
            break
        q10 = q * 10 ** (digits + 1)
        digits += 1
        if q10.denominator == 1:
            break
        den = q10.denominator
    if (q * 10 ** digits).denominator != 1:
        return None
    whole = q * 10 ** digits
    ip, fp = divmod(int(whole), 10 ** digits)
    frac = str(fp).rjust(digits, '0') if digits else ''
    pad = max(0, 9 - len(frac)) + (len(f'{f}') - 9 if f > 10 ** 9 else 0)
    s = f'{ip}.{frac}{"0" * pad}1{unit}'
    return s if b < size_exact(s) < b + 1 else None


def cpu_mcpu(s):
    m = _CPU.fullmatch(s)
    assert m, s
    v = Fraction(m.group(1)) * (1 if m.group(2) else 1000)
    return int(v)


def is_pow2_quarter(mcpu):
    if mcpu <= 0 or (4 * mcpu) % 1000 != 0:
        return False
    q = 4 * mcpu // 1000
    return q & (q - 1) == 0


class C12(Prop):
    id = 'C12'
    title = 'Resource requests are never under-provisioned'
    lean_props = ['HailVerif.Props.C12']
    driver = 'Driver/C12.lean'
    engine = 'E3-pure'
    design_ref = 'DESIGN.md §4 C12'
    technique = ('Lean 4 theorems about an integer model of the request conversion and pool selection (price an uninterpreted function), '
                 'finite machine tables re-generated from the imported modules on every run (decide +kernel), differential correspondence '
                 'with the real front-end resource block + InstanceCollectionConfigs.select_inst_coll')
    level_text = ('Theorems for all requests, all pool lists, all price functions and location lists: a placement grants cores, memory and '
                  'storage >= the request, in a configured collection matching cloud/preemptibility/label (and worker type when named), '
                  'within worker cores and worker memory; granted cores are the least 250*2^k covering cpu and memory; a request is answered '
                  'unsatisfiable iff no matching collection can hold it (storage over the cloud limit, or even the least packable core count '
                  'exceeds the worker; job-private: other cloud or storage over the limit). Machine tables are translated from the imported '
                  'modules on every run; the model is tied to the real code by differential runs on both clouds.')
    level_note = ('Trusted: Lean kernel; table translator harness/extract/machines.py; the hand-written model agrees with the Python code only '
                  'as far as the correspondence cases show; Python float expressions ceil((m/p)*1000), log2, int((c/1000)*p) are modelled by '
                  'exact integer arithmetic (boundary-directed cases k*p/1000 +- 1 are run; not proved); price_per_hour and '
                  'possible_cloud_locations are replaced by case-supplied tables (price is uninterpreted in the theorems); jvm-specific '
                  'checks of the block are not exercised (docker jobs only).')
    budget = {'quick': 20000, 'thorough': 400000}
    search_budget = {'quick': 10000, 'thorough': 200000}
    rule = ('case = (cloud, job-private manager, 0..3 locations, 0..5 pools with worker type / cores from the valid-cores tables, preemptible, '
            'label, per-location prices with ties; request = machine_type | (cpu string, memory = lowmem/standard/highmem or a size string, '
            'storage string, preemptible, pool_label); 15% of the cases repeat the request on the same InstanceCollectionConfigs object after '
            '1-2 pool reconfigurations written to inst_colls / pools (minisql) and read back by the real create() / refresh(); sent as a job through the real validate_and_clean_jobs in modern or deprecated spelling '
            '(pvc_size for resources.storage with the resources key absent / empty / present, command+image for process, gcsfuse, parent_ids)); memory sizes are boundary-directed (ceil(k*per_core/1000) -1/0/+1 for packable and '
            'arbitrary k), storage at 0, 10Gi+-1 and the cloud limit +-1; cpu strings k+0.001, k+1e-9, k+0.0010000001, k-0.001 cores around every packable size; non-trivial = a placement, or an unsatisfiable answer with at '
            'least one collection matching cloud/preemptibility/label; distinct by full case')
    trusted = ['harness/extract/machines.py (table translator)',
               'the resource block of _create_jobs is taken by AST (statements from `resources = spec.get(\'resources\')` to '
               '`resources[\'preemptible\'] = preemptible`) and executed in the imported front_end module namespace',
               'the job is first passed through the real batch.front_end.validate.validate_and_clean_jobs (schema + deprecated keys)',
               'sequence cases: InstanceCollectionConfigs.create / refresh read inst_colls and pools through harness/minisql',
               'PoolConfig.price_per_hour and possible_cloud_locations replaced by case-supplied integer tables',
               "harness's own reading of size strings (value * unit, rounded up) used to state what was requested"]
    assumptions = ['job spec cloud == deployment CLOUD (the job schema has no cloud key)',
                   'pool worker types are ones the cloud knows (otherwise the code asserts; modelled as err)',
                   'docker jobs (the jvm-only checks of the block are outside the property)',
                   'requested sizes < 2^53 so the float expressions are exact enough']

    tables = None

    # ---- T ----------------------------------------------------------------------------------------
    def generate(self, repo):
        for k, v in _ENV.items():
            os.environ.setdefault(k, v)
        self.tables, notes = machines.generate(repo)
        return notes

    # ---- real code --------------------------------------------------------------------------------
    def setup(self, repo):
        for k, v in _ENV.items():
            os.environ.setdefault(k, v)
        loader.install(repo)
        if self.tables is None:
            self.tables = machines.read_tables(repo)
        import aiohttp.web as web
        import batch.front_end.front_end as fe
        import batch.inst_coll_config as icc
        self.web, self.fe, self.icc = web, fe, icc
        self.repo, self.mdb = repo, None
        import batch.front_end.validate as validate_mod
        from hailtop.utils.validate import ValidationError
        self.validate_and_clean_jobs, self.ValidationError = validate_mod.validate_and_clean_jobs, ValidationError
        self.block = self._resource_block(repo, fe)
        case_box = self.case_box = {}

        def fake_locations(cloud):
            return [f'l{i}' for i in range(case_box['locs'])]

        def fake_price(pool_self, resource_rates, product_versions, location, cores_mcpu, memory_bytes, storage_gib):
            return case_box['prices'][pool_self.name][int(location[1:])]

        icc.possible_cloud_locations = fake_locations
        icc.PoolConfig.price_per_hour = fake_price
        t = self.tables
        self.mem_per_core = {'gcp': {wt: v * 1024 ** 2 for (fam, wt), v in t['gcp_mem_per_core'] if fam == t['gcp_family']},
                             'azure': {wt: v * 1024 ** 2 for wt, v in t['azure_mem_per_core']}}
        self.machines = {'gcp': {m[0]: (m[3], m[4]) for m in t['gcp_machines']},
                         'azure': {m[0]: (m[2], m[3]) for m in t['azure_machines']}}
        self.valid_cores = {'gcp': dict(t['gcp_valid_cores']), 'azure': dict(t['azure_valid_cores'])}
        self.mem_to_wt = {'gcp': dict(t['gcp_memory_to_worker_type']), 'azure': dict(t['azure_memory_to_worker_type'])}
        self.max_storage = {'gcp': t['gcp_max_ssd_gib'] * GIB, 'azure': t['azure_max_ssd_gib'] * GIB}
        self.min_storage = {'gcp': t['gcp_min_storage_bytes'], 'azure': t['azure_min_storage_bytes']}
        self.defaults = {'cpu': fe.BATCH_JOB_DEFAULT_CPU, 'memory': fe.BATCH_JOB_DEFAULT_MEMORY,
                         'storage': fe.BATCH_JOB_DEFAULT_STORAGE, 'preemptible': fe.BATCH_JOB_DEFAULT_PREEMPTIBLE}

    @staticmethod
    def _resource_block(repo, fe):
        src = loader.source_of(FRONT_END, repo)
        tree = ast.parse(src)
        fn = next((n for n in ast.walk(tree) if isinstance(n, (ast.AsyncFunctionDef, ast.FunctionDef)) and n.name == '_create_jobs'), None)
        if fn is None:
            raise RuntimeError('_create_jobs not found in front_end.py')

        def is_start(s):
            return (isinstance(s, ast.Assign) and len(s.targets) == 1 and isinstance(s.targets[0], ast.Name)
                    and s.targets[0].id == 'resources' and isinstance(s.value, ast.Call))

        def is_end(s):
            if not (isinstance(s, ast.Assign) and len(s.targets) == 1 and isinstance(s.targets[0], ast.Subscript)):
                return False
            tg = s.targets[0]
            return (isinstance(tg.value, ast.Name) and tg.value.id == 'resources' and isinstance(tg.slice, ast.Constant)
                    and tg.slice.value == 'preemptible')

        for loop in ast.walk(fn):
            if not isinstance(loop, ast.For):
                continue
            body = loop.body
            i = next((k for k, s in enumerate(body) if is_start(s)), None)
            if i is None:
                continue
            j = next((k for k, s in enumerate(body) if k > i and is_end(s)), None)
            if j is None:
                continue
            stmts = body[i:j + 1]
            ret = ast.parse('return (inst_coll_name, resources)').body[0]
            fdef = ast.parse('async def _verif_resource_block(spec, app, cloud, CLOUD, id, batch_id, job_id):\n    pass').body[0]
            fdef.body = stmts + [ret]
            mod = ast.Module(body=[fdef], type_ignores=[])
            ast.fix_missing_locations(mod)
            ns = dict(fe.__dict__)
            exec(compile(mod, os.path.join(repo, FRONT_END), 'exec'), ns)
            return ns['_verif_resource_block']
        raise RuntimeError('resource block of _create_jobs not found (markers: resources = spec.get(...) … resources[\'preemptible\'] = …)')

    def _configs(self, c):
        icc = self.icc
        pools = {}
        for p in c['pools']:
            pools[p['name']] = icc.PoolConfig(
                name=p['name'], cloud=p['cloud'], worker_type=p['worker_type'], worker_cores=p['cores'],
                worker_local_ssd_data_disk=True, worker_external_ssd_data_disk_size_gb=0, standing_worker_cores=p['cores'],
                boot_disk_size_gb=10, min_instances=0, max_instances=10, max_live_instances=10, preemptible=p['preemptible'],
                max_new_instances_per_autoscaler_loop=1, autoscaler_loop_period_secs=15, worker_max_idle_time_secs=30,
                standing_worker_max_idle_time_secs=30, job_queue_scheduling_window_secs=150, label=p['label'])
        j = icc.JobPrivateInstanceManagerConfig(
            name=c['jpim']['name'], cloud=c['jpim']['cloud'], boot_disk_size_gb=10, max_instances=10, max_live_instances=10,
            max_new_instances_per_autoscaler_loop=1, autoscaler_loop_period_secs=15, worker_max_idle_time_secs=30)
        return icc.InstanceCollectionConfigs(pools, j, {}, {})

    @staticmethod
    def _resources_dict(req):
        r = {}
        if req.get('machine_type') is not None:
            r['machine_type'] = req['machine_type']
        if req.get('pool_label') is not None:
            r['pool_label'] = req['pool_label']
        if req.get('preemptible') is not None:
            r['preemptible'] = req['preemptible']
        if req.get('cpu') is not None:
            r['cpu'] = req['cpu'][1]
        if req.get('memory') is not None:
            r['memory'] = req['memory'][1] if req['memory'][0] == 'sym' else req['memory'][2]
        if req.get('storage') is not None:
            r['storage'] = req['storage'][1]
        return r

    def _job(self, c):
        """the job as the client sends it: modern or deprecated spellings (validate.py: pvc_size -> resources.storage,
        command/image -> process, gcsfuse -> cloudfuse, parent_ids -> absolute_parent_ids)"""
        r = c['req']
        sp = c.get('spelling') or {}
        job = {'job_id': 1}
        if sp.get('process') == 'deprecated':
            job['command'] = ['true']
            job['image'] = 'ubuntu'
        else:
            job['process'] = {'type': 'docker', 'image': 'ubuntu', 'command': ['true']}
            if sp.get('mount_docker_socket_false'):
                job['process']['mount_docker_socket'] = False
        resources = self._resources_dict(r)
        if resources or sp.get('resources_key') != 'absent':
            job['resources'] = resources            # an empty dict unless the case says the key is absent
        if r.get('pvc_size') is not None:
            job['pvc_size'] = r['pvc_size'][1]
        if sp.get('extras'):
            job['gcsfuse'] = [{'bucket': 'b', 'mount_path': '/b', 'read_only': True}]
            job['parent_ids'] = []
            job['always_run'] = False
        return job

    # ---- sequences on ONE InstanceCollectionConfigs object: request, reconfigure the pools + refresh(), the same request again ----
    @staticmethod
    def _steps(c):
        """the case as it stands at each step: the initial configuration, then each reconfiguration of c['then']"""
        base = {k: v for k, v in c.items() if k != 'then'}
        return [base] + [dict(base, pools=t['pools'], jpim=t['jpim']) for t in c.get('then') or []]

    def _db(self):
        if getattr(self, 'mdb', None) is None:
            import asyncio
            import random as _random
            from .. import minisql
            from ..minisql import fakepool
            self.mdb = minisql.from_repo(self.repo, _random.Random(0), lambda: 1.7e9)
            self.loop = asyncio.new_event_loop()
            self.gdb = self.loop.run_until_complete(fakepool.make_database(self.mdb))
        return self.mdb, self.gdb, self.loop

    def _write_config(self, mdb, c):
        """the inst_colls / pools tables as an operator's reconfiguration leaves them"""
        mdb.execute('DELETE FROM pools')
        mdb.execute('DELETE FROM inst_colls')
        ic = dict(boot_disk_size_gb=10, max_instances=10, max_live_instances=10, max_new_instances_per_autoscaler_loop=1,
                  autoscaler_loop_period_secs=15, worker_max_idle_time_secs=30)
        mdb.load_rows('inst_colls', [dict(name=p['name'], is_pool=1, cloud=p['cloud'], **ic) for p in c['pools']]
                      + [dict(name=c['jpim']['name'], is_pool=0, cloud=c['jpim']['cloud'], **ic)])
        mdb.load_rows('pools', [dict(name=p['name'], worker_type=p['worker_type'], worker_cores=p['cores'], worker_local_ssd_data_disk=1,
                                     worker_external_ssd_data_disk_size_gb=0, enable_standing_worker=0, standing_worker_cores=p['cores'],
                                     preemptible=1 if p['preemptible'] else 0, label=p['label'], min_instances=0,
                                     standing_worker_max_idle_time_secs=30, job_queue_scheduling_window_secs=150) for p in c['pools']])

    def impl(self, c):
        steps = self._steps(c)
        if len(steps) == 1:
            return [self._ask(c, self._configs(c))]
        # the real create() / refresh() read the configuration from the database (minisql)
        mdb, gdb, loop = self._db()
        out = []
        configs = None
        for st in steps:
            self._write_config(mdb, st)
            if configs is None:
                configs = loop.run_until_complete(self.icc.InstanceCollectionConfigs.create(gdb))
            else:
                loop.run_until_complete(configs.refresh(gdb))
            out.append(self._ask(st, configs))
        return out

    def _ask(self, c, configs):
        self.case_box['locs'] = c['locs']
        self.case_box['prices'] = {p['name']: p['prices'] for p in c['pools']}
        spec = self._job(c)
        app = {'inst_coll_configs': configs, 'feature_flags': {}}
        try:
            self.validate_and_clean_jobs([spec])       # the real schema check + rewrite of deprecated keys (mutates spec)
        except self.ValidationError:
            return 'reject invalid'
        try:
            name, res = _drive(self.block(spec, app, c['cloud'], c['cloud'], (1, 1), 1, 1))
        except self.web.HTTPBadRequest as e:
            reason = e.reason or ''
            return 'reject unsatisfiable' if 'unsatisfiable' in reason else 'reject invalid'
        except Exception as e:  # assert / ValueError / TypeError: an internal error (HTTP 500)
            return 'err'
        return f"ok {name} {res['cores_mcpu']} {res['memory_bytes']} {res['storage_gib']}"

    # ---- model line ---------------------------------------------------------------------------------
    def model_lines(self, c):
        return [self._model_line(st) for st in self._steps(c)]

    def _model_line(self, c):
        d = self.defaults
        dmem = 's=' + d['memory'] if d['memory'] in self.tables['memory_types'] else 'b%d' % size_bytes(d['memory'])
        t = [c['cloud'], '=' + c['jpim']['name'], c['jpim']['cloud'], 'D', str(cpu_mcpu(d['cpu'])), dmem, str(size_bytes(d['storage'])),
             '1' if d['preemptible'] else '0', 'L', str(c['locs']), 'P', str(len(c['pools']))]
        for p in c['pools']:
            t += ['=' + p['name'], p['cloud'], '=' + p['worker_type'], str(p['cores']), '1' if p['preemptible'] else '0', '=' + p['label']]
            t += [str(x) for x in p['prices']]
        r = c['req']

        def opt(x, f):
            return '~' if x is None else f(x)
        t += ['R', opt(r.get('machine_type'), lambda s: '=' + s), opt(r.get('pool_label'), lambda s: '=' + s),
              opt(r.get('preemptible'), lambda b: '1' if b else '0'), opt(r.get('cpu'), lambda x: str(cpu_mcpu(x[1]))),
              opt(r.get('memory'), lambda m: 's=' + m[1] if m[0] == 'sym' else 'b%d' % m[1]), opt(r.get('storage'), lambda x: str(x[0])),
              opt(r.get('pvc_size'), lambda x: str(x[0]))]
        return ' '.join(t)

    # ---- the property on the real output -------------------------------------------------------------
    def _resolved(self, c):
        """what was asked, from the case and the deployment defaults (harness arithmetic only)"""
        r = c['req']
        d = self.defaults
        cloud = c['cloud']
        label = r.get('pool_label') or ''
        pre = d['preemptible'] if r.get('preemptible') is None else r['preemptible']
        # the request is read from the submitted strings with the harness's own exact arithmetic (never through the repo's parser)
        if r.get('pvc_size') is not None:
            storage = size_exact(r['pvc_size'][1])          # the deprecated spelling of the same request
        else:
            storage = size_exact(d['storage'] if r.get('storage') is None else r['storage'][1])
        mt = r.get('machine_type')
        if mt:
            return dict(route='job-private', mt=mt, label=label, pre=pre, storage=storage)
        if mt is not None:
            return dict(route='empty-machine-type', label=label, pre=pre, storage=storage)
        # the requested cpu is read from the submitted STRING with the harness's own exact arithmetic (never the repo's parser):
        # decimal cores (or `m` = millicores) to whole millicores, fractions of a millicore dropped (the unit of cpu requests, C25)
        cores = cpu_mcpu(d['cpu'] if r.get('cpu') is None else r['cpu'][1])
        mem = r.get('memory')
        if mem is None:
            mem = ['sym', d['memory']] if d['memory'] in self.tables['memory_types'] else ['bytes', size_bytes(d['memory'])]
        wt = None
        mem_bytes = None
        if mem[0] == 'sym':
            wt = self.mem_to_wt[cloud].get(mem[1])
            if wt is not None and is_pow2_quarter(cores):
                mem_bytes = Fraction(cores * self.mem_per_core[cloud][wt], 1000)
        else:
            mem_bytes = size_exact(mem[2]) if len(mem) > 2 else Fraction(mem[1])
        return dict(route='pool', cores=cores, mem=mem_bytes, wt=wt, label=label, pre=pre, storage=storage)

    def _show(self, c):
        j = self._job(c)
        return {k: j[k] for k in ('resources', 'pvc_size') if k in j}

    def _pool_ok(self, p):
        return p['worker_type'] in self.mem_per_core.get(p['cloud'], {})

    def _worker_memory(self, p):
        """memory of the machine a worker of this pool runs on (machine table; cores x per-core when the table has no such machine)"""
        try:
            if p['cloud'] == 'gcp':
                from batch.cloud.gcp.resource_utils import family_worker_type_cores_to_gcp_machine_type
                mt = family_worker_type_cores_to_gcp_machine_type(self.tables['gcp_family'], p['worker_type'], p['cores'])
            else:
                from batch.cloud.azure.resource_utils import azure_worker_properties_to_machine_type
                mt = azure_worker_properties_to_machine_type(p['worker_type'], p['cores'], True)
            if mt in self.machines[p['cloud']]:
                return self.machines[p['cloud']][mt][1]
        except Exception:
            pass
        return p['cores'] * self.mem_per_core[p['cloud']][p['worker_type']]

    def _matching(self, c, q):
        return [p for p in c['pools'] if p['cloud'] == c['cloud'] and p['preemptible'] == q['pre'] and p['label'] == q['label']
                and (q['wt'] is None or p['worker_type'] == q['wt'])]

    def _could_hold(self, p, q):
        """is there a core count 250*2^k on this pool's workers covering cpu, memory, with storage within the cloud limit"""
        if q['storage'] > self.max_storage[p['cloud']]:
            return False
        pc = self.mem_per_core[p['cloud']][p['worker_type']]
        k = 250
        while k <= p['cores'] * 1000:
            if k >= q['cores'] and Fraction(k * pc, 1000) >= q['mem']:
                return True
            k *= 2
        return False

    def oracle(self, c, out):
        if out[0].startswith('IMPL-EXC'):
            return out[0]
        steps = self._steps(c)
        if len(out) != len(steps):
            return f'{len(out)} answers for {len(steps)} requests'
        for k, (st, o) in enumerate(zip(steps, out)):
            # every answer is judged against the configuration in force when the request was made
            m = self._oracle_step(st, o)
            if m:
                if k:
                    m = (f'after reconfiguration {k} + refresh() (pools now '
                         f'{[(p["name"], p["worker_type"], p["cores"], p["preemptible"], p["label"]) for p in st["pools"]]}): ') + m
                return m
        return None

    def _oracle_step(self, c, o):
        cloud = c['cloud']
        r = c['req']
        q = self._resolved(c)
        malformed = [p['name'] for p in c['pools'] if not self._pool_ok(p)]
        if o == 'err':
            if malformed:
                return None   # outside the assumption "pool worker types are known to their cloud"
            return f'request {self._show(c)} (accepted by the job schema) ends in an internal error instead of a placement or a rejection'
        mt = r.get('machine_type')
        really_invalid = False
        if mt is not None:
            # a named machine type must be one of the cloud's (the empty string is not), and excludes cpu / memory / pool label
            really_invalid = (mt not in self.machines[cloud] or r.get('cpu') is not None or r.get('memory') is not None or bool(q['label']))
        else:
            really_invalid = not is_pow2_quarter(q['cores'])
        if r.get('pvc_size') is not None and r.get('storage') is not None:
            really_invalid = True        # storage given twice (deprecated and current key)
        if o == 'reject invalid':
            return None if really_invalid else f'well-formed request {self._show(c)} rejected as malformed'
        if really_invalid:
            return f'malformed request {self._show(c)} was not rejected as malformed: {o}'
        if o == 'reject unsatisfiable':
            if q['route'] == 'job-private':
                if c['jpim']['cloud'] == cloud and q['storage'] <= self.max_storage[cloud]:
                    return (f"machine type {q['mt']} with {q['storage']} bytes of storage rejected as unsatisfiable although the job-private "
                            f"manager of cloud {cloud} can hold it")
                return None
            for p in self._matching(c, q):
                if self._pool_ok(p) and self._could_hold(p, q):
                    return (f"rejected as unsatisfiable although pool {p['name']} ({p['worker_type']}, {p['cores']} cores) can hold "
                            f"cpu={q['cores']}m memory={q['mem']} storage={q['storage']}")
            return None
        m = re.fullmatch(r'ok (\S+) (-?\d+) (-?\d+) (-?\d+)', o)
        if not m:
            return f'unreadable answer {o!r}'
        name, cores, mem, sgib = m.group(1), int(m.group(2)), int(m.group(3)), int(m.group(4))
        if sgib * GIB < q['storage']:
            return f'granted storage {sgib} GiB is less than the requested {float(q["storage"]):.3f} bytes (job {self._show(c)})'
        if sgib * GIB > self.max_storage[cloud]:
            return f'granted storage {sgib} GiB exceeds the largest disk of cloud {cloud}'
        if q['route'] == 'job-private':
            if name != c['jpim']['name'] or c['jpim']['cloud'] != cloud:
                return f'machine type request placed in {name}, which is not the job-private manager of cloud {cloud}'
            mc, mm = self.machines[cloud][q['mt']]
            if cores != mc * 1000 or mem != mm:
                return f'machine type {q["mt"]} has {mc} cores / {mm} bytes but the job is granted {cores} mcpu / {mem} bytes'
            if sgib * GIB < self.min_storage[cloud]:
                return f'job-private storage {sgib} GiB is below the minimum disk size'
            return None
        cands = [p for p in self._matching(c, q) if p['name'] == name]
        if not cands:
            return (f'placed in {name}, which is not a configured pool matching cloud={cloud} preemptible={q["pre"]} '
                    f'label={q["label"]!r} worker_type={q["wt"]}')
        p = cands[0]
        if cores < q['cores']:
            return f'granted {cores} mcpu < requested {q["cores"]} mcpu'
        if mem < q['mem']:
            return f'granted memory {mem} bytes < requested {float(q["mem"]):.3f} bytes (job {self._show(c)}, pool {name}, {cores} mcpu)'
        if cores > p['cores'] * 1000:
            return f'granted {cores} mcpu does not fit a worker of pool {name} ({p["cores"]} cores)'
        if self._pool_ok(p) and mem > self._worker_memory(p):
            return f'granted memory {mem} does not fit a worker of pool {name} ({self._worker_memory(p)} bytes)'
        return None

    # ---- generation -----------------------------------------------------------------------------------
    @staticmethod
    def _size_string(rng, b):
        """a string the job schema accepts whose value (rounded up) is b bytes"""
        forms = [str(b), f'{b}B']
        for suf in ('Ki', 'Mi', 'Gi', 'Ti', 'K', 'M', 'G'):
            f = CONV[suf]
            if b % f == 0:
                forms.append(f'{b // f}{suf}')
            elif (b * 100) % f == 0 and suf in ('Gi', 'Mi', 'G'):
                forms.append(f'{Decimal(b * 100 // f) / Decimal(100)}{suf}')
        s = rng.choice(forms)
        if 'E' in s or not _SIZE.fullmatch(s) or size_bytes(s) != b:
            s = str(b)
        return s

    @staticmethod
    def _cpu_string(rng, m):
        forms = [f'{m}m']
        if m % 1000 == 0:
            forms.append(str(m // 1000))
        forms.append(str(Decimal(m) / Decimal(1000)))
        s = rng.choice(forms)
        if 'E' in s or not _CPU.fullmatch(s) or cpu_mcpu(s) != m:
            s = f'{m}m'
        return s

    def _pool(self, rng, i, cloud):
        pc = cloud if rng.random() < 0.9 else ('azure' if cloud == 'gcp' else 'gcp')
        wt = rng.choice(list(self.valid_cores[pc].keys()))
        cores = rng.choice(self.valid_cores[pc][wt])
        if rng.random() < 0.01:
            wt = 'bogus'
        return {'name': f'p{i}', 'cloud': pc, 'worker_type': wt, 'cores': cores, 'preemptible': rng.random() < 0.8,
                'label': rng.choice(['', '', '', '', '', '', 'gpu', 'x']), 'prices': []}

    def cases(self, rng, n, tier):
        for _ in range(n):
            cloud = rng.choice(['gcp', 'azure'])
            other = 'azure' if cloud == 'gcp' else 'gcp'
            locs = 0 if rng.random() < 0.03 else rng.choice([1, 1, 2, 3])
            pools = [self._pool(rng, i, cloud) for i in range(rng.choice([0, 1, 2, 2, 3, 3, 4, 5]))]
            for p in pools:
                p['prices'] = [rng.choice([1, 2, 2, 3, 5, 8, 100]) for _ in range(locs)]
            jpim = {'name': 'job-private', 'cloud': cloud if rng.random() < 0.9 else other}
            req = {}
            mode = rng.random()
            storage_choices = [0, 0, 1, 10 * GIB - 1, 10 * GIB, 10 * GIB + 1, 375 * GIB, rng.randint(0, 2 ** 40), rng.randint(0, 100) * GIB,
                               rng.randint(0, 2 ** 36), rng.randint(1, 100) * GIB + rng.choice([-1, 1]),
                               rng.choice([self.max_storage[cloud] - 1, self.max_storage[cloud], self.max_storage[cloud] + 1,
                                           self.max_storage[other]])]
            if rng.random() < 0.75:
                b = rng.choice(storage_choices)
                req['storage'] = [b, self._size_string(rng, b)]
            if rng.random() < 0.4:
                req['preemptible'] = rng.random() < 0.65
            if rng.random() < 0.25:
                req['pool_label'] = rng.choice(['', 'gpu', 'x', 'nope'] + [p['label'] for p in pools] * 2)
            if mode < 0.2:
                t = rng.random()
                if t < 0.75:
                    req['machine_type'] = rng.choice(list(self.machines[cloud].keys()))
                elif t < 0.95:
                    req['machine_type'] = rng.choice(list(self.machines[other].keys()) + ['n1-standard-3', 'bogus'])
                else:
                    req['machine_type'] = ''
                if rng.random() < 0.7:
                    req.pop('pool_label', None)
                if rng.random() < 0.15:
                    req['cpu'] = [1000, '1']
                if rng.random() < 0.1:
                    req['memory'] = ['sym', 'standard']
            else:
                # cpu
                if rng.random() < 0.85:
                    m = 250 * 2 ** rng.choice([0, 0, 1, 2, 2, 2, 3, 3, 4, 5, 6, 7, 8, 9])
                    if rng.random() < 0.08:
                        m = rng.choice([0, 1, 100, 300, 750, 1500, 3000, 5000, 96000, 250 * 2 ** 20])
                    req['cpu'] = [m, self._cpu_string(rng, m)]
                    if rng.random() < 0.15:
                        # decimal core strings just above a packable size: k + 0.001 cores (one millicore more: not a power of two, must
                        # be refused), k + 1e-9 (less than a millicore more), k + 0.0010000001, k - 0.001
                        base = 250 * 2 ** rng.choice([0, 1, 2, 2, 3, 3, 4, 5, 5, 6])
                        cores_s = str(Decimal(base) / Decimal(1000))
                        if '.' not in cores_s:
                            cores_s += '.'
                        whole, frac = cores_s.split('.')
                        frac3 = frac.ljust(3, '0')
                        st = rng.choice([
                            str(Decimal(base + 1) / Decimal(1000)),                     # 8.001
                            str(Decimal(base + 1) / Decimal(1000)) + '0000001',         # 8.0010000001
                            f'{whole}.{frac3}000001',                                   # 8.000000001
                            f'{whole}.{frac3}9999999',                                  # 8.0009999999
                            str(Decimal(base - 1) / Decimal(1000)),                     # 7.999
                            str(Decimal(2 * base + 1) / Decimal(1000)),
                        ])
                        if _CPU.fullmatch(st) and 'E' not in st:
                            req['cpu'] = [cpu_mcpu(st), st]
                cores = cpu_mcpu(req['cpu'][1]) if 'cpu' in req else cpu_mcpu(self.defaults['cpu'])
                if mode < 0.45:
                    if rng.random() < 0.85:
                        req['memory'] = ['sym', rng.choice(self.tables['memory_types'])]
                else:
                    # boundary-directed memory: just below / at / above what k mcpu of some worker type give
                    wt = rng.choice(list(self.mem_per_core[cloud].keys()))
                    pc = self.mem_per_core[cloud][wt]
                    t = rng.random()
                    if t < 0.45:
                        k = 250 * 2 ** rng.randrange(0, 9)
                    elif t < 0.7:
                        k = rng.choice([cores, 2 * cores, rng.randint(1, 100000), rng.choice([300, 999, 1001, 1999, 2001, 3000, 64001])])
                    else:
                        k = rng.randint(1, 2 ** rng.choice([8, 12, 14, 17]))
                    b = max(0, -(-k * pc // 1000) + rng.choice([-1, 0, 0, 1]))
                    if rng.random() < 0.1:
                        b = rng.choice([0, 1, rng.randint(0, 2 ** 36), 2 ** 50])
                    req['memory'] = ['bytes', b, self._size_string(rng, b)]
                    if rng.random() < 0.3:
                        # not a whole number of bytes, a fraction of a byte above a per-core memory step (3.7500000001Gi, 6.5000000001Gi ...)
                        kk = 250 * 2 ** rng.randrange(0, 8) if rng.random() < 0.7 else k
                        b0 = kk * pc // 1000
                        st = just_above(b0, rng.choice(['Gi', 'Gi', 'Mi', 'G']))
                        if st is not None:
                            req['memory'] = ['bytes', b0 + 1, st]
            if 'storage' in req and rng.random() < 0.15:
                b0 = rng.choice([10 * GIB, 10 * GIB, rng.randint(1, 400) * GIB, 375 * GIB])     # a fraction of a byte above the 10 GiB floor / a GiB step
                st = just_above(b0, rng.choice(['Gi', 'Gi', 'Mi', 'Ti']))
                if st is not None:
                    req['storage'] = [b0 + 1, st]
            spelling = {}
            if rng.random() < 0.3:
                # the deprecated storage key, alone (no / empty resources) or next to modern keys, rarely next to resources.storage
                if 'storage' in req and rng.random() < 0.9:
                    req['pvc_size'] = req.pop('storage')
                else:
                    b = rng.choice([1, 10 * GIB, 50 * GIB, rng.randint(1, 400) * GIB])
                    req['pvc_size'] = [b, self._size_string(rng, b)]
                if rng.random() < 0.5:
                    for k in ('cpu', 'memory', 'preemptible', 'pool_label', 'machine_type'):
                        req.pop(k, None)
            if not [k for k in req if k != 'pvc_size']:
                spelling['resources_key'] = rng.choice(['absent', 'empty'])
            if rng.random() < 0.3:
                spelling['process'] = 'deprecated'
            elif rng.random() < 0.2:
                spelling['mount_docker_socket_false'] = True
            if rng.random() < 0.2:
                spelling['extras'] = True
            case = {'cloud': cloud, 'jpim': jpim, 'locs': locs, 'pools': pools, 'req': req, 'spelling': spelling}
            if pools and rng.random() < 0.15 and all(self._pool_ok(p) for p in pools):
                # an operator reconfigures the pools (worker cores / type / preemptibility / label, pools added or dropped, the job-private
                # manager moved) and the front end refresh()es: the same request is asked again of the same object
                then, cur, curj = [], pools, jpim
                for _ in range(rng.choice([1, 1, 2])):
                    cur = [dict(p) for p in cur]
                    curj = dict(curj)
                    for p in cur:
                        t = rng.random()
                        if t < 0.45:
                            p['cores'] = rng.choice(self.valid_cores[p['cloud']][p['worker_type']])
                        elif t < 0.55:
                            p['worker_type'] = rng.choice(list(self.valid_cores[p['cloud']].keys()))
                            p['cores'] = rng.choice(self.valid_cores[p['cloud']][p['worker_type']])
                        elif t < 0.65:
                            p['preemptible'] = not p['preemptible']
                        elif t < 0.72:
                            p['label'] = rng.choice(['', 'gpu', 'x'])
                    if len(cur) > 1 and rng.random() < 0.15:
                        cur.pop(rng.randrange(len(cur)))
                    if rng.random() < 0.1:
                        curj['cloud'] = other if curj['cloud'] == cloud else cloud
                    then.append({'pools': cur, 'jpim': curj})
                case['then'] = then
            yield case

    def classify(self, c, out):
        key, tags = self._classify_step(self._steps(c)[0], out[0])
        if c.get('then'):
            tags.append(f'reconfigurations={len(c["then"])}')
            tags.append('answer-changes-after-reconfiguration' if len(set(out)) > 1 else 'answer-same-after-reconfiguration')
            key = json.dumps(c, sort_keys=True)
        return key, tags

    def _classify_step(self, c, o):
        q = self._resolved(c)
        kind = o.split(' ')[0] if o.startswith('ok') else o
        tags = [f"cloud={c['cloud']}", f'answer={kind}']
        route = q['route']
        if route == 'pool':
            route = 'worker-type' if q['wt'] is not None else 'cheapest-pool'
        tags.append(f'route={route}')
        nontrivial = False
        if q['route'] == 'pool' and q.get('mem') is not None:
            match = self._matching(c, q)
            feas = [p for p in match if self._pool_ok(p) and self._could_hold(p, q)]
            tags.append(f'matching-pools={min(len(match), 3)}')
            tags.append(f'feasible-pools={min(len(feas), 3)}')
            if o.startswith('ok'):
                cores = int(o.split(' ')[2])
                tags.append('cores-raised-for-memory-or-packing' if cores > q['cores'] else 'cores-as-requested')
                nontrivial = True
            elif o == 'reject unsatisfiable' and match:
                nontrivial = True
        elif q['route'] == 'job-private' and (o.startswith('ok') or o == 'reject unsatisfiable'):
            nontrivial = True
        cp = c['req'].get('cpu')
        if cp and '.' in cp[1] and not is_pow2_quarter(cpu_mcpu(cp[1])):
            tags.append('cpu-decimal-string-not-a-packable-size')
        if cp and (Fraction(_CPU.fullmatch(cp[1]).group(1)) * (1 if cp[1].endswith('m') else 1000)).denominator != 1:
            tags.append('cpu-not-a-whole-number-of-millicores')
        for key in ('memory', 'storage', 'pvc_size'):
            v = c['req'].get(key)
            if v and v[0] != 'sym' and isinstance(v[-1], str) and size_exact(v[-1]).denominator != 1:
                tags.append(f'{key}-not-a-whole-number-of-bytes')
        if c['req'].get('pvc_size') is not None:
            tags.append('storage-as-pvc_size:' + ((c.get('spelling') or {}).get('resources_key') or 'with-resources'))
        if (c.get('spelling') or {}).get('process') == 'deprecated':
            tags.append('process-as-command/image')
        if c['req'].get('memory') and c['req']['memory'][0] == 'bytes':
            tags.append('memory=bytes')
        elif q['route'] == 'pool':
            tags.append('memory=symbolic-or-default')
        return (json.dumps(c, sort_keys=True) if nontrivial else None, tags)

    def finding_key(self, c, msg):
        r = c['req']
        return json.dumps({'cloud': c['cloud'], 'req': r, 'pools': c['pools'], 'jpim': c['jpim'], 'spelling': c.get('spelling'), 'then': c.get('then')}, sort_keys=True)

    def shrink(self, c, fails):
        cur = json.loads(json.dumps(c))
        if not fails(cur):
            return c

        def attempt(cand):
            nonlocal cur
            if fails(cand):
                cur = cand
                return True
            return False
        changed = True
        while changed:
            changed = False
            for i in range(len(cur.get('then') or [])):
                cand = json.loads(json.dumps(cur))
                del cand['then'][i]
                if attempt(cand):
                    changed = True
                    break
            if changed:
                continue
            for i in range(len(cur['pools'])):
                cand = json.loads(json.dumps(cur))
                del cand['pools'][i]
                if attempt(cand):
                    changed = True
                    break
            if changed:
                continue
            for k in list(cur['req'].keys()):
                cand = json.loads(json.dumps(cur))
                del cand['req'][k]
                if attempt(cand):
                    changed = True
                    break
            if changed:
                continue
            sp = cur.get('spelling') or {}
            for k in ('extras', 'process', 'mount_docker_socket_false'):
                if k in sp:
                    cand = json.loads(json.dumps(cur))
                    del cand['spelling'][k]
                    if attempt(cand):
                        changed = True
                        break
            if changed:
                continue
            if cur['locs'] > 1:
                cand = json.loads(json.dumps(cur))
                cand['locs'] = 1
                for p in cand['pools']:
                    p['prices'] = p['prices'][:1]
                if attempt(cand):
                    changed = True
                    continue
            mem = cur['req'].get('memory')
            if mem and mem[0] == 'bytes' and mem[2] != str(mem[1]):
                cand = json.loads(json.dumps(cur))
                cand['req']['memory'] = ['bytes', mem[1], str(mem[1])]
                if attempt(cand):
                    changed = True
        return cur


PROP = C12()

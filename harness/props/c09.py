"""C09 Submission is idempotent under client retries — E1 family: the real code over minisql vs the Lean model BatchDB, oracle `oracles.c09`."""
from ..batchdb.prop import E1Prop


class C09(E1Prop):
    id = 'C09'
    title = 'Submission is idempotent under client retries'
    design_ref = 'DESIGN.md §4 C09 (Engine E1)'
    oracle_name = 'c09'
    adversarial_share = 0.3
    nontrivial_tags = ['resent:insertJobs', 'resent:createUpdate', 'resent:commit', 'resent:insertGroups', 'resent:createBatch']
    level_text = 'Lean: Props/C09.lean. Oracle after every op: a re-sent createBatch / createUpdate / insertGroups / insertJobs / commit that was accepted before changes no table and (create*) answers the same id; update job-id and group-id ranges are contiguous, disjoint and in update order; staged job counts equal the job rows of the update; batches.n_jobs = sum of committed updates.'
    level_note = ('Partial: the server is harness/minisql (semantics list in trusted_base), every transaction is one atomic step, histories are generated '
                  '(not exhaustive); the Lean model is tied to the code only as far as the compared answers and dumps show. '
                  'Known findings of the unchanged tree are listed in known_findings.json and printed as KNOWN-FINDING.')

    def nontrivial(self, r):
        return any(t in r.tags for t in self.nontrivial_tags)


PROP = C09()

"""C09 Submission is idempotent under client retries — E1 family: the real code over minisql vs the Lean model BatchDB, oracle `oracles.c09`;
a quarter of the cases drive the real aioclient against the real handlers with re-delivered requests (harness/batchdb/client.py)."""
import json

from ..batchdb.prop import E1Prop, RunResult


class C09(E1Prop):
    id = 'C09'
    title = 'Submission is idempotent under client retries'
    design_ref = 'DESIGN.md §4 C09 (Engine E1)'
    oracle_name = 'c09'
    adversarial_share = 0.3
    client_share = 0.35
    nontrivial_tags = ['resent:insertJobs', 'resent:createUpdate', 'resent:commit', 'resent:insertGroups', 'resent:createBatch']
    level_text = ('Lean: Props/C09.lean. Oracle after every op: a re-sent createBatch / createUpdate / insertGroups / insertJobs / commit that was accepted '
                  'before changes no table and (create*) gets the same answer; update job-id and group-id ranges are contiguous, disjoint and in update '
                  'order; staged job counts equal the job rows of the update; batches.n_jobs = sum of committed updates; createUpdate answers (update id, '
                  'first job id, first group id) equal to the update row, on the first send and on every re-send (client_ids_agree). A quarter of the '
                  'cases drive the REAL hailtop.batch_client.aioclient.Batch against the REAL front-end handlers with requests delivered twice: no '
                  'duplicate batch / update / job, counts not doubled, same answers, client-computed job and group ids = server ids, dependencies and '
                  'groups as declared.')
    level_note = ('Partial: the server is harness/minisql (semantics list in trusted_base), every transaction is one atomic step, histories are generated '
                  '(not exhaustive); the Lean model is tied to the code only as far as the compared answers and dumps show. '
                  'Known findings of the unchanged tree are listed in known_findings.json and printed as KNOWN-FINDING.')
    extra_trusted = ['harness/aloop.py VLoop virtual clock for the retry back-off of gear.database in the real-client cases; '
                     'harness/minisql/fakepool.py ambiguous commit = the commit takes effect, then error 2013 is raised to the service',
                     'harness/batchdb/client.py: transport between the real hailtop.batch_client.aioclient and the real (undecorated) front-end '
                     'handlers that delivers marked requests twice; auth decorators and HTTP framing are bypassed']

    def nontrivial(self, r):
        return any(t in r.tags for t in self.nontrivial_tags) or any(t.startswith('redelivered:') for t in r.tags)

    # 'client' cases: the REAL aioclient.Batch submits through the REAL handlers, marked requests are delivered twice
    def cases(self, rng, n, tier):
        from ..batchdb import client
        for c in super().cases(rng, n, tier):
            if rng.random() < self.client_share:
                yield client.gen_client_case(rng)
            else:
                yield c

    @staticmethod
    def key(c):
        return json.dumps([c.get('subs'), c.get('dup'), c.get('ambig')]) if c.get('kind') == 'client' else json.dumps(c['ops'])

    def run_case(self, c):
        if c.get('kind') != 'client':
            return super().run_case(c)
        from ..batchdb import client
        res = RunResult()
        res.lines.append('ok')
        f, tags = client.run_client_case(getattr(self, 'repo', None), c)
        res.tags = ['kind:client'] + tags
        if f is not None:
            res.failure = (0, f[0], f[1])
        return res

    def oracle(self, c, out):
        if c.get('kind') != 'client':
            return super().oracle(c, out)
        if out and out[0].startswith('IMPL-EXC'):
            return out[0]
        r = self._get(c)
        return None if r.failure is None else f'[{r.failure[1]}] real client, requests re-delivered per dup={c["dup"]}, ambiguous commits per ambig={c.get("ambig")}: {r.failure[2]}'

    def classify(self, c, out):
        if c.get('kind') != 'client':
            return super().classify(c, out)
        r = self._get(c)
        return (self.key(c) if self.nontrivial(r) else None, sorted(set(r.tags)))

    def shrink(self, c, fails):
        if c.get('kind') != 'client':
            return super().shrink(c, fails)
        cur = dict(c)
        if cur.get('ambig') and fails({k: v for k, v in cur.items() if k != 'ambig'}):
            cur.pop('ambig')
        elif cur.get('ambig'):
            for k in (1, 2, 3):
                if cur['ambig'] != [k] and fails({**cur, 'ambig': [k]}):
                    cur['ambig'] = [k]
                    break
        if cur['dup'] != [0] and fails({**cur, 'dup': [0]}):
            cur['dup'] = [0]
        elif cur['dup'] not in ([0], [1]) and fails({**cur, 'dup': [1]}):
            cur['dup'] = [1]
        changed = True
        while changed:
            changed = False
            for i in range(len(cur['subs']) - 1, -1, -1):
                sub = cur['subs'][i]
                cands = []
                if i == len(cur['subs']) - 1 and len(cur['subs']) > 1:
                    cands.append(cur['subs'][:-1])
                if sub['jobs'] and (len(sub['jobs']) > 1 or sub['groups']):
                    cands.append(cur['subs'][:i] + [{**sub, 'jobs': sub['jobs'][:-1]}] + cur['subs'][i + 1:])
                if sub['groups'] and (sub['groups'] > 1 or sub['jobs']):
                    cands.append(cur['subs'][:i] + [{**sub, 'groups': sub['groups'] - 1}] + cur['subs'][i + 1:])
                if any(p for _, p in sub['jobs']):
                    cands.append(cur['subs'][:i] + [{**sub, 'jobs': [[g, []] for g, _ in sub['jobs']]}] + cur['subs'][i + 1:])
                for subs in cands:
                    if fails({**cur, 'subs': subs}):
                        cur['subs'] = subs
                        changed = True
                        break
                if changed:
                    break
        return cur


PROP = C09()

"""C08 Accepted job graphs can always finish — E1 family: the real code over minisql vs the Lean model BatchDB, oracle `oracles.c08`."""
from ..batchdb.prop import E1Prop


class C08(E1Prop):
    id = 'C08'
    title = 'Accepted job graphs can always finish'
    design_ref = 'DESIGN.md §4 C08 (Engine E1)'
    oracle_name = 'c08'
    adversarial_share = 0.7
    nontrivial_tags = ['bunch-accepted']
    level_text = ('Lean (Props/C08.lean, after repo fix 604e365e7 = guard specIdsOk in the model): ill_formed_ids_rejected (a bunch with a self / later / '
                  'non-positive / not-earlier parent id or a job id outside [1, n_jobs] is answered with an error and changes nothing, in any state), '
                  'rejected_unchanged, witnesses_rejected + witnesses_leave_nothing (the four formerly accepted bunches), accepted_ids_ok / accepted_parent_ids '
                  '(every reachable state: each job row lies in the id range of its own update, each job_parents row names a positive, strictly smaller id inside '
                  'a range reserved by an update of the batch), parents_wellFounded (dependency relation acyclic), no_jobs_in_empty_update; the EXISTENCE of the '
                  'parent row remains refuted at full strength (orphan_parent_accepted, accepted_parents_precede_fails, ill_formed_rejected_fails: child update '
                  'committed while the earlier update holding the parent was never inserted) and proved under HistWF (accepted_parents_precede_partial). '
                  'Oracle on the real _create_jobs: every accepted job row has its id inside the reserved range of its update and only parents with smaller, '
                  'reserved ids; a parent row may be absent only when it belongs to another bunch of the SAME update; a rejected submission changes no table; '
                  'at the end of a history no committed job is Pending without a live parent. Inputs: the adversarial stream (missing / later / self / zero / '
                  'own-id / previous-id parents, ids outside and just above the range, duplicate parents, unknown groups, empty updates, parent in an '
                  'un-inserted earlier update) + client-shaped histories.')
    level_note = ('Partial: the server is harness/minisql (semantics list in trusted_base), every transaction is one atomic step, histories are generated '
                  '(not exhaustive); the Lean model is tied to the code only as far as the compared answers and dumps show. '
                  'Known findings of the unchanged tree are listed in known_findings.json and printed as KNOWN-FINDING.')

    def nontrivial(self, r):
        return any(t in r.tags for t in self.nontrivial_tags)


    def cases(self, rng, n, tier):
        from ..batchdb import gen
        for c in super().cases(rng, n, tier):
            # a share of well-formed two-update histories in which the later update is committed while its parents are Ready / Creating
            # (job-private) / Running / done, and which then run to the end
            yield gen.commit_while_parent_busy(rng) if rng.random() < 0.15 else c


PROP = C08()

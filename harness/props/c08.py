"""C08 Accepted job graphs can always finish — E1 family: the real code over minisql vs the Lean model BatchDB, oracle `oracles.c08`."""
from ..batchdb.prop import E1Prop


class C08(E1Prop):
    id = 'C08'
    title = 'Accepted job graphs can always finish'
    design_ref = 'DESIGN.md §4 C08 (Engine E1)'
    oracle_name = 'c08'
    adversarial_share = 0.7
    nontrivial_tags = ['bunch-accepted']
    level_text = 'Oracle: every job row accepted by the real _create_jobs has all parents existing, with smaller ids, and its id inside the reserved range of its update; a rejected submission changes no table; at the end of a history no committed job is Pending without a live parent. Inputs: the adversarial stream (missing / later / self parents, ids outside the range, duplicate parents, unknown groups, empty updates) + client-shaped histories.'
    level_note = ('Partial: the server is harness/minisql (semantics list in trusted_base), every transaction is one atomic step, histories are generated '
                  '(not exhaustive); the Lean model is tied to the code only as far as the compared answers and dumps show. '
                  'Known findings of the unchanged tree are listed in known_findings.json and printed as KNOWN-FINDING.')

    def nontrivial(self, r):
        return any(t in r.tags for t in self.nontrivial_tags)


PROP = C08()

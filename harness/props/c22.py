"""C22 Copy tool reproduces sources exactly.

Real code driven: `Copier.copy` (hailtop/aiotools/fs/copier.py) over the real `RouterAsyncFS` -> `LocalAsyncFS` in a
`tempfile.mkdtemp()` scratch directory, `LocalAsyncFS.copy_part_size` patched to 3..7 bytes and `Copier.BUFFER_SIZE` to 2..4.
The local FS's thread pool is an inline executor and every FS / stream coroutine first waits on a harness gate; the gates are
opened in a seeded random order under `aloop.Sched`, so the interleaving of the copier's concurrent tasks is scripted per case.
Model: HailVerif.Copy (partPlan, copySpec).
"""
import asyncio
import contextvars
import errno
import importlib.util
import json
import os
import random
import shutil
import tempfile

from .. import aloop, loader
from ..framework import MachineryError, Prop
from .c23 import InlineExecutor

IN_RETRY = contextvars.ContextVar('verif_c22_in_retry', default=False)
FAULT_KINDS = ['open', 'open_from', 'create', 'create_part', 'read', 'readexactly', 'write', 'close', 'listfiles', 'listing_next',
               'entry_status']
FAULT_EXCS = ['etimedout', 'timeout', 'ehostunreach']


def make_fault(name):
    """errors `hailtop.utils.is_transient_error` classifies as retryable"""
    if name == 'timeout':
        return asyncio.TimeoutError()
    code = errno.ETIMEDOUT if name == 'etimedout' else errno.EHOSTUNREACH
    return OSError(code, os.strerror(code))


DOCUMENTED = {'FileNotFoundError', 'IsADirectoryError', 'NotADirectoryError', 'FileAndDirectoryError'}


def content(tok):
    i, n = tok
    return bytes(((i * 31 + k * 7 + 1) % 251) for k in range(n))


def norm_tok(tok):
    return [0, 0] if tok[1] == 0 else list(tok)


def hx(s):
    return s.encode().hex() if s else '-'


def unhx(h):
    return '' if h == '-' else bytes.fromhex(h).decode()


SPECIAL = '#?;'


def comps(p):
    return [c for c in p.split('/') if c]


# ------------------------------------------------------------------------------------------------------------------
# The documented destination rules, written independently of the Lean model: this is what the oracle checks against.
# (validated in setup() against the repo's own table test/hailtop/inter_cloud/copy_test_specs.py: 324 configurations)


class RefFS:
    def __init__(self, files, dirs):
        self.files = {tuple(comps(p)): t for p, t in files.items()}
        self.dirs = {()} | {tuple(comps(d)) for d in dirs}
        for p in list(self.files) + list(self.dirs):
            for k in range(1, len(p)):
                self.dirs.add(p[:k])

    def kind(self, p):
        p = tuple(p)
        if p in self.files:
            return 'file'
        if p in self.dirs:
            return 'dir'
        return None

    def under(self, p):
        p = tuple(p)
        return sorted((q[len(p):], q) for q in self.files if len(q) > len(p) and q[:len(p)] == p)


def ref_transfer(fs: RefFS, x):
    """-> (writes [(destpath, srcpath)], errors set, probes set of paths whose kind the transfer inspects)"""
    mode = x['mode']
    single = isinstance(x['src'], str)
    srcs = [x['src']] if single else list(x['src'])
    dest = x['dest']
    if mode == 'infer_dest' and dest.endswith('/'):
        mode = 'dest_dir'
    if mode == 'dest_is_target' and not single:
        return [], {'NotADirectoryError'}, set()
    dpath = tuple(comps(dest))
    writes, errors, probes = [], set(), set()
    for s in srcs:
        sp = tuple(comps(s))
        kind = fs.kind(sp)
        if kind is None or (kind == 'file' and s.endswith('/')):
            errors.add('FileNotFoundError')                                  # missing source
            continue
        if mode == 'dest_dir':
            into = True
        elif mode == 'infer_dest':
            if single:
                probes.add(dpath)
                if any(fs.kind(dpath[:k]) == 'file' for k in range(1, len(dpath))):
                    errors.add('NotADirectoryError')                         # a file is in the way of the destination itself
                    continue
                into = fs.kind(dpath) == 'dir'
            else:
                into = True
        else:
            into = False
        target = dpath + (sp[-1],) if into else dpath
        if kind == 'file':
            if not into and mode == 'dest_is_target' and dest.endswith('/'):
                errors.add('IsADirectoryError')                              # file onto (declared) directory
                continue
            pairs = [(target, sp)]
        else:
            if not into and mode == 'infer_dest' and fs.kind(dpath) == 'file':
                errors.add('NotADirectoryError')                             # directory onto file
                continue
            pairs = [(target + rel, q) for rel, q in fs.under(sp)]
        for d, q in pairs:
            if any(fs.kind(d[:k]) == 'file' for k in range(1, len(d))):
                errors.add('NotADirectoryError')                             # directory onto file (a file is in the way)
            elif fs.kind(d) == 'dir' or len(d) == 0:
                errors.add('IsADirectoryError')                              # file onto directory
            else:
                writes.append((d, q))
    return writes, errors, probes


def ref_copy(files, dirs, xfers):
    """-> ('ok', {dest: src}) | ('err', kinds) | ('conflict', why)"""
    fs = RefFS(files, dirs)
    all_writes, errors = [], set()
    per = []
    for x in xfers:
        w, e, probes = ref_transfer(fs, x)
        per.append((w, probes))
        all_writes += w
        errors |= e
    dests = [d for d, _ in all_writes]
    srcs = {q for _, q in all_writes}
    if len(set(dests)) != len(dests):
        return ('conflict', 'two copies write the same destination')
    dset = set(dests)
    for d in dests:
        if any(d[:k] in dset for k in range(1, len(d))):
            return ('conflict', 'a destination is an ancestor of another destination')
        if d in srcs or any(d[:k] in srcs for k in range(1, len(d))) or any(q[:len(d)] == d for q in srcs):
            return ('conflict', 'a destination overlaps a source')
    for i, (_, probes) in enumerate(per):
        for j, (w, _) in enumerate(per):
            if i != j and any(d[:len(p)] == p for d, _ in w for p in probes):
                return ('conflict', "a transfer writes below another transfer's inferred destination")
    # a source tree must not be written into
    for x in xfers:
        for s in ([x['src']] if isinstance(x['src'], str) else x['src']):
            sp = tuple(comps(s))
            if any(d[:len(sp)] == sp for d in dests):
                return ('conflict', 'a destination lies inside a source')
    if errors:
        return ('err', errors)
    return ('ok', dict(all_writes))


# ------------------------------------------------------------------------------------------------------------------


def make_gated_fs(LocalAsyncFS, pool, gate0, rec, fault=lambda kind: None):
    async def gate(kind):
        await gate0(kind)
        fault(kind)          # a transient fault fires *instead of* the operation, after the task was scheduled

    class GatedReadable:
        def __init__(self, inner):
            self._i = inner

        async def read(self, n=-1):
            await gate('read')
            return await self._i.read(n)

        async def readexactly(self, n):
            await gate('readexactly')
            return await self._i.readexactly(n)

        async def __aenter__(self):
            return self

        async def __aexit__(self, *a):
            await self._i.wait_closed()

        def __getattr__(self, k):
            return getattr(self._i, k)

    class GatedWritable:
        def __init__(self, inner):
            self._i = inner

        async def write(self, b):
            await gate('write')
            return await self._i.write(b)

        async def __aenter__(self):
            return self

        async def __aexit__(self, *a):
            try:
                await gate('close')
            finally:
                await self._i.wait_closed()

        def __getattr__(self, k):
            return getattr(self._i, k)

    class GatedMPC:
        def __init__(self, inner):
            self._i = inner

        async def create_part(self, number, start, size_hint=None):
            await gate('create_part')
            rec.append(('part', number, start, size_hint))
            return GatedWritable(await self._i.create_part(number, start, size_hint=size_hint))

        async def __aenter__(self):
            await self._i.__aenter__()
            return self

        async def __aexit__(self, *a):
            return await self._i.__aexit__(*a)

    class GatedEntry:
        """a FileListEntry whose status() (a stat on the local FS) is a scheduling point and may fail transiently"""

        def __init__(self, inner):
            self._i = inner

        async def status(self):
            await gate('entry_status')
            return await self._i.status()

        def __getattr__(self, k):
            return getattr(self._i, k)

    class GatedLocalFS(LocalAsyncFS):
        async def open(self, url):
            await gate('open')
            return GatedReadable(await super().open(url))

        async def _open_from(self, url, start, *, length=None):
            await gate('open_from')
            rec.append(('read', start, length))
            return GatedReadable(await super()._open_from(url, start, length=length))

        async def create(self, url, *, retry_writes=True):
            await gate('create')
            return GatedWritable(await super().create(url, retry_writes=retry_writes))

        async def multi_part_create(self, sema, url, num_parts):
            await gate('multi_part_create')
            rec.append(('mpc', num_parts))
            return GatedMPC(await LocalAsyncFS.multi_part_create(self, sema, url, num_parts))

        async def statfile(self, url):
            await gate('statfile')
            return await super().statfile(url)

        async def staturl(self, url):
            await gate('staturl')
            return await super().staturl(url)

        async def listfiles(self, url, recursive=False, exclude_trailing_slash_files=True):
            await gate('listfiles')
            it = await super().listfiles(url, recursive, exclude_trailing_slash_files)

            async def walk():
                async for e in it:
                    await gate('listing_next')
                    yield GatedEntry(e)
            return walk()

        async def makedirs(self, url, exist_ok=False):
            await gate('makedirs')
            return await super().makedirs(url, exist_ok=exist_ok)

    return GatedLocalFS(thread_pool=pool)


K_SRC = 'C22:source-path-contains-#?;:url_basename-cuts-the-name'
K_DEST = 'C22:destination-path-contains-#?;:url_join-misplaces-the-files'

WIDE_NAMES = ['report#1.txt', 'report', 'query?x=1', 'query', 'part;v2', 'part', 'a%20b', 'a b', 'x&y=z', 'p+q', 'c,d', 'k:v', 'u@h', 'wow!',
              '$var', "it's", '(paren)', 'star*', '[brk]', '.hidden', '-dash', '\u00e9t\u00e9', 'a%2Fb', 'semi;', '100%', 'r#', 'q?', 'tab#?;x',
              'report#2.txt', 'x=1']


def expand_links(c):
    """the tree as open() / scandir() present it: a symlink to a file is that file, a symlink to a directory is a directory with the
    target's contents (the copier follows links, like `cp -L`); links are resolved by the harness, the model sees the followed tree"""
    if c.get('kind') != 'copy' or not c.get('links'):
        return c
    c2 = json.loads(json.dumps(c))
    files, dirs = dict(c2['files']), list(c2['dirs'])
    for link, target, _how in c2['links'] * 3:          # links below linked directories: repeat to a fixpoint
        if target in files:
            files[link] = files[target]
        else:
            dirs.append(link)
            for p, t in list(files.items()):
                if p.startswith(target + '/'):
                    files[link + p[len(target):]] = t
            for d in list(dirs):
                if d.startswith(target + '/'):
                    dirs.append(link + d[len(target):])
    c2['files'], c2['dirs'] = files, sorted(set(dirs))
    c2['links'] = []
    return c2


def rename_path(p, m):
    return '/'.join(m.get(c, c) for c in p.split('/'))


def rename_case(c, m):
    c2 = json.loads(json.dumps(c))
    c2['files'] = {rename_path(p, m): t for p, t in c['files'].items()}
    c2['dirs'] = [rename_path(d, m) for d in c['dirs']]
    c2['links'] = [[rename_path(a, m), rename_path(b, m), h] for a, b, h in c.get('links', [])]
    for x in c2['xfers']:
        x['dest'] = rename_path(x['dest'], m)
        x['src'] = rename_path(x['src'], m) if isinstance(x['src'], str) else [rename_path(q, m) for q in x['src']]
    return c2


def xfer_strings(c):
    srcs, dests = [], []
    for x in c['xfers']:
        dests.append(x['dest'])
        srcs += [x['src']] if isinstance(x['src'], str) else list(x['src'])
    return srcs, dests


def has_special(s):
    return any(ch in s for ch in SPECIAL)


class C22(Prop):
    id = 'C22'
    title = 'Copy tool reproduces sources exactly'
    lean_props = ['HailVerif.Props.C22']
    driver = 'Driver/C22.lean'
    engine = 'E7-fs'
    design_ref = 'DESIGN.md §4 C22'
    technique = ('Lean 4 theorems about an executable model of the part arithmetic and of the destination rules + differential '
                 'correspondence with the real Copier over the real local file system under a deterministic event loop with scripted '
                 'task interleavings')
    level_text = ('Theorems for all sizes, part sizes and buffer sizes: the parts tile [0,size) in order without gap or overlap, there are '
                  'ceil(size/part) of them, each at most part_size bytes, the last is the remainder, and the ranged reads inside a part tile '
                  'the part with at most BUFFER_SIZE bytes each. Theorems for all trees and transfers: whenever copySpec succeeds every '
                  'destination file holds exactly the bytes of its source and every other path is untouched; the documented errors are raised '
                  'for a missing source, file onto directory and directory onto file. The model is tied to the real Copier by differential '
                  'runs (resulting tree or error class; create_part / open_from calls) on every run.')
    level_note = ('Trusted: Lean kernel; the hand-written model agrees with copier.py only as far as the correspondence cases show; the copier '
                  'runs its copies concurrently, the model one after the other: cases whose sources and destinations overlap are excluded '
                  '(their outcome depends on the schedule); real thread-pool timing and OS-level failures are not exhibited.')
    budget = {'quick': 900, 'thorough': 12000}
    search_budget = {'quick': 1500, 'thorough': 12000}
    rule = ('35% of the copy cases have 1-2 symlinks in the source area (to files / to directories, relative / absolute, inside / outside the '
            'source directory, no cycles); the documented result is the tree as seen through the links; 45% of the generated cases inject 1-4 transient faults (OSError ETIMEDOUT / EHOSTUNREACH, asyncio.TimeoutError: retryable '
            'for hailtop.utils.is_transient_error) into the n-th open / open_from / create / create_part / read / readexactly / write / '
            'close / listfiles / listing step / entry stat made inside a retry_transient_errors region of the copier; a copy that returns '
            'normally must still give exactly the documented result; case kinds: plan = one file of size around k*part +-1 copied with part_size 3..7, BUFFER_SIZE 2..4 (compared: create_part and '
            'open_from calls); copy = tree of <= 6 files with 1-2 transfers (src file/dir/missing/trailing slash/list, dest '
            'missing/file/dir/nested/trailing slash, three treat_dest_as modes), sizes around part boundaries, seeded gate order; the 324 '
            'configurations of the repo table copy_test_specs.py are run on every run; compared: resulting tree (paths, dirs, content '
            'identity) or error class; cases with overlapping sources/destinations or two different possible errors are not generated; '
            'non-trivial = at least one file copied; distinct by full case')
    trusted = ['harness/aloop.py deterministic event loop; InlineExecutor instead of the thread pool',
               'copier.retry_transient_errors is wrapped (same function, plus a context flag) so that faults are only injected where the '
               'copier retries; back-off sleeps run on the virtual clock',
               'GatedLocalFS: subclass of the real LocalAsyncFS whose coroutines first wait on a harness gate (no other change)',
               'the Linux file system in the scratch directory (ENOTDIR / EISDIR / ENOENT behaviour of open(2))',
               'reference destination rules in harness/props/c22.py, cross-checked against the repo table copy_test_specs.py (324 rows)']
    assumptions = ['sources and destinations of one copy do not overlap', 'no source path runs through a regular file (the OS answers ENOTDIR, which copy_as_file does not map to FileNotFoundError)', 'no other process touches the scratch directory',
                   'BUFFER_SIZE >= 1 and part size >= 1']

    # ------------------------------------------------------------------------------------------ setup
    def setup(self, repo):
        loader.install(repo)
        import hailtop.aiotools.fs.copier as copier
        import hailtop.aiotools.local_fs as lfs
        import hailtop.aiotools.router_fs as rfs
        self.copier, self.lfs, self.rfs = copier, lfs, rfs
        self._real_retry = copier.retry_transient_errors
        import logging
        logging.getLogger('hailtop.utils').setLevel(logging.ERROR)      # 'we have seen N transient errors' warnings
        self.fault_stats = {}
        path = os.path.join(repo, 'hail', 'python', 'test', 'hailtop', 'inter_cloud', 'copy_test_specs.py')
        spec = importlib.util.spec_from_file_location('verif_c22_copy_test_specs', path)
        mod = importlib.util.module_from_spec(spec)
        spec.loader.exec_module(mod)
        self.table = mod.COPY_TEST_SPECS
        bad = [s for s in self.table if self._table_expected(s) != self._table_ref(s)]
        if bad:
            raise MachineryError(f'reference destination rules disagree with copy_test_specs.py on {len(bad)} rows, e.g. {bad[0]}')

    # ---- the repo's documented table -----------------------------------------------------------
    @staticmethod
    def _table_case(s):
        files, dirs = {'d/keep': [0, 0]}, ['s', 'd']
        if s['src_type'] == 'file':
            files['s/a'] = [1, 5]
        elif s['src_type'] == 'dir':
            files['s/a/file1'] = [2, 11]
            files['s/a/subdir/file2'] = [3, 18]
        if s['dest_type'] == 'file':
            files['d/a'] = [4, 6]
        elif s['dest_type'] == 'dir':
            files['d/a/subdir/file2'] = [5, 19]
            files['d/a/file3'] = [6, 12]
        src = 's/a' + ('/' if s['src_trailing_slash'] else '')
        dest = 'd' + ('/' + s['dest_basename'] if s['dest_basename'] else '')
        dest = dest + '/' if s['dest_trailing_slash'] else dest
        return {'kind': 'copy', 'files': files, 'dirs': dirs, 'xfers': [{'src': src, 'dest': dest, 'mode': s['treat_dest_as']}],
                'part': 7, 'buf': 3, 'sched': 0}

    @staticmethod
    def _table_expected(s):
        r = s['result']
        if 'exception' in r:
            return ('err', r['exception'])
        names = {'src/a': 's/a', 'src/a/file1': 's/a/file1', 'src/a/subdir/file2': 's/a/subdir/file2', 'dest/a': 'd/a',
                 'dest/a/subdir/file2': 'd/a/subdir/file2', 'dest/a/file3': 'd/a/file3', '': 'd/keep'}
        return ('ok', tuple(sorted((k, names[v]) for k, v in r['files'].items())))

    def _table_ref(self, s):
        c = self._table_case(s)
        r = ref_copy(c['files'], c['dirs'], c['xfers'])
        if r[0] == 'err':
            return ('err', sorted(r[1])[0]) if len(r[1]) == 1 else ('err', tuple(sorted(r[1])))
        if r[0] != 'ok':
            return r
        after = {p: p for p in c['files'] if p.startswith('d/')}
        for d, q in r[1].items():
            after['/'.join(d)] = '/'.join(q)
        return ('ok', tuple(sorted(('/' + p[2:], v) for p, v in after.items())))

    # ------------------------------------------------------------------------------------------ generation
    def _sizes(self, rng, part, buf):
        return rng.choice([0, 1, part - 1, part, part + 1, 2 * part - 1, 2 * part, 2 * part + 1, 3 * part + 1, buf, buf + 1, 2 * buf])

    def _random_copy_case(self, rng):
        part = rng.randint(3, 7)
        buf = rng.randint(2, 4)
        nid = [10]

        def tok():
            nid[0] += 1
            return norm_tok([nid[0], self._sizes(rng, part, buf)])
        files, dirs = {}, ['s', 'd']
        # source area
        shape = rng.random()
        if shape < 0.35:
            files['s/a'] = tok()
        elif shape < 0.8:
            files['s/a/file1'] = tok()
            if rng.random() < 0.8:
                files['s/a/subdir/file2'] = tok()
            if rng.random() < 0.3:
                dirs.append('s/a/empty')
        else:
            dirs.append('s/a')           # empty source directory
        if rng.random() < 0.6:
            files['s/b'] = tok()
        if rng.random() < 0.3:
            files['s/c/g'] = tok()
        # destination area
        if rng.random() < 0.7:
            files['d/keep'] = tok()
        dshape = rng.random()
        if dshape < 0.25:
            files['d/a'] = tok()
        elif dshape < 0.55:
            if rng.random() < 0.7:
                files['d/a/subdir/file2'] = tok()
            if rng.random() < 0.7:
                files['d/a/file3'] = tok()
            dirs.append('d/a')
            if rng.random() < 0.25:
                dirs.append('d/a/file1')     # a directory where a source file wants to go
        elif dshape < 0.65:
            dirs.append('d/a/a')
        while len(files) > 6:
            files.pop(rng.choice(sorted(files)))

        tops = sorted({'s/' + comps(p)[1] for p in list(files) + dirs if p.startswith('s/')})

        def pick_src():
            r = rng.random()
            if r < 0.12 or not tops:
                return rng.choice(['s/missing', 's/missing/', 's/a/nope'])
            t = rng.choice(tops)
            if r < 0.2 and (t + '/file1') in files:
                return t + '/file1'
            if r < 0.3 and any(p.startswith(t + '/subdir/') for p in files):
                return t + '/subdir'
            return t + ('/' if rng.random() < 0.3 else '')

        def one_xfer(area):
            dest_pool = [area, area + '/', f'{area}/a', f'{area}/a/', f'{area}/x', f'{area}/x/', f'{area}/x/y', f'{area}/a/file3',
                         f'{area}/a/subdir', f'{area}/keep', f'{area}/a/a']
            mode = rng.choice(['dest_dir', 'dest_is_target', 'infer_dest'])
            if rng.random() < 0.3 and mode != 'dest_is_target':
                k = rng.choice([1, 2, 2, 3])
                src = []
                for _ in range(k):
                    c = pick_src()
                    if c.rstrip('/') not in [e.rstrip('/') for e in src]:
                        src.append(c)
            else:
                src = pick_src()
            return {'src': src, 'dest': rng.choice(dest_pool), 'mode': mode}
        xfers = [one_xfer('d')]
        if rng.random() < 0.2:
            dirs.append('e')
            xfers.append(one_xfer('e'))
        return {'kind': 'copy', 'files': files, 'dirs': sorted(set(dirs)), 'xfers': xfers, 'part': part, 'buf': buf,
                'sched': rng.randint(0, 10 ** 6)}

    def _usable(self, c):
        c = expand_links(c)
        try:
            for x in c['xfers']:
                if x['mode'] == 'dest_is_target' and not isinstance(x['src'], str):
                    return False      # rejected by Transfer.__init__ itself (kept out: it is not a copy)
                # a source path that runs through a regular file is outside the claim (see `assumptions`)
                for s in ([x['src']] if isinstance(x['src'], str) else x['src']):
                    sp = comps(s)
                    if any('/'.join(sp[:k]) in c['files'] for k in range(1, len(sp))):
                        return False
            r = ref_copy(c['files'], c['dirs'], c['xfers'])
        except Exception:  # noqa: BLE001
            return False
        if r[0] == 'conflict':
            return False
        if r[0] == 'err' and len(r[1]) != 1:
            return False
        return True

    def _plan_case(self, rng, size=None, part=None, buf=None):
        part = part or rng.randint(3, 7)
        buf = buf or rng.randint(2, 4)
        if size is None:
            k = rng.choice([1, 1, 2, 2, 3, 4])
            size = max(0, k * part + rng.choice([-1, 0, 1]))
        return {'kind': 'plan', 'size': size, 'part': part, 'buf': buf, 'sched': rng.randint(0, 10 ** 6)}

    def cases(self, rng, n, tier):
        for s in self.table:
            c = self._table_case(s)
            c['sched'] = rng.randint(0, 10 ** 6)
            yield c
        for part in (3, 4, 5, 7):
            for buf in (2, 3, 4):
                for size in sorted({0, 1, part - 1, part, part + 1, 2 * part - 1, 2 * part, 2 * part + 1, 3 * part, 3 * part + 1, 4 * part - 1}):
                    yield self._plan_case(rng, size, part, buf)
        made = 0
        while made < n:
            if rng.random() < 0.15:
                yield self._with_faults(rng, self._plan_case(rng))
                made += 1
                continue
            c = self._random_copy_case(rng)
            if self._usable(c):
                c = self._add_links(rng, c)
                c = self._widen_names(rng, c)
                if not self._usable(c):
                    continue
                made += 1
                yield self._with_faults(rng, c)

    def extra_coverage(self):
        return {'transient_faults': dict(self.fault_stats)}

    def _add_links(self, rng, c):
        """symlinks in the source area: to files and to directories, relative and absolute, pointing inside and outside the source
        directory; never to an ancestor (no cycles: the unchanged listing follows links and would not terminate)"""
        if rng.random() > 0.35:
            return c
        c = json.loads(json.dumps(c))
        src_dirs = sorted({'/'.join(p.split('/')[:k]) for p in list(c['files']) + c['dirs'] if p.startswith('s/')
                           for k in range(2, len(p.split('/')) + (0 if p in c['files'] else 1))} | {'s'})
        src_files = sorted(p for p in c['files'] if p.startswith('s/'))
        links = []
        for i in range(rng.choice([1, 1, 2])):
            parent = rng.choice(src_dirs)
            if rng.random() < 0.5 and src_files:
                target = rng.choice(src_files)
            else:
                cands = [d for d in src_dirs if d != 's' and not (parent + '/').startswith(d + '/')]
                if not cands:
                    continue
                target = rng.choice(cands)
            link = f'{parent}/lnk{i}'
            if link in c['files'] or link in c['dirs']:
                continue
            # acyclic by construction: no link lives below a linked directory, and no linked directory contains a link
            under = lambda a, b: (a + '/').startswith(b + '/')
            if any(under(parent, t) for _, t, _ in links) or any(under(lp.rsplit('/', 1)[0], target) for lp, _, _ in links) \
                    or under(parent, target):
                continue
            links.append([link, target, rng.choice(['rel', 'abs'])])
        c['links'] = links
        return c

    def _widen_names(self, rng, c):
        """rename path components to names from a wide alphabet (# ? ; % & = + space , : @ ! $ ' ( ) * [ ] %20 non-ASCII, leading dot /
        dash, names that are prefixes of each other up to such a character) and sometimes address everything by file:// URLs.
        '#', '?' and ';' inside the *source or destination strings of a transfer* trigger two known defects of the unchanged code
        (url_basename / url_join): at most one of the two per case, and then only with one transfer and one source."""
        if rng.random() < 0.45:
            return c
        names = sorted({comp for p in list(c['files']) + list(c['dirs']) + [a for a, _, _ in c.get('links', [])] for comp in p.split('/')} |
                       {comp for q in sum(xfer_strings(c), []) for comp in q.split('/') if comp})
        names = [n for n in names if n not in ('s', 'd', 'e', '')]
        srcs, dests = xfer_strings(c)
        in_src = {comp for q in srcs for comp in q.split('/')}
        in_dest = {comp for q in dests for comp in q.split('/')}
        simple = len(c['xfers']) == 1 and isinstance(c['xfers'][0]['src'], str)
        mode = rng.choice(['none', 'none', 'none', 'src', 'dest']) if simple else 'none'
        pool = list(WIDE_NAMES)
        rng.shuffle(pool)
        m = {}
        for n in names:
            if rng.random() < 0.6 and pool:
                cand = pool.pop()
                forbid = (n in in_src and mode != 'src') or (n in in_dest and mode != 'dest')
                if has_special(cand) and forbid:
                    cand = cand.replace('#', '%23').replace('?', '+').replace(';', ',')
                if cand not in m.values() and cand not in names:
                    m[n] = cand
        c2 = rename_case(c, m)
        for x in c2['xfers']:
            if has_special(x['dest']):
                # with a trailing slash the misplaced suffix ends in '/': AssertionError / EISDIR depending on the file size (same defect)
                x['dest'] = x['dest'].rstrip('/')
        if rng.random() < 0.25:
            pre = rng.choice(['file://', 'file://localhost'])
            for x in c2['xfers']:
                x['url'] = pre
        return c2

    def _with_faults(self, rng, c):
        if rng.random() < 0.45:
            listing = ['entry_status', 'entry_status', 'listing_next', 'listfiles']
            c['faults'] = [[rng.choice(listing if rng.random() < 0.4 else FAULT_KINDS), rng.choice([1, 1, 2, 3]), rng.choice(FAULT_EXCS)]
                           for _ in range(rng.choice([1, 2, 2, 3]))]
            # the same call failing twice in a row: retried twice
            if rng.random() < 0.3:
                k, n, e = c['faults'][0]
                c['faults'].append([k, n + 1, e])
            c['faults'] = [list(x) for x in sorted({tuple(f) for f in c['faults']})]
        return c

    # ------------------------------------------------------------------------------------------ model side
    def model_lines(self, c):
        c = expand_links(c)
        if c['kind'] == 'plan':
            return [f"plan {c['size']} {c['part']} {c['buf']}"]
        # names may contain any character but '/': everything travels as hex of UTF-8; a location is the string the tool is given,
        # relative to the scratch root ('/s/a#1', 'file:///d/', 'file://localhost/d/x')
        ws = ['copy', 'T'] + [f'{hx(p)}={t[0]}.{t[1]}' for p, t in sorted(c['files'].items())]
        ws += ['D'] + [hx(d) for d in c['dirs']]
        for x in c['xfers']:
            single = isinstance(x['src'], str)
            pre = x.get('url', '')
            ws += ['X', x['mode'], 's' if single else 'l', hx(pre + '/' + x['dest'])]
            ws += [hx(pre + '/' + s_) for s_ in ([x['src']] if single else list(x['src']))]
        return [' '.join(ws)]

    # ------------------------------------------------------------------------------------------ real side
    def _run(self, c):
        """-> dict(status='ok'|'err', err=ClassName, tree={relpath: token|'DIR'|('?', hex)}, rec=[…])"""
        copier, lfs, rfs = self.copier, self.lfs, self.rfs
        if c['kind'] == 'plan':
            files, dirs = {'s/f': norm_tok([7, c['size']])}, ['s', 'd']
            xfers = [{'src': 's/f', 'dest': 'd/f', 'mode': 'dest_is_target'}]
        else:
            files, dirs, xfers = c['files'], c['dirs'], c['xfers']
        scratch = tempfile.mkdtemp(prefix='verif-c22-')
        assert not scratch.startswith('/repo') and not scratch.startswith('/verif')
        sched = aloop.Sched()
        sched.loop.set_exception_handler(lambda loop, ctx: None)     # "exception never retrieved" of abandoned helper tasks
        rec = []
        saved_part = lfs.LocalAsyncFS.__dict__.get('copy_part_size')
        saved_buf = copier.Copier.BUFFER_SIZE
        try:
            for d in dirs:
                os.makedirs(os.path.join(scratch, d), exist_ok=True)
            tokens = {}
            for p, t in files.items():
                full = os.path.join(scratch, p)
                os.makedirs(os.path.dirname(full), exist_ok=True)
                with open(full, 'wb') as fh:
                    fh.write(content(t))
                tokens[content(t)] = norm_tok(t)
            for link, target, how in (c.get('links') or []) if c['kind'] == 'copy' else []:
                lp = os.path.join(scratch, link)
                os.makedirs(os.path.dirname(lp), exist_ok=True)
                tp = os.path.join(scratch, target)
                os.symlink(tp if how == 'abs' else os.path.relpath(tp, os.path.dirname(lp)), lp)
            lfs.LocalAsyncFS.copy_part_size = staticmethod(lambda url, _p=c['part']: _p)
            copier.Copier.BUFFER_SIZE = c['buf']
            counter = [0]

            async def gate(what):
                counter[0] += 1
                await sched.gate((counter[0], what))
            # transient faults: [kind, n, exception] = the n-th call of that kind made *inside a retry_transient_errors region*
            # of the copier raises a retryable error instead of doing its work
            faults = {(k, n): e for k, n, e in c.get('faults', [])}
            seen = {}

            def fault(kind):
                if not IN_RETRY.get():
                    return
                seen[kind] = seen.get(kind, 0) + 1
                e = faults.get((kind, seen[kind]))
                if e is not None:
                    fired.append((kind, seen[kind], e))
                    raise make_fault(e)
            fired = []
            real_retry = self._real_retry

            async def traced_retry(f, *a, **k):
                tok = IN_RETRY.set(True)
                try:
                    return await real_retry(f, *a, **k)
                finally:
                    IN_RETRY.reset(tok)
            copier.retry_transient_errors = traced_retry
            random.seed(c['sched'])          # the jitter of the retry back-off
            router = rfs.RouterAsyncFS(local_kwargs={'thread_pool': InlineExecutor()})
            router._local_fs = make_gated_fs(lfs.LocalAsyncFS, InlineExecutor(), gate, rec, fault)

            def absolute(p, pre=''):
                return pre + scratch + '/' + p           # plain local path, or a file://[localhost] URL of it
            transfers = [copier.Transfer(absolute(x['src'], x.get('url', '')) if isinstance(x['src'], str)
                                         else [absolute(s, x.get('url', '')) for s in x['src']],
                                         absolute(x['dest'], x.get('url', '')), treat_dest_as=x['mode']) for x in xfers]

            async def main():
                sema = asyncio.Semaphore(50)
                async with sema:
                    await copier.Copier.copy(router, sema, transfers if len(transfers) > 1 else transfers[0])
            task = sched.spawn('main', main())
            rng = random.Random(c['sched'])
            for _ in range(20000):
                if task.done():
                    break
                pending = sorted(k for k, f in sched.gates.items() if not f.done())
                if not pending:
                    nt = sched.loop.next_timer()
                    if nt is None:
                        sched.settle()
                        if not task.done() and not any(not f.done() for f in sched.gates.values()) and sched.loop.next_timer() is None:
                            raise MachineryError('copier is stuck without a pending gate or timer')
                        continue
                    sched.advance(max(nt - sched.loop.time(), 0.0) + 1e-6)      # the back-off sleep of a retry
                    continue
                sched.open(rng.choice(pending))
            else:
                raise MachineryError('copier did not finish within 20000 gate openings')
            self._quiesce(sched)
            if task.cancelled():
                res = {'status': 'err', 'err': 'CancelledError'}
            elif task.exception() is not None:
                res = {'status': 'err', 'err': type(task.exception()).__name__}
            else:
                res = {'status': 'ok'}
            tree = {}
            for root, dnames, fnames in os.walk(scratch, followlinks=True):     # the tree as seen through the links (no cycles)
                rel = os.path.relpath(root, scratch)
                for d in dnames:
                    tree[os.path.normpath(os.path.join(rel, d))] = 'DIR'
                for f in fnames:
                    with open(os.path.join(root, f), 'rb') as fh:
                        b = fh.read()
                    tree[os.path.normpath(os.path.join(rel, f))] = tokens.get(b, ['?', b.hex()])
            res['tree'] = tree
            res['rec'] = rec
            res['fired'] = fired
            return res
        finally:
            copier.retry_transient_errors = self._real_retry
            copier.Copier.BUFFER_SIZE = saved_buf
            if saved_part is None:
                try:
                    del lfs.LocalAsyncFS.copy_part_size
                except AttributeError:
                    pass
            else:
                lfs.LocalAsyncFS.copy_part_size = saved_part
            try:
                sched.close()
            finally:
                shutil.rmtree(scratch, ignore_errors=True)

    @staticmethod
    def _quiesce(sched):
        """after Copier.copy returned or raised: let the tasks it left behind (cancelled siblings) finish"""
        for _ in range(50):
            if not [t for t in asyncio.all_tasks(sched.loop) if not t.done()]:
                return
            for f in sched.gates.values():
                if not f.done():
                    f.set_result(None)
            sched.loop.settle()
            for t in asyncio.all_tasks(sched.loop):
                if not t.done():
                    t.cancel()
            sched.loop.settle()

    @staticmethod
    def _fmt_tree(tree):
        items = []
        for p in sorted(tree, key=hx):
            v = tree[p]
            if v == 'DIR':
                items.append(hx(p) + '/')
            elif v[0] == '?':
                items.append(f'{hx(p)}=?{v[1]}')
            else:
                items.append(f'{hx(p)}={v[0]}.{v[1]}')
        return 'ok ' + ' '.join(items)

    def impl(self, c):
        r = self._run(c)
        if c.get('faults'):
            st = self.fault_stats
            st['cases_with_faults'] = st.get('cases_with_faults', 0) + 1
            st['cases_where_a_fault_fired'] = st.get('cases_where_a_fault_fired', 0) + (1 if r.get('fired') else 0)
            for k, _, _ in r.get('fired', []):
                st['fired:' + k] = st.get('fired:' + k, 0) + 1
        if c['kind'] == 'plan':
            # a retried part is created and read again: the plan is the *set* of create_part / open_from calls
            parts = sorted({(e[1], e[2], e[3]) for e in r['rec'] if e[0] == 'part'})
            reads = sorted({(e[1], e[2]) for e in r['rec'] if e[0] == 'read'})
            good = r['status'] == 'ok' and r['tree'].get('d/f') == norm_tok([7, c['size']])
            if not parts and not reads:
                line = 'single'
            else:
                line = 'parts=' + ','.join(f'{a}:{b}:{s}' for a, b, s in parts) + ' reads=' + ','.join(f'{a}:{b}' for a, b in reads)
            return [line if good else line + f" !copy-failed:{r.get('err', 'wrong-content')}"]
        if r['status'] == 'err':
            return ['err ' + r['err']]
        return [self._fmt_tree(r['tree'])]

    # ------------------------------------------------------------------------------------------ the property, executably
    def oracle(self, c, impl_out):
        c = expand_links(c)
        line = impl_out[0]
        if line.startswith('IMPL-EXC'):
            return line
        if c['kind'] == 'plan':
            return self._oracle_plan(c, line)
        ref = ref_copy(c['files'], c['dirs'], c['xfers'])
        if ref[0] == 'conflict':
            return None                      # outcome depends on the schedule: outside the claim
        if ref[0] == 'err':
            if not line.startswith('err '):
                return f'documented error {sorted(ref[1])} expected, but the copy succeeded'
            got = line[4:]
            return None if got in ref[1] else f'raised {got}, documented error for this transfer is {sorted(ref[1])}'
        if line.startswith('err '):
            return f'copy raised {line[4:]} although the documented rules give a result'
        after = {}
        for item in line[3:].split(' '):
            if not item:
                continue
            if item.endswith('/'):
                after[unhx(item[:-1])] = 'DIR'
            else:
                p, v = item.split('=')
                after[unhx(p)] = v
        tok = {p: f'{norm_tok(t)[0]}.{norm_tok(t)[1]}' for p, t in c['files'].items()}
        writes = {'/'.join(d): '/'.join(q) for d, q in ref[1].items()}
        for d, q in sorted(writes.items()):
            if after.get(d) != tok[q]:
                return f'destination {d} should be byte-identical to source {q} ({tok[q]}) but is {after.get(d)}'
        for p, t in tok.items():
            if p not in writes and after.get(p) != t:
                return f'{p} is not a destination but changed from {t} to {after.get(p)}'
        expected_paths = set(tok) | set(writes)
        for p, v in after.items():
            if v != 'DIR' and p not in expected_paths:
                return f'unexpected file {p}={v} appeared'
        return None

    def _oracle_plan(self, c, line):
        if '!copy-failed' in line:
            return f"plan size={c['size']} part={c['part']} buf={c['buf']}: {line}"
        size, part, buf = c['size'], c['part'], c['buf']
        if line == 'single':
            return None if size <= part else f'file of {size} bytes > part size {part} was not copied in parts'
        ps, rs = line.split(' ')
        parts = [tuple(map(int, x.split(':'))) for x in ps[len('parts='):].split(',') if x]
        reads = [tuple(map(int, x.split(':'))) for x in rs[len('reads='):].split(',') if x]
        pos = 0
        for i, (num, start, sz) in enumerate(parts):
            if num != i or start != pos:
                return f'parts do not tile [0,{size}) in order: part {i} is number {num} at {start}, expected offset {pos}'
            if not 1 <= sz <= part:
                return f'part {i} has {sz} bytes (part size {part})'
            pos += sz
        if pos != size:
            return f'parts cover {pos} bytes of {size}'
        if len(parts) != -(-size // part):
            return f'{len(parts)} parts, expected ceil({size}/{part})'
        pos = 0
        for off, ln in reads:
            if off != pos or not 1 <= ln <= buf:
                return f'ranged reads do not tile the file with at most {buf} bytes each: read ({off},{ln}) at expected offset {pos}'
            # a read never crosses a part boundary
            if off // part != (off + ln - 1) // part:
                return f'read ({off},{ln}) crosses a part boundary (part size {part})'
            pos += ln
        if pos != size:
            return f'ranged reads cover {pos} bytes of {size}'
        return None

    # ------------------------------------------------------------------------------------------ bookkeeping
    def classify(self, c, impl_out):
        links = c.get('links') or []
        c = expand_links(c)
        line = impl_out[0]
        if c['kind'] == 'plan':
            n = line.count(':') // 2 if line.startswith('parts=') else 0
            tags = ['kind=plan', 'plan:single' if line == 'single' else f"plan:parts={min(line.split(' ')[0].count(','), 4) + 1}",
                    f"rem={'0' if c['size'] % c['part'] == 0 else 'nonzero'}"]
            return (json.dumps(c, sort_keys=True) if line != 'single' and n else None, tags)
        tags = ['kind=copy', 'res=' + (line.split(' ')[1] if line.startswith('err ') else 'ok'), f"xfers={len(c['xfers'])}"]
        if c.get('faults'):
            tags.append('with-transient-faults')
        allnames = ' '.join(list(c['files']) + list(c['dirs']))
        if any(ch in allnames for ch in "#?;%&=+ ,:@!$'()*[]") or not allnames.isascii():
            tags.append('names-from-wide-alphabet')
        if has_special(allnames):
            tags.append('names-with-#?;')
        for _a, b, h in links:
            tags.append('symlink-to-' + ('file' if b in c['files'] else 'dir') + ':' + h)
        if any(x.get('url') for x in c['xfers']):
            tags.append('file-url')
        multipart = any(t[1] > c['part'] for t in c['files'].values())
        for x in c['xfers']:
            tags.append('mode=' + x['mode'])
            tags.append('src=' + ('list' if not isinstance(x['src'], str) else 'slash' if x['src'].endswith('/') else 'plain'))
            tags.append('dest=' + ('slash' if x['dest'].endswith('/') else 'plain'))
        ref = ref_copy(c['files'], c['dirs'], c['xfers'])
        nfiles = len(ref[1]) if ref[0] == 'ok' else 0
        tags.append(f'copied={min(nfiles, 4)}')
        if multipart:
            tags.append('has-multipart-file')
        return (json.dumps(c, sort_keys=True) if nfiles else None, tags)

    def finding_key(self, c, msg):
        """the two url_basename / url_join defects are keyed by: the failure disappears when '#', '?', ';' are replaced in all names,
        and exactly one of the two triggers (in a source string / in a destination string) is present"""
        if c.get('kind') == 'copy':
            srcs, dests = xfer_strings(c)
            t_src, t_dest = any(map(has_special, srcs)), any(map(has_special, dests))
            if t_src != t_dest:
                names = {comp for p in list(c['files']) + list(c['dirs']) + srcs + dests for comp in p.split('/') if has_special(comp)}
                m = {n: n.replace('#', '_').replace('?', '_').replace(';', '_') for n in names}
                try:
                    c2 = rename_case(c, m)
                    if self._usable(c2) and self.oracle(c2, self.impl(c2)) is None:
                        return K_SRC if t_src else K_DEST
                except Exception:  # noqa: BLE001
                    pass
        return json.dumps(c, sort_keys=True)

    def shrink(self, c, fails):
        cur = json.loads(json.dumps(c))
        for i in range(len(cur.get('faults', [])) - 1, -1, -1):
            cand = {**cur, 'faults': cur['faults'][:i] + cur['faults'][i + 1:]}
            if fails(cand):
                cur = cand
        if cur['kind'] == 'plan':
            changed = True
            while changed:
                changed = False
                for cand in ({**cur, 'size': cur['size'] - cur['part']}, {**cur, 'size': cur['size'] - 1}, {**cur, 'sched': 0}):
                    if cand['size'] >= 0 and cand != cur and fails(cand):
                        cur, changed = cand, True
                        break
            return cur
        changed = True
        while changed:
            changed = False
            cands = []
            for p in sorted(cur['files']):
                f2 = dict(cur['files'])
                f2.pop(p)
                cands.append({**cur, 'files': f2})
            for d in cur['dirs']:
                cands.append({**cur, 'dirs': [e for e in cur['dirs'] if e != d]})
            if len(cur['xfers']) > 1:
                for i in range(len(cur['xfers'])):
                    cands.append({**cur, 'xfers': cur['xfers'][:i] + cur['xfers'][i + 1:]})
            for p, t in sorted(cur['files'].items()):
                if t[1] > 1:
                    cands.append({**cur, 'files': {**cur['files'], p: norm_tok([t[0], t[1] - 1])}})
            if cur['sched'] != 0:
                cands.append({**cur, 'sched': 0})
            for cand in cands:
                if self._usable(cand) and fails(cand):
                    cur, changed = cand, True
                    break
        return cur


PROP = C22()

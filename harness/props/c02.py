"""C02 Billing aggregates equal the sum of attempt usage — E1 family: the real code over minisql vs the Lean model BatchDB, oracle `oracles.c02`."""
from ..batchdb.prop import E1Prop


class C02(E1Prop):
    id = 'C02'
    title = 'Billing aggregates equal the sum of attempt usage'
    design_ref = 'DESIGN.md §4 C02 (Engine E1)'
    oracle_name = 'c02'
    adversarial_share = 0.0
    nontrivial_tags = ['billed>0']
    level_text = 'Oracle after every op: aggregated_job_resources_v3 = sum over attempts of quantity x max(0, rollup-start); job-group aggregate = sum over jobs of the group and descendants; billing-project x user aggregate and the by-date aggregate summed over days = sum over the batches of that project and user; compaction leaves every sum unchanged and only token-0 shards.'
    level_note = ('Partial: the server is harness/minisql (semantics list in trusted_base), every transaction is one atomic step, histories are generated '
                  '(not exhaustive); the Lean model is tied to the code only as far as the compared answers and dumps show. '
                  'Known findings of the unchanged tree are listed in known_findings.json and printed as KNOWN-FINDING.')

    def nontrivial(self, r):
        return any(t in r.tags for t in self.nontrivial_tags)


    def make_history(self, rng):
        from ..batchdb import gen
        return gen.history(rng, special=0.25, weights={'late-resources': 4.0, 'compact-cycle': 6.0, 'resources-again': 6.0})


PROP = C02()

"""C20 Bounded gather respects its bound and its error contract — correspondence of Gather.step with the real helpers of
hailtop/utils/utils.py (bounded_gather, bounded_gather2[_return_exceptions|_raise_exceptions], WithoutSemaphore,
OnlineBoundedGather2) driven under the deterministic event loop; the oracle instruments the REAL run (counter of concurrently
running task bodies, returned list / raised exception, tasks unfinished when the helper returns)."""
import asyncio
import importlib
import itertools
import json

from .. import aloop, loader
from ..framework import Prop

FLAVOURS = ['rx', 'rf', 'rc', 'on']     # return_exceptions | raise (no cancel) | raise + cancel_on_error | OnlineBoundedGather2


def canon_value(v):
    """canonical text of a value a task body returned: an int, None, or an exception INSTANCE handed back as a value"""
    if v is None:
        return 'None'
    if isinstance(v, asyncio.CancelledError):
        return 'EX'
    if isinstance(v, BaseException):
        return f'E{v.code}' if hasattr(v, 'code') else f'E{type(v).__name__}'
    return str(v)


def want_slot(o):
    """what the slot of a task with scripted outcome `o` must be (outcome kinds: r value, e raises, c ends in CancelledError,
    n returns None, v returns an exception instance, w returns a CancelledError instance)"""
    kind, v = o[0], o[1]
    return {'r': f'ok:{v}', 'e': f'err:{v}', 'c': 'X', 'n': 'ok:None', 'v': f'ok:E{v}', 'w': 'ok:EX'}[kind]


class TaskError(Exception):
    def __init__(self, code):
        super().__init__(code)
        self.code = code


def _sim_states(c):
    """reference bookkeeping used ONLY to generate well-formed schedules (which task bodies are running after each op); neither the
    oracle nor the comparison uses it.  Yields the list of task states ('Q' | 'R' | 'D') after start and after every op."""
    fl, n, outs = c['fl'], c['n'], c['outs']
    v0 = n - 1      # both entries hold a permit (bounded_gather wraps the call in `async with sema`)
    st = ['Q'] * len(outs)
    free = v0 if fl == 'on' else v0 + 1
    helper = 'active'
    shut = False

    def admit():
        nonlocal free
        for i, x in enumerate(st):
            if free == 0:
                break
            if x == 'Q':
                st[i] = 'R'
                free -= 1

    def cancel(idx):
        nonlocal free
        for i in idx:
            if st[i] == 'R':
                free += 1
            if st[i] != 'D':
                st[i] = 'D'
    admit()
    yield list(st)
    for op in c['ops']:
        if op[0] == 'f':
            i = op[1]
            if i < len(st) and st[i] == 'R':
                st[i] = 'D'
                free += 1
                kind = outs[i][0]
                failed = kind == 'e' or (kind == 'c' and fl in ('rf', 'rc'))
                if failed:
                    if fl == 'rc' and helper == 'active':
                        cancel(range(len(st)))
                    if fl == 'on':
                        cancel(range(len(st)))
                        shut = True
                    if fl in ('rf', 'rc'):
                        helper = 'raised'
                admit()
        elif op[0] == 'x':
            if fl == 'on' and helper == 'exit':
                helper = 'left'
                cancel(range(len(st)))
            elif helper == 'active':
                cancel(range(len(st)))
                helper = 'left'
        elif fl == 'on' and helper == 'active':
            helper = 'exit'
            if op[1] == 'e' and not shut:
                cancel(range(len(st)))
                shut = True
            elif not shut:
                free += 1
                admit()
        yield list(st)


class C20(Prop):
    id = 'C20'
    title = 'Bounded gather respects its bound and its error contract'
    lean_props = ['HailVerif.Props.C20']
    driver = 'Driver/C20.lean'
    engine = 'E2-async'
    design_ref = 'DESIGN.md §4 C20'
    technique = ('Lean 4 proof by induction over schedules of a step-machine model of the helpers (steps = what happens between two quiescent '
                 'states of the event loop) + differential correspondence with the real helpers under a deterministic asyncio loop')
    level_text = ('Theorems for all schedules (all completion orders, all failure patterns incl. bodies that end in CancelledError, the '
                  'cancellation of the helper\'s caller at any moment, all semaphore sizes, any number of tasks): running bodies + free '
                  'permits equal a budget determined by the helper state (permit accounting), hence at most n bodies run at once under '
                  'bounded_gather2 / OnlineBoundedGather2 called by a permit holder and under bounded_gather(parallelism=n) — always for '
                  'return_exceptions, cancel_on_error=True and the online pool, and for cancel_on_error=False until the helper raises (open '
                  'finding F4, refuted on its witness); a '
                  'returned list is exactly the scripted outcomes in submission order — a body that RETURNS None or an exception instance '
                  'fills the value position of its slot, a body that raises the exception position; a helper that raised, raised the first exception in '
                  'schedule order it gets to see (task failure, cancelled child, body exception, cancellation of the caller; '
                  'return_exceptions raises only the latter); after a normal return, after ANY raise of cancel_on_error=True or of '
                  'return_exceptions (also by cancellation) and after the online pool was left in any way (also by a cancellation inside '
                  '__aexit__), every task is finished and none was pending at that instant. The four repaired defects (b83b6cc09, '
                  '2f78d4573, 426463a22, 316170afa) are kept as a pre-repair model variant '
                  'refuted on their witnesses. The model is tied to the real helpers by comparing (task states, sema._value, helper '
                  'result, tasks unfinished at return, peak concurrency) after every step of random and exhaustive small schedules.')
    level_note = ('partial: asyncio.gather / wait / shield / Semaphore / Event / Task.cancel are modelled from their documented behaviour '
                  '(FIFO wake-ups, permit handed over at release, gather propagates the first exception and leaves the rest running, a '
                  'cancelled child counts as raising CancelledError, cancelling the gather cancels its children), not verified; the '
                  'correspondence with CPython 3.12 on <= 5 tasks x outcome patterns x semaphore sizes 1..3 x cancellation points is what '
                  'validates that. In the model a cancelled body ends in the step that cancels it; bodies whose clean-up takes several '
                  'loop iterations or last across harness steps (released by an op), and an online body that submits more work, are exercised '
                  'on the real code only (extra checks: the property itself on the real run, no model). '
                  'One genuine defect is open (F4: the permit WithoutSemaphore does not re-acquire on error); four others found by this '
                  'check were repaired.')
    budget = {'quick': 2500, 'thorough': 30000}
    search_budget = {'quick': 3000, 'thorough': 30000}
    rule = ('case = (helper flavour rx|rf|rc|on, entry hold = caller holds one permit of Semaphore(n) | bg = bounded_gather(parallelism=n), '
            'scripted outcome per task, schedule); each task body increments a counter, blocks on a harness gate and ends with its outcome; '
            'op f i opens the gate of task i (outcome r value / e raises / c the body ends in CancelledError / n, v, w the body RETURNS None, an exception instance, a CancelledError instance as its value), op b ends the body of the `async with OnlineBoundedGather2` block, op x cancels the task that called the helper; after every op the loop '
            'runs to quiescence and (state of every task body, sema._value, helper state/result, number of helper-created tasks unfinished '
            'at the instant the helper returned or raised, peak of the running counter during the step) is compared with the model. '
            'non-trivial = at least one task had to wait for a permit or an exception occurred; distinct by full case')
    trusted = ['harness/aloop.py deterministic event loop (real asyncio.SelectorEventLoop with a virtual clock; ready queue never permuted)',
               'a loop task factory records the tasks the helpers create (in creation order = submission order); sema._value is read '
               'from the real asyncio.Semaphore (for bounded_gather the semaphore it creates is captured by a recording subclass)']
    assumptions = ['one event loop thread; code is atomic between awaits',
                   'the caller is not cancelled while the helper is already unwinding from an earlier exception (a second fault during '
                   'the clean-up)',
                   'task bodies have no awaits in their clean-up (a cancelled body ends in the step that cancels it)',
                   'asyncio primitives behave as documented for CPython 3.12']

    def setup(self, repo):
        loader.install(repo)
        self.U = importlib.import_module('hailtop.utils.utils')

    # ---- generation ----------------------------------------------------------------------------
    @staticmethod
    def _expand(base, prio, body=None, cancel=None):
        """schedule from a priority order: repeatedly finish the running task that comes first in `prio`; `body` = (position, kind, code)
        inserts the end of the online body before that many finishes; `cancel` = position: the caller of the helper is cancelled
        before that many finishes"""
        c = dict(base, ops=[])
        while True:
            nf = len([o for o in c['ops'] if o[0] == 'f'])
            if cancel is not None and nf == cancel and not any(o[0] == 'x' for o in c['ops']):
                if body is not None and body[0] == nf and not any(o[0] == 'b' for o in c['ops']) and body[3]:
                    c['ops'].append(['b', body[1], body[2]])      # body ends first, then the caller is cancelled inside __aexit__
                c['ops'].append(['x'])
                continue
            if body is not None and nf == body[0] and not any(o[0] == 'b' for o in c['ops']):
                c['ops'].append(['b', body[1], body[2]])
                continue
            st = list(_sim_states(c))[-1]
            run = [i for i in prio if st[i] == 'R']
            if not run:
                if body is not None and not any(o[0] == 'b' for o in c['ops']):
                    c['ops'].append(['b', body[1], body[2]])
                    continue
                return c
            c['ops'].append(['f', run[0]])

    def _exhaustive(self, max_tasks, sizes, max_fail=5, flavours=FLAVOURS, cancels=True, kinds='rec'):
        seen = set()
        for fl in flavours:
            for entry in (('hold',) if fl == 'on' else ('hold', 'bg')):
                for n in sizes:
                    for k in range(max_tasks + 1):
                        for pat in itertools.product(kinds, repeat=k):
                            if pat.count('e') + pat.count('c') > max_fail:
                                continue
                            outs = [[p, 0 if p in 'cnw' else 10 * (i + 1) + (1 if p in 'ev' else 0)] for i, p in enumerate(pat)]
                            base = {'fl': fl, 'entry': entry, 'n': n, 'outs': outs}
                            bodies = [None] if fl != 'on' else [(pos, kind, 99, first) for pos in range(k + 1) for kind in 're'
                                                                for first in (False, True)]
                            for prio in itertools.permutations(range(k)):
                                for body in bodies:
                                    for cancel in ([None] + list(range(k + 1)) if cancels else [None]):
                                        if body is not None and body[3] and cancel != body[0]:
                                            continue
                                        c = self._expand(base, prio, body, cancel)
                                        key = json.dumps(c, sort_keys=True)
                                        if key not in seen:
                                            seen.add(key)
                                            yield c

    def _random_case(self, rng):
        fl = rng.choice(FLAVOURS)
        entry = 'hold' if fl == 'on' else rng.choice(['hold', 'hold', 'bg'])
        n = rng.choice([1, 1, 2, 2, 3])
        k = rng.choice([1, 2, 3, 4, 5, 5, 6])
        pfail = rng.choice([0.0, 0.2, 0.5])
        pcanc = rng.choice([0.0, 0.0, 0.15, 0.3])
        pobj = rng.choice([0.0, 0.15, 0.3])
        outs = []
        for i in range(k):
            r = rng.random()
            outs.append(['e', 10 * (i + 1) + 1] if r < pfail else ['c', 0] if r < pfail + pcanc else
                        rng.choice([['v', 10 * (i + 1) + 1], ['n', 0], ['w', 0]]) if r < pfail + pcanc + pobj else ['r', 10 * (i + 1)])
        prio = list(range(k))
        rng.shuffle(prio)
        body = None
        cancel = rng.randint(0, k) if rng.random() < 0.3 else None
        if fl == 'on':
            pos = cancel if (cancel is not None and rng.random() < 0.5) else rng.randint(0, k)
            body = (pos, 'e' if rng.random() < 0.3 else 'r', 99, rng.random() < 0.7)
        c = self._expand({'fl': fl, 'entry': entry, 'n': n, 'outs': outs}, prio, body, cancel)
        r = rng.random()
        if r < 0.25 and c['ops']:
            c['ops'] = c['ops'][:rng.randint(0, len(c['ops']))]             # unfinished schedule
        elif r < 0.3:
            c['ops'].insert(rng.randint(0, len(c['ops'])), ['f', rng.randrange(k)])   # possibly not a behaviour (err on both sides)
        elif r < 0.33:
            c['ops'].insert(rng.randint(0, len(c['ops'])), ['x'])
        return c

    def cases(self, rng, n, tier):
        if tier == 'thorough':
            yield from self._exhaustive(4, (1, 2, 3))
            yield from (c for c in self._exhaustive(5, (1, 2, 3), max_fail=2, flavours=['rx', 'rf', 'rc']) if len(c['outs']) == 5)
            yield from self._exhaustive(3, (1, 2), kinds='revnw')      # bodies that RETURN None / exception instances
        else:
            yield from self._exhaustive(3, (1, 2))
            yield from self._exhaustive(2, (1, 2), kinds='revnw', cancels=False)
        for _ in range(n):
            yield self._random_case(rng)

    def search_cases(self, rng, n, hint):
        yield from self._exhaustive(3, (1, 2, 3))
        for _ in range(n):
            yield self._random_case(rng)

    # ---- model ---------------------------------------------------------------------------------
    def model_lines(self, c):
        outs = ' '.join(f'{k}{v}' for k, v in c['outs'])
        out = ['reset', f"start {c['fl']} {c['entry']} {c['n']} {outs}".rstrip()]
        for o in c['ops']:
            out.append(f'finish {o[1]}' if o[0] == 'f' else 'cancel' if o[0] == 'x' else f'body {o[1]}{o[2]}')
        return out

    # ---- real code -----------------------------------------------------------------------------
    def impl(self, c):
        U = self.U
        fl, entry, n, outs = c['fl'], c['entry'], c['n'], c['outs']
        k = len(outs)
        s = aloop.Sched()
        created = []
        semas = []

        def factory(loop, coro, **kw):
            t = asyncio.Task(coro, loop=loop, **kw)
            created.append(t)
            return t
        s.loop.set_task_factory(factory)
        s.loop.set_exception_handler(lambda loop, ctx: None)

        class RecordingSemaphore(asyncio.Semaphore):
            def __init__(self, *a, **kw):
                super().__init__(*a, **kw)
                semas.append(self)
        real_sema = asyncio.Semaphore
        try:
            state = ['Q'] * k
            running = [0, 0]      # current, peak during this step

            slow = set(c.get('slow', ()))
            gated = set(c.get('gated', ()))      # bodies whose clean-up after a cancellation blocks until op ['u', i]
            timed = {int(k_): v_ for k_, v_ in c.get('timed', {}).items()}    # … takes that many seconds on the virtual clock
            outs = [list(o) for o in outs]       # the online body may submit more work (op ['bc']): grows

            def mk(i):
                async def pf():
                    state[i] = 'R'
                    running[0] += 1
                    running[1] = max(running[1], running[0])
                    own = False
                    try:
                        v = await s.gate(('t', i))
                        if isinstance(v, type) and issubclass(v, asyncio.CancelledError):
                            own = True
                            raise asyncio.CancelledError()     # scripted outcome `c`: the body itself ends in CancelledError
                        state[i] = f'ok:{canon_value(v)}'
                        return v
                    except asyncio.CancelledError:
                        if i in gated and not own:              # clean-up that lasts until the harness lets it finish
                            state[i] = 'C'
                            g = s.gate(('u', i))
                            while not g.done():
                                try:
                                    await asyncio.shield(g)
                                except asyncio.CancelledError:
                                    continue
                        if i in timed and not own:              # clean-up that takes (virtual) time
                            state[i] = 'C'
                            deadline = s.loop.time() + timed[i]
                            while s.loop.time() < deadline:
                                try:
                                    await asyncio.sleep(deadline - s.loop.time())
                                except asyncio.CancelledError:
                                    continue
                        if i in slow and not own:               # clean-up that needs a few more loop iterations
                            state[i] = 'C'
                            try:
                                for _ in range(4):
                                    await asyncio.sleep(0)
                            except asyncio.CancelledError:
                                pass
                        state[i] = 'X'
                        raise
                    except TaskError as e:
                        state[i] = f'err:{e.code}'
                        raise
                    finally:
                        running[0] -= 1
                return pf
            pfs = [mk(i) for i in range(k)]
            helper = {'state': 'active', 'p': 0}
            pool_tasks = []
            body_gate = [0]

            def canon_exc(e):
                if isinstance(e, asyncio.CancelledError):
                    return 'exc:X'
                return f'exc:{e.code}' if isinstance(e, TaskError) else f'exc:{type(e).__name__}'

            def canon_slot(x):
                if isinstance(x, tuple) and len(x) == 2:        # return_exceptions: the pair (value, None) | (None, exception)
                    v, e = x
                    if e is None:
                        return f'ok:{canon_value(v)}'
                    if v is not None:
                        return f'bad-pair:{canon_value(v)}/{canon_value(e)}'
                    if isinstance(e, asyncio.CancelledError):
                        return 'X'
                    return f'err:{e.code}' if isinstance(e, TaskError) else f'err:{type(e).__name__}'
                return f'ok:{canon_value(x)}'

            async def call(sema):
                if fl == 'on':
                    async with U.OnlineBoundedGather2(sema) as pool:
                        pool_tasks.extend(pool.call(pf) for pf in pfs)
                        while True:
                            cmd = await s.gate(('body', body_gate[0]))
                            body_gate[0] += 1
                            if cmd != 'call':
                                break
                            # the body submits one more piece of work (raises PoolShutdownError if the pool is shut down)
                            j = len(state)
                            state.append('Q')
                            outs.append(['r', 77])
                            try:
                                pool_tasks.append(pool.call(mk(j)))
                            except BaseException:
                                state.pop()
                                outs.pop()
                                raise
                    res = []
                    for t in pool_tasks:
                        i_ = len(res)      # a task whose body was cancelled also returns None: told apart by the body's own record
                        res.append('X' if (t.cancelled() or (t.result() is None and not state[i_].startswith('ok:'))) else canon_slot(t.result()))
                    return res
                if entry == 'bg':
                    r = await U.bounded_gather(*pfs, parallelism=n, return_exceptions=(fl == 'rx'), cancel_on_error=(fl == 'rc'))
                else:
                    r = await U.bounded_gather2(sema, *pfs, return_exceptions=(fl == 'rx'), cancel_on_error=(fl == 'rc'))
                return [canon_slot(x) for x in r]

            async def caller():
                async def inner(sema):
                    try:
                        r = await call(sema)
                        helper['state'] = 'ret:' + ';'.join(r)
                    except BaseException as e:   # noqa: the caller's continuation after the helper raised
                        helper['state'] = canon_exc(e)
                    helper['p'] = sum(1 for t in created[1:] if not t.done())
                if entry == 'hold':
                    sema = RecordingSemaphore(n)
                    async with sema:
                        await inner(sema)
                else:
                    asyncio.Semaphore = RecordingSemaphore
                    try:
                        await inner(None)
                    finally:
                        asyncio.Semaphore = real_sema

            body_open = [False]

            def status(i):
                t = (pool_tasks[i] if i < len(pool_tasks) else None) if fl == 'on' else (created[1 + i] if 1 + i < len(created) else None)
                if state[i] == 'Q' and t is not None and t.done():
                    return 'X'
                return state[i]

            def line():
                h = helper['state']
                if h == 'active' and body_open[0]:
                    h = 'exiting'
                free = semas[0]._value if semas else '-'
                ln = f"s={','.join(status(i) for i in range(len(state)))} f={free} h={h} p={helper['p']} m={running[1]}"
                return ln

            out = ['ok']
            s.spawn('caller', caller())
            out.append(line())
            for op in c['ops']:
                running[1] = running[0]
                if op[0] == 'f':
                    i = op[1]
                    if not (0 <= i < len(state)) or state[i] != 'R':
                        out.append('err')
                        continue
                    kind, v = outs[i][0], outs[i][1]
                    if kind == 'r':
                        s.open(('t', i), value=v)
                    elif kind == 'c':
                        s.open(('t', i), value=asyncio.CancelledError)
                    elif kind == 'n':
                        s.open(('t', i), value=None)
                    elif kind == 'v':
                        s.open(('t', i), value=TaskError(v))               # an exception instance RETURNED as the value
                    elif kind == 'w':
                        s.open(('t', i), value=asyncio.CancelledError())   # a CancelledError instance RETURNED as the value
                    else:
                        s.open(('t', i), exc=TaskError(v))
                elif op[0] == 'adv':
                    s.advance(op[1])                 # the virtual clock moves on; due timers fire in order
                elif op[0] == 'u':
                    if not (0 <= op[1] < len(state)) or state[op[1]] != 'C':
                        out.append('err')
                        continue
                    s.open(('u', op[1]))
                elif op[0] == 'bc':
                    if fl != 'on' or body_open[0] or helper['state'] != 'active':
                        out.append('err')
                        continue
                    s.open(('body', body_gate[0]), value='call')
                elif op[0] == 'x':
                    if helper['state'] != 'active':
                        out.append('err')      # the caller is no longer inside the helper
                        continue
                    s.cancel('caller')
                else:
                    if fl != 'on' or body_open[0] or helper['state'] != 'active':
                        out.append('err')
                        continue
                    body_open[0] = True
                    if op[1] == 'r':
                        s.open(('body', body_gate[0]), value=None)
                    else:
                        s.open(('body', body_gate[0]), exc=TaskError(op[2]))
                out.append(line())
            for i in range(len(state)):          # let pending clean-ups end so that the loop can be closed
                if state[i] == 'C' and i in gated:
                    s.open(('u', i))
            if timed:
                s.advance(2 * 3600 + 10)
            return out
        finally:
            asyncio.Semaphore = real_sema
            s.close()

    # ---- the property on the real behaviour -------------------------------------------------------
    @staticmethod
    def _parse(ln):
        d = {}
        for tok in ln.split(' '):
            a, _, b = tok.partition('=')
            d[a] = b
        d['s'] = [x for x in d['s'].split(',') if x != '']
        return d

    @staticmethod
    def _first_err(c, upto):
        """the first exception in schedule order that the helper gets to see among the ops[0..upto] that really happened (from the case
        script): a failed task, a task ending in CancelledError (for the raising helpers: gather treats a cancelled child as raising
        it; return_exceptions stores it in place and the online pool swallows it), the body's exception, the caller's cancellation"""
        fl = c['fl']
        for op in c['ops'][:upto + 1]:
            if op[0] == 'f' and 0 <= op[1] < len(c['outs']):
                kind = c['outs'][op[1]][0]
                if kind == 'e' and fl != 'rx':
                    return c['outs'][op[1]][1]
                if kind == 'c' and fl in ('rf', 'rc'):
                    return 'X'
            if op[0] == 'b' and op[1] == 'e':
                return op[2]
            if op[0] == 'x':
                return 'X'
        return None

    def oracle(self, c, out):
        if out and out[0].startswith('IMPL-EXC'):
            return out[0]
        fl, n, outs = c['fl'], c['n'], c['outs']
        k = len(outs)
        finished_before = False
        happened = []       # indices of ops that were behaviours
        lines = out[1:]
        for idx, ln in enumerate(lines):
            opi = idx - 1     # -1 = the start step
            if ln == 'err':
                continue
            if opi >= 0:
                happened.append(opi)
            if opi >= 0 and c['ops'][opi][0] == 'x' and not finished_before:
                prev = {'fl': fl, 'entry': c['entry'], 'n': n, 'outs': outs, 'ops': [c['ops'][j] for j in happened[:-1]]}
                if self._first_err(prev, len(prev['ops'])) is not None:
                    # the caller is cancelled while the helper is already unwinding from an earlier exception (only possible when a
                    # clean-up lasts across steps): a second fault during the clean-up is outside the property's quantifier
                    return None
            d = self._parse(ln)
            at = 'after start' if opi < 0 else f"after op {opi} {c['ops'][opi]}"
            # running_le_bound: peak number of task bodies inside pf() during the step
            if int(d['m']) > n:
                return f"running_le_bound: {at}: {d['m']} task bodies ran at once; the semaphore was created with {n} permits"
            h = d['h']
            finished = h.startswith('ret:') or h.startswith('exc:')
            sub = {'fl': fl, 'entry': c['entry'], 'n': n, 'outs': outs, 'ops': [c['ops'][j] for j in happened]}
            ferr = self._first_err(sub, len(happened))
            done_states = ('ok', 'err', 'X')
            if not finished and k > 0 and fl != 'on' and all(x.split(':')[0] in done_states for x in d['s']):
                tag = 'return_exceptions_total' if fl == 'rx' else 'results_in_submission_order'
                return f"{tag}: {at}: every task is finished {d['s']} but the helper has not returned"
            clause = {'rx': 'return_exceptions_total', 'rf': 'raise_is_first', 'rc': 'raise_is_first', 'on': 'first_exception_wins'}[fl]
            # the error contract: whenever the helper has raised, it raised the first exception in schedule order (for
            # return_exceptions that can only be the cancellation of its caller); it never returns once there was one
            if h.startswith('exc:') and h != f'exc:{ferr}':
                return f'{clause}: {at}: the helper raised {h}; the first exception in schedule order is {ferr}'
            if h.startswith('ret:') and ferr is not None:
                return f'{clause}: {at}: the helper returned {h} although exception {ferr} occurred first'
            if h.startswith('ret:'):
                slots = [x for x in h[4:].split(';') if x != '']
                want = [want_slot(o) for o in outs]
                want += ['ok:77'] * (len(d['s']) - k)       # work the online body submitted later (op bc)
                if slots != want:
                    return f'results_in_submission_order: {at}: returned {slots}, submitted outcomes in order are {want}'
            if finished and not finished_before:
                unfinished = [i for i, x in enumerate(d['s']) if x in ('Q', 'R', 'C')]
                must_be_quiet = h.startswith('ret:') or fl in ('rx', 'rc', 'on')
                if must_be_quiet and fl == 'rc' and h.startswith('exc:') and unfinished:
                    return (f'cancel_on_error_cancels_rest: {at}: the helper raised {h} with cancel_on_error=True but tasks {unfinished} '
                            f"are still queued/running after the loop settled: {d['s']}")
                if must_be_quiet and unfinished:
                    return f"none_running_after_return: {at}: helper finished ({h}) but tasks {unfinished} are still queued/running: {d['s']}"
                if must_be_quiet and int(d['p']) > 0:
                    return (f"none_running_after_return: {at}: {d['p']} task(s) created by the helper were not finished at the instant it "
                            f'{"returned" if h.startswith("ret:") else "raised"} ({h}) (cancelled but not awaited)')
            finished_before = finished
        return None

    def classify(self, c, out):
        tags = [f"fl={c['fl']}", f"entry={c['entry']}", f"n={c['n']}", f"tasks={len(c['outs'])}",
                f"fails={sum(1 for o in c['outs'] if o[0] == 'e')}"]
        if any(o[0] == 'c' for o in c['outs']):
            tags.append('task-ends-in-CancelledError')
        if any(o[0] in 'vw' for o in c['outs']):
            tags.append('task-returns-exception-instance')
        if any(o[0] == 'n' for o in c['outs']):
            tags.append('task-returns-None')
        if any(o[0] == 'x' for o in c['ops']):
            tags.append('caller-cancelled')
        waited = False
        err = any(o[0] in 'ec' for o in c['outs']) or any(o[0] == 'x' for o in c['ops']) or any(o[0] == 'b' and o[1] == 'e' for o in c['ops'])
        last = None
        for ln in out[1:]:
            if ln == 'err':
                tags.append('not-a-behaviour(err)')
                continue
            d = self._parse(ln)
            if 'Q' in d['s']:
                waited = True
            last = d
        if last is not None:
            h = last['h']
            tags.append('end=' + (h.split(':')[0]))
            if 'X' in last['s']:
                tags.append('some-cancelled')
            if any(x in ('Q', 'R') for x in last['s']):
                tags.append('unfinished-at-end')
            if int(last['p']) > 0:
                tags.append('pending-at-return')
        if waited:
            tags.append('had-to-wait-for-permit')
        return (json.dumps(c, sort_keys=True) if (waited or err) else None, tags)

    def extra_checks(self, repo, tier, rng):
        """the clean-up clauses again with task bodies whose cancellation takes several loop iterations (an `await` in their clean-up):
        outside the model (its tasks end in the step that cancels them), so only the property itself is evaluated on the real run"""
        fails = []
        self._slow_cases = 0
        for _ in range(600 if tier == 'quick' else 6000):
            c = self._random_case(rng)
            k = len(c['outs'])
            c['slow'] = sorted(rng.sample(range(k), rng.randint(1, k)))
            self._slow_cases += 1
            msg = self.oracle(c, self.impl(c))
            if msg:
                fails.append((c, msg))
        # clean-ups that last across harness steps (blocked until op ['u', i]) interleaved with everything else; for the online pool
        # the body may also submit more work (op ['bc'], PoolShutdownError if the pool was shut down meanwhile), end or be cancelled
        # at any point — e.g. a task fails while the body is still running and the body leaves during the siblings' clean-up
        boundary = [
            # a task fails while the body is still running; the body leaves (normally / after a further call that gets
            # PoolShutdownError / with its own exception) while the cancelled sibling is still cleaning up; then the clean-up ends
            {'fl': 'on', 'entry': 'hold', 'n': 2, 'outs': [['e', 11], ['r', 20]], 'ops': [['f', 0], ['b', 'r', 0], ['u', 1]], 'gated': [1]},
            {'fl': 'on', 'entry': 'hold', 'n': 3, 'outs': [['e', 11], ['r', 20]], 'ops': [['f', 0], ['bc'], ['u', 1]], 'gated': [1]},
            {'fl': 'on', 'entry': 'hold', 'n': 2, 'outs': [['e', 11], ['r', 20]], 'ops': [['f', 0], ['b', 'e', 99], ['u', 1]], 'gated': [1]},
            # the body submits more work to a live pool, which is waited for at the exit
            {'fl': 'on', 'entry': 'hold', 'n': 3, 'outs': [['r', 10], ['r', 20]], 'ops': [['bc'], ['f', 2], ['f', 0], ['b', 'r', 0], ['f', 1]],
             'gated': [1]},
            # cancel_on_error waits for a lasting clean-up before it raises
            {'fl': 'rc', 'entry': 'hold', 'n': 2, 'outs': [['e', 11], ['r', 20]], 'ops': [['f', 0], ['u', 1]], 'gated': [1]},
        ]
        boundary += [
            # a task fails, the sibling's clean-up takes 61 s / 300 s / 1 h of virtual time; the body leaves; the clock advances past
            # 60 s: the pool exit must still be waiting until the clean-up has ended
            {'fl': 'on', 'entry': 'hold', 'n': 2, 'outs': [['e', 11], ['r', 20]], 'ops': [['f', 0], ['b', 'r', 0], ['adv', 60], ['adv', 1], ['adv', 1]],
             'timed': {'1': 61}},
            {'fl': 'on', 'entry': 'hold', 'n': 2, 'outs': [['e', 11], ['r', 20]], 'ops': [['b', 'r', 0], ['f', 0], ['adv', 61], ['adv', 239]],
             'timed': {'1': 300}},
            {'fl': 'on', 'entry': 'hold', 'n': 3, 'outs': [['r', 10], ['e', 21], ['r', 30]], 'ops': [['f', 1], ['adv', 59], ['b', 'r', 0], ['adv', 2], ['adv', 3600]],
             'timed': {'0': 3600, '2': 45}},
            {'fl': 'rc', 'entry': 'hold', 'n': 2, 'outs': [['e', 11], ['r', 20]], 'ops': [['f', 0], ['adv', 61], ['adv', 300]], 'timed': {'1': 300}},
        ]
        for c in boundary:
            self._slow_cases += 1
            msg = self.oracle(c, self.impl(c))
            if msg:
                fails.append((c, msg))
        for _ in range(1500 if tier == 'quick' else 15000):
            c = self._random_gated_case(rng)
            self._slow_cases += 1
            msg = self.oracle(c, self.impl(c))
            if msg:
                fails.append((c, msg))
        # clean-ups that take TIME on the virtual clock (a sleep inside the cancellation handler): 0 s … 1 h
        for _ in range(800 if tier == 'quick' else 8000):
            c = self._random_timed_case(rng)
            self._slow_cases += 1
            msg = self.oracle(c, self.impl(c))
            if msg:
                fails.append((c, msg))
        return fails

    def _random_timed_case(self, rng):
        fl = rng.choice(['on', 'on', 'on', 'rc', 'rx'])
        n = rng.choice([2, 2, 3])
        k = rng.choice([2, 2, 3, 4])
        outs = [['e', 10 * (i + 1) + 1] if rng.random() < 0.4 else ['r', 10 * (i + 1)] for i in range(k)]
        if not any(o[0] == 'e' for o in outs):
            outs[rng.randrange(k)] = ['e', 1]
        timed = {str(i): rng.choice([0, 1, 59, 60, 61, 300, 3600]) for i in rng.sample(range(k), rng.randint(1, k))}
        ops = [['f', i] for i in range(k)]
        if fl == 'on':
            ops.append(['b', 'e' if rng.random() < 0.2 else 'r', 99])
        else:
            if rng.random() < 0.3:
                ops.append(['x'])
        for _ in range(rng.choice([1, 2, 3])):
            ops.append(['adv', rng.choice([1, 58, 59, 60, 61, 62, 240, 3600])])
        rng.shuffle(ops)
        return {'fl': fl, 'entry': 'hold', 'n': n, 'outs': outs, 'ops': ops, 'timed': timed}

    def _random_gated_case(self, rng):
        fl = rng.choice(['on', 'on', 'on', 'rc', 'rx', 'rf'])
        n = rng.choice([1, 2, 2, 3, 3])
        k = rng.choice([1, 2, 2, 3, 3, 4])
        outs = []
        for i in range(k):
            r = rng.random()
            outs.append(['e', 10 * (i + 1) + 1] if r < 0.35 else ['c', 0] if r < 0.45 else
                        rng.choice([['v', 10 * (i + 1) + 1], ['n', 0], ['w', 0]]) if r < 0.55 else ['r', 10 * (i + 1)])
        gated = sorted(rng.sample(range(k), rng.randint(1, k)))
        ops = [['f', i] for i in range(k)] + [['u', i] for i in gated]
        if fl == 'on':
            ops.append(['b', 'e' if rng.random() < 0.3 else 'r', 99])
            for _ in range(rng.choice([0, 0, 1, 2])):
                ops.append(['bc'])
            if rng.random() < 0.5:
                ops += [['f', k], ['u', k]]
        if rng.random() < 0.25:
            ops.append(['x'])
        rng.shuffle(ops)
        if rng.random() < 0.5:
            ops += [['u', i] for i in gated] + [['f', i] for i in range(k)]
        return {'fl': fl, 'entry': 'hold', 'n': n, 'outs': outs, 'ops': ops, 'gated': gated}

    def extra_coverage(self):
        return {'slow_cleanup_cases': getattr(self, '_slow_cases', 0)}

    # ---- findings / shrinking ---------------------------------------------------------------------
    @staticmethod
    def _tag(msg):
        return msg.split(':', 1)[0] if msg else None

    def _fails_tag(self, c, tag):
        key = json.dumps(c, sort_keys=True)
        memo = self.__dict__.setdefault('_tag_memo', {})
        if key not in memo:
            try:
                memo[key] = self._tag(self.oracle(c, self.impl(c)))
            except Exception:
                memo[key] = None
        return memo[key] == tag

    @staticmethod
    def _drop_slow(c, i):
        for key in ('slow', 'gated'):
            if key in c:
                c[key] = [x - 1 if x > i else x for x in c[key] if x != i]
        if 'timed' in c:
            c['timed'] = {str(int(k_) - 1 if int(k_) > i else int(k_)): v_ for k_, v_ in c['timed'].items() if int(k_) != i}
        return c

    def _minimise(self, c, tag):
        """deterministic greedy reduction to a canonical smallest case failing the same clause of the property"""
        cur = json.loads(json.dumps(c))

        def attempt(cand):
            nonlocal cur
            if cand != cur and self._fails_tag(cand, tag):
                cur = cand
                return True
            return False
        changed = True
        while changed:
            changed = False
            for fl in FLAVOURS[:FLAVOURS.index(cur['fl'])]:
                if attempt(dict(cur, fl=fl)):
                    changed = True
                    break
            if cur['entry'] == 'bg' and attempt(dict(cur, entry='hold')):
                changed = True
            for n in range(1, cur['n']):
                if attempt(dict(cur, n=n)):
                    changed = True
                    break
            for j in reversed(range(len(cur['ops']))):
                if attempt(dict(cur, ops=cur['ops'][:j] + cur['ops'][j + 1:])):
                    changed = True
                    break
            if cur.get('timed'):
                for k_ in list(cur['timed']):
                    if attempt(dict(cur, timed={a_: b_ for a_, b_ in cur['timed'].items() if a_ != k_})):
                        changed = True
                        break
            for key in ('slow', 'gated'):
                if cur.get(key) is not None and key in cur:
                    if attempt({k_: v_ for k_, v_ in cur.items() if k_ != key}):
                        changed = True
                    else:
                        for j in list(cur[key]):
                            if attempt(dict(cur, **{key: [x for x in cur[key] if x != j]})):
                                changed = True
                                break
            for i in reversed(range(len(cur['outs']))):
                ops = [[o[0], o[1] - 1] if (o[0] in ('f', 'u') and o[1] > i) else o for o in cur['ops'] if not (o[0] in ('f', 'u') and o[1] == i)]
                if attempt(self._drop_slow(dict(cur, outs=cur['outs'][:i] + cur['outs'][i + 1:], ops=ops), i)):
                    changed = True
                    break
            if cur['n'] > 1:      # compound move: one permit less and one task less
                for i in reversed(range(len(cur['outs']))):
                    ops = [[o[0], o[1] - 1] if (o[0] in ('f', 'u') and o[1] > i) else o for o in cur['ops'] if not (o[0] in ('f', 'u') and o[1] == i)]
                    if attempt(self._drop_slow(dict(cur, n=cur['n'] - 1, outs=cur['outs'][:i] + cur['outs'][i + 1:], ops=ops), i)):
                        changed = True
                        break
            for i in range(len(cur['outs'])):
                for new in (['r', 0], ['e', 0] if cur['outs'][i][0] == 'c' else ['r', 0], [cur['outs'][i][0], 0]):
                    if cur['outs'][i] != new and attempt(dict(cur, outs=cur['outs'][:i] + [new] + cur['outs'][i + 1:])):
                        changed = True
                        break
            for j, o in enumerate(cur['ops']):
                if o[0] == 'b' and o[2] != 0 and attempt(dict(cur, ops=cur['ops'][:j] + [[o[0], o[1], 0]] + cur['ops'][j + 1:])):
                    changed = True
        return cur

    def finding_key(self, c, msg):
        """the canonical minimal witness of the violated clause (so that every manifestation of one defect has one key)"""
        tag = self._tag(msg)
        return json.dumps({'clause': tag, 'witness': self._minimise(c, tag)}, sort_keys=True)

    def shrink(self, c, fails):
        msg = self.oracle(c, self.impl(c))
        if not msg:
            return c
        return self._minimise(c, self._tag(msg))


PROP = C20()
